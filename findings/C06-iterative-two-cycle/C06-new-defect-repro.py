"""iterative treatment of parameter-dependent uncertainties: the iteration alternates between two points and do_fit() silently
returns one of them after max_iterations (= 10) passes; the result is not a fixed point."""
import warnings
import numpy as np
from kafe2 import XYFit

warnings.simplefilter("ignore")
x = [2.4934, 6.5285, 1.7542, 4.3449, 3.2965, 5.0379, 3.8642, 0.7243, 1.1229, 5.3362, 6.0753, 2.1484, 6.2748]
y = [4.73697, 1.43188, 2.92024, 2.74181, 5.331, 1.91745, 3.91685, 1.92755, 2.0516, 1.95409, 1.60151, 3.7899, 1.36026]
ey = [0.203543, 0.368539, 0.339024, 0.398488, 0.188681, 0.301843, 0.385062, 0.214524, 0.200166, 0.177016, 0.211762, 0.301696, 0.324075]


def lorentz(x, A=5.0, x0=3.0, g=1.0, c=1.0):
    return A / (1.0 + ((x - x0) / g) ** 2) + c


for minimizer in ("iminuit", "scipy"):
    fit = XYFit([x, y], lorentz, minimizer=minimizer, dynamic_error_algorithm="iterative")
    fit.add_error("y", ey)
    fit.add_error("x", 0.12, correlation=0.6)
    fit.limit_parameter("A", 5.17, 8.47)  # the data were drawn with A = 5.0: the limit cuts the optimum off
    fit.set_parameter_values(A=5.28864, x0=2.85322, g=0.94161, c=1.04014)
    # trace of the passes
    trace = []
    post = fit._post_fit_iteration

    def traced(runtime, first_fit=False, post=post, fit=fit, trace=trace):
        post(runtime, first_fit=first_fit)
        trace.append((np.round(fit.parameter_values, 5), round(float(fit.cost_function_value), 4)))

    fit._post_fit_iteration = traced
    fit.do_fit()
    first = np.array(fit.parameter_values)
    print(minimizer, "passes:", len(trace))
    for t in trace:
        print("   ", t[0], t[1])
    errs = np.array(fit.parameter_errors)
    print("  reported", np.round(first, 5), " previous pass", trace[-2][0], " errors", np.round(errs, 4))
    dev = np.abs(trace[-1][0] - trace[-2][0]) / errs
    if np.any(dev > 0.02):
        print("  NOT A FIXED POINT: the last two passes differ by %s sigma; cost %.4f / %.4f" % (np.round(dev, 2), trace[-1][1], trace[-2][1]))
