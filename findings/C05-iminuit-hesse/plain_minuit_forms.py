import json, numpy as np, iminuit
r=json.load(open('/verif/findings/C05-iminuit-hesse/C05-unclassified-parameter_cov_mat-e99bd47f6c8a67bb.json'))
sp=r['case']['members'][0]['spec']
x=np.array(sp['x']); y=np.array(sp['y']); st=r['case']['start']
W=np.vander(x,4,increasing=True); Vi=np.diag(1/(0.098043*y)**2); H=W.T@Vi@W; C=np.linalg.inv(H)
p0=C@W.T@Vi@y
s0=np.array([st[k] for k in ['c0','c1','c2','c3']])
for form in ['quad','resid']:
  for steps in ([0.1]*4, [0.1,0.05,0.02,0.01], 0.1*np.abs(s0), np.sqrt(np.diag(C))):
    fn = (lambda v: -5.889+float((np.asarray(v)-p0)@H@(np.asarray(v)-p0))) if form=='quad' else (lambda v: -239.47+float((y-W@v)@Vi@(y-W@v)))
    m2=iminuit.Minuit(fn, s0); m2.errordef=1; m2.errors=steps; m2.tol=0.01; m2.strategy=1
    m2.migrad(ncall=6000); m2.hesse(); print(form, np.round(steps,9), (np.array(m2.covariance)/C).ravel()[:2])
print('--- rounded at chi2 magnitude')
for steps in ([0.1]*4, 0.1*np.abs(s0), np.sqrt(np.diag(C))):
    fn = lambda v: (233.58+float((np.asarray(v)-p0)@H@(np.asarray(v)-p0))) + (-5.889-233.58)
    m2=iminuit.Minuit(fn, s0); m2.errordef=1; m2.errors=steps; m2.tol=0.01; m2.strategy=1
    m2.migrad(ncall=6000); m2.hesse(); print(np.round(steps,9), (np.array(m2.covariance)/C).ravel()[:2])
