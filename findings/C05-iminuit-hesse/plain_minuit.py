import json, numpy as np, iminuit
from kafe2 import XYFit
r=json.load(open('/verif/findings/C05-iminuit-hesse/C05-unclassified-parameter_cov_mat-e99bd47f6c8a67bb.json'))
sp=r['case']['members'][0]['spec']
x=np.array(sp['x']); y=np.array(sp['y'])
def poly3_model(x,c0=1.0,c1=0.5,c2=0.2,c3=0.1): return c0+c1*x+c2*x**2+c3*x**3
f=XYFit([x,y],poly3_model,minimizer='iminuit'); f.add_error('y',0.098043,relative=True)
st=r['case']['start']; f.set_all_parameter_values([st[k] for k in ['c0','c1','c2','c3']])
m=f._fitter._minimizer
print({k:v for k,v in m._minimizer_param_dict.items()}, m.errordef, m.tolerance if hasattr(m,'tolerance') else None)
f.do_fit()
mi=m._get_iminuit(); print('errors init?', mi.init_params if hasattr(mi,'init_params') else None)
W=np.vander(x,4,increasing=True); Vi=np.diag(1/(0.098043*y)**2); H=W.T@Vi@W; C=np.linalg.inv(H)
s0=[st[k] for k in ['c0','c1','c2','c3']]
for errs in [None,[0.1]*4,[1.0]*4,[1e-2]*4,[1e-5]*4]:
  for off in [0.0,-239.47]:
    m2=iminuit.Minuit(lambda a,b,c,dd: off+float((y-W@[a,b,c,dd])@Vi@(y-W@[a,b,c,dd])), *s0); m2.errordef=1
    if errs: m2.errors=errs
    m2.migrad(); m2.hesse(); print(errs, off, 'ratio', (np.array(m2.covariance)/C).ravel()[:2], m2.nfcn)
