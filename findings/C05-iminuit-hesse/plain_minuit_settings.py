import json, numpy as np, iminuit
r=json.load(open('/verif/findings/C05-iminuit-hesse/C05-unclassified-parameter_cov_mat-e99bd47f6c8a67bb.json'))
sp=r['case']['members'][0]['spec']
x=np.array(sp['x']); y=np.array(sp['y']); st=r['case']['start']
W=np.vander(x,4,increasing=True); Vi=np.diag(1/(0.098043*y)**2); H=W.T@Vi@W; C=np.linalg.inv(H)
s0=[st[k] for k in ['c0','c1','c2','c3']]
for tol in [0.1,0.01,1e-3]:
 for strat in [0,1,2]:
  for twice in [1,2]:
    m2=iminuit.Minuit(lambda a,b,c,dd: -239.47+float((y-W@[a,b,c,dd])@Vi@(y-W@[a,b,c,dd])), *s0); m2.errordef=1
    m2.errors=[0.1,0.05,0.02,0.01]; m2.tol=tol; m2.strategy=strat
    for _ in range(twice): m2.migrad(ncall=6000)
    m2.hesse(); print(tol,strat,twice, 'ratio', (np.array(m2.covariance)/C).ravel()[:2], m2.nfcn)
print('--- step sizes, tol=0.01 strategy 1')
for errs in [[0.1,0.05,0.02,0.01],[1e-5*abs(v)/abs(v) for v in s0],[0.1*abs(v) for v in s0],[1e-3]*4,[1e-4]*4,[1e-6]*4,[1e-8]*4]:
    m2=iminuit.Minuit(lambda a,b,c,dd: -239.47+float((y-W@[a,b,c,dd])@Vi@(y-W@[a,b,c,dd])), *s0); m2.errordef=1
    m2.errors=errs; m2.tol=0.01; m2.strategy=1
    m2.migrad(ncall=6000); m2.hesse(); print(errs, 'ratio', (np.array(m2.covariance)/C).ravel()[:2], m2.nfcn)
