import json, numpy as np
from kafe2 import XYFit
r=json.load(open('/verif/findings/C05-iminuit-hesse/C05-unclassified-parameter_cov_mat-e99bd47f6c8a67bb.json'))
sp=r['case']['members'][0]['spec']
x=np.array(sp['x']); y=np.array(sp['y'])
def poly3_model(x,c0=1.0,c1=0.5,c2=0.2,c3=0.1): return c0+c1*x+c2*x**2+c3*x**3
def run(mini, scale=1.0):
    f=XYFit([x,y*scale],poly3_model,minimizer=mini)
    f.add_error('y',0.098043,relative=True)
    st=r['case']['start']; f.set_all_parameter_values([st[k]*scale for k in ['c0','c1','c2','c3']])
    f.do_fit()
    W=np.vander(x,4,increasing=True); V=np.diag((0.098043*y*scale)**2)
    C=np.linalg.inv(W.T@np.linalg.inv(V)@W)
    p=C@W.T@np.linalg.inv(V)@(y*scale)
    print(mini, scale, 'cov ratio', (f.parameter_cov_mat/C).ravel()[:4], 'dp/sig', (f.parameter_values-p)/np.sqrt(np.diag(C)), 'cost', f.cost_function_value, )
    return f
f=run('iminuit'); run('scipy'); run('iminuit',1e4)
m=f._fitter._minimizer
mm=m._get_iminuit() if hasattr(m,'_get_iminuit') else None
print(type(m), [a for a in dir(m) if 'minuit' in a.lower()])
W=np.vander(x,4,increasing=True); V=np.diag((0.098043*y)**2)
C=np.linalg.inv(W.T@np.linalg.inv(V)@W)
mi=m._get_iminuit()
print('strategy',mi.strategy, 'errordef',mi.errordef,'tol',mi.tol,'prec',mi.precision, 'fval',mi.fval, 'edm', mi.fmin.edm, 'valid',mi.valid, 'accurate', mi.accurate, mi.fmin.has_made_posdef_covar, mi.fmin.hesse_failed)
print('ratio now', (np.array(mi.covariance)/C*1).ravel()[:3]*0.5*2)
mi.hesse(); print('after hesse again', (np.array(mi.covariance)/C).ravel()[:3])
mi.hesse(); print('after hesse again', (np.array(mi.covariance)/C).ravel()[:3])
mi.strategy=2; mi.hesse(); print('strategy 2', (np.array(mi.covariance)/C).ravel()[:3])
f2=XYFit([x,y],poly3_model,minimizer='iminuit'); f2.add_error('y',0.098043,relative=True); f2.do_fit(); print('default start', (f2.parameter_cov_mat/C).ravel()[:3])
