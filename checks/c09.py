"""C09 — saving and reloading any object reproduces it.

Shape: round-trip differential monitor + parsed-document monitor.
Every generated object (4 data containers, 4 parametric models, model functions, simple / matrix
parameter constraints, fits of the 5 serialisable types before / after fitting) is written with
``obj.to_file(path)`` and read back with ``type(obj).from_file(path)``; original and reloaded object are
then *observed* through the public API (data, labels, uncertainty sources incl. enabled state, total
covariance, model values / constraint cost / cost at 3 parameter points, fixed / limited parameters,
stored results, result of a refit) and the observations are compared group by group; the first
divergence ends the history.  Second cycle: the parsed YAML documents of save(obj) and
save(load(save(obj))) are compared as data.  Further histories: write-write-read on one path (long
object then short object) and save_state / load_state into a freshly built twin fit.  Last stage of a fit history
("post-load"): original and reloaded fit receive the same further operations (sources switched off / on, a new
data- or model-referenced source, parameter values, fixing / releasing) and are observed after each of them
(enabled flags, total uncertainties, parameter state, cost): a reloaded object has to follow them as the original does.
Input classes added for recorded defects: value of an already fixed parameter changed before saving (by name /
all values at once), pointwise vectors whose entries differ only in the 6th digit or are all of order 1e-11,
cost functions handed over as objects (default and non-default options).
"""
import linecache
import math
import os
import shutil
import tempfile

import numpy as np
import yaml

from kafe2.core.constraint import GaussianMatrixParameterConstraint, GaussianSimpleParameterConstraint
from kafe2.core.error import SimpleGaussianError
from kafe2.fit import (
    CustomFit,
    HistContainer,
    HistFit,
    HistModelFunction,
    HistParametricModel,
    IndexedContainer,
    IndexedFit,
    IndexedModelFunction,
    IndexedParametricModel,
    UnbinnedContainer,
    UnbinnedFit,
    UnbinnedParametricModel,
    XYContainer,
    XYFit,
    XYParametricModel,
)
from kafe2.fit._base import ModelFunctionBase
from kafe2.fit._base.cost import CostFunction_Chi2, CostFunction_GaussApproximation, CostFunction_NegLogLikelihood
from kafe2.fit.xy.cost import XYCostFunction_Chi2, XYCostFunction_GaussApproximation, XYCostFunction_NegLogLikelihood
from kafe2.fit.representation.error.common_error_tools import MatrixYamlLoader
from vlib import dsl, gen
from vlib.fitcase import Member
from vlib.models import Model
from vlib.monitor import OpTimeout, fmt_exc, time_limit
from vlib.ref import COST_ALIASES, NEEDS_ERRORS, POISSON

PROPERTY = "C09"
TIERS = {"quick": {"shards": 8, "budget_s": 30}, "thorough": {"shards": 16, "budget_s": 400}}
RULE = (
    "object kind (XY/Indexed/Hist[raw|manual bins]/Unbinned container; XY/Indexed/Hist/Unbinned parametric model; model function as "
    "generated def source or library name, base/indexed/hist flavour; simple|matrix constraint x abs|rel x cov|cor; XY/Indexed/Hist/"
    "Unbinned/Custom fit x unfitted|fitted|fitted+asymmetric errors) x <=4 uncertainty sources (simple/matrix cov/cor, abs/rel, "
    "data/model reference, x/y, scalar/constant/varying/nearly-constant vector [entries equal to ~6 digits, or all of order 1e-11], "
    "disabled) x <=2 constraints x fixed/limited parameters [fixed value changed again by name | all values] x cost function by name | "
    "as object with default | 1-2 non-default options x labels x "
    "magnitude 1e-9..1e9; histories: save-load-observe-save (parsed documents), write-write-read on one path, save_state/load_state "
    "into a fresh twin, post-load: <=6 identical further operations (disable/enable/add source, set/fix/release parameter) on original and "
    "reloaded fit, observed after each; non-trivial = object carries >=1 source, constraint or fit result (model functions: >=2 parameters with "
    "distinct defaults) AND >=1 discriminating field pair is unequal (underflow != overflow, relative constraint on value != 1, "
    "disabled source, varying vector, x != y source, cor matrix with non-unit errors, lower != -upper limit, parameter != default, ...); "
    "distinct by case hash"
)
ASSUMPTIONS = [
    "observational equivalence is judged through the public API (containers: data/labels/get_matching_errors/get_error/err/cov_mat; fits: "
    "parameter_*, fixed/limited parameters of the fitter, parameter_constraints, model, total_cov_mat, cost_function_value, get_result_dict, do_fit)",
    "model functions are self-contained def sources using only numpy as np (what kafe2's restricted re-execution provides) or library names; "
    "histogram bin evaluation by name or by an antiderivative that needs only numpy",
    "stored parameter errors / covariance are compared only for fits that did fit (before a fit they are minimiser step sizes, not results)",
    "refit comparison only where the original refit converges to a finite cost; iminuit 1e-2 sigma / 1e-3 in cost, scipy 5e-2 sigma / 5e-3",
    "parsed documents: computed fields (cost, goodness of fit, chi2 probability, model y values) to LINALG, everything else 1e-15 relative",
    "dynamic_error_algorithm is compared only where it can influence a refit (model-relative sources, x uncertainties of an XYFit)",
    "non-ASCII labels are not generated (the file is opened with the locale's default encoding)",
    "post-load stage: equivalence of the reloaded object includes its reaction to the same public mutators; compared are enabled flags, total "
    "uncertainties (1e-15), parameter values / fixed / limits (exact) and the cost (LINALG); the first source of a fit is never switched off; an "
    "operation that fails on the original ends the stage (discard); did_fit / stored results are not compared after a mutation",
    "cost function objects: IndexedFit / HistFit get the base classes their own name table uses (the Indexed... / Hist... classes are empty "
    "subclasses; the class name of the restored object is not part of the statement)",
]
ANCHORS = [
    ("kafe2.fit.io.file", "FileIOMixin.to_file"),
    ("kafe2.fit.io.file", "FileIOMixin.from_file"),
    ("kafe2.fit.io.handle", "IOFileHandle.__enter__"),
    ("kafe2.fit.io.handle", "IOFileHandle.__exit__"),
    ("kafe2.fit.representation", "_get_representer"),
    ("kafe2.fit.representation._yaml_base", "YamlWriterMixin.write"),
    ("kafe2.fit.representation._yaml_base", "YamlReaderMixin.read"),
    ("kafe2.fit.representation._yaml_base", "YamlReaderMixin._make_object"),
    ("kafe2.fit.representation._yaml_base", "YamlReaderMixin._check_required_keywords_and_override_subspaces"),
    ("kafe2.fit.representation.container.yaml_drepr", "DataContainerYamlWriter._make_representation"),
    ("kafe2.fit.representation.container.yaml_drepr", "DataContainerYamlReader._convert_yaml_doc_to_object"),
    ("kafe2.fit.representation.error.common_error_tools", "write_errors_to_yaml"),
    ("kafe2.fit.representation.error.common_error_tools", "process_error_sources"),
    ("kafe2.fit.representation.error.common_error_tools", "add_error_to_container"),
    ("kafe2.fit.representation.model.yaml_drepr", "ModelFunctionYamlWriter._make_representation"),
    ("kafe2.fit.representation.model.yaml_drepr", "ModelFunctionYamlReader._convert_yaml_doc_to_object"),
    ("kafe2.fit.representation.model.yaml_drepr", "ParametricModelYamlWriter._make_representation"),
    ("kafe2.fit.representation.model.yaml_drepr", "ParametricModelYamlReader._convert_yaml_doc_to_object"),
    ("kafe2.fit.representation.model.yaml_drepr", "_parse_function"),
    ("kafe2.fit.representation.model.yaml_drepr", "_process_function_code_for_dump"),
    ("kafe2.fit.representation.constraint.yaml_drepr", "ConstraintYamlWriter._make_representation"),
    ("kafe2.fit.representation.constraint.yaml_drepr", "ConstraintYamlReader._convert_yaml_doc_to_object"),
    ("kafe2.fit.representation.fit.yaml_drepr", "FitYamlWriter._make_representation"),
    ("kafe2.fit.representation.fit.yaml_drepr", "FitYamlWriter._get_preface_comment"),
    ("kafe2.fit.representation.fit.yaml_drepr", "FitYamlReader._convert_yaml_doc_to_object"),
    ("kafe2.fit.representation.format.yaml_drepr", "ModelFunctionFormatterYamlWriter._make_representation"),
    ("kafe2.fit.representation.format.yaml_drepr", "ModelFunctionFormatterYamlReader._convert_yaml_doc_to_object"),
    ("kafe2.fit.representation.format.yaml_drepr", "ParameterFormatterYamlReader._convert_yaml_doc_to_object"),
    ("kafe2.fit._base.fit", "FitBase.to_file"),
    ("kafe2.fit._base.fit", "FitBase.save_state"),
    ("kafe2.fit._base.fit", "FitBase.load_state"),
    ("kafe2.fit._base.fit", "FitBase.get_result_dict"),
    ("kafe2.fit.util", "to_python_types"),
    ("kafe2.fit.util", "to_numpy_arrays"),
]



# ------------------------------------------------------------------ harness speed: memoise the SymPy part of vlib.models.Model
# Model.__init__ derives f, df/dx, df/dp, cdf with SymPy (0.1-0.8 s each on this box); a fit case constructs 4-6 of them
# (generator, dsl.build_fit, RefFit).  The lambdified functions depend only on (family, order, density): they are shared between
# instances, the per-instance fields (defaults, name) are set as Model.__init__ does.  Verified against the original below; on any
# disagreement the memoisation is switched off.
def _install_model_cache():
    orig = Model.__init__
    if getattr(orig, "_c09_cached", False):
        return
    protos = {}

    def fast_init(self, family, order=None, name=None, defaults=None, density=False):
        key = (family, None if order is None else tuple(order), bool(density))
        proto = protos.get(key)
        if proto is None:
            orig(self, family, order, None, None, density)
            protos[key] = proto = dict(self.__dict__)
        self.__dict__.update({k: (list(v) if isinstance(v, list) and k != "_dfdp" else v) for k, v in proto.items()})
        if defaults is not None:
            self.defaults = [float(d) for d in defaults]
        self.name = name or "%s_model" % family

    fast_init._c09_cached = True
    Model.__init__ = fast_init
    try:
        x = np.array([0.3, 1.7, 2.9])
        for args in ((("poly2",), {"order": [2, 0, 1], "name": "q", "defaults": [0.3, 0.2, 0.1]}), (("expdens",), {"density": True}), (("poly2",), {})):
            a = Model(*args[0], **args[1])
            a = Model(*args[0], **args[1])  # second construction comes from the cache
            b = Model.__new__(Model)
            orig(b, *args[0], **args[1])
            assert a.spec() == b.spec() and a.pnames == b.pnames and a.linear == b.linear and a.source() == b.source()
            assert np.array_equal(a.f(x, a.defaults), b.f(x, b.defaults)) and np.array_equal(a.dfdp(x, a.defaults), b.dfdp(x, b.defaults))
            if a.density:
                assert np.array_equal(a.cdf(x, a.defaults), b.cdf(x, b.defaults)) and a.source(cdf=True) == b.source(cdf=True)
    except Exception:
        Model.__init__ = orig


_install_model_cache()

RT = 1e-15  # PyYAML round-trips doubles exactly; 1e-15 relative leaves room for one re-derivation (abs <-> rel)
ULP = 1e-13
LIN = (1e-9, 1e-12)

from kafe2.fit._base.cost import STRING_TO_COST_FUNCTION as _COSTS_BASE  # noqa: E402
from kafe2.fit.xy.cost import STRING_TO_COST_FUNCTION as _COSTS_XY  # noqa: E402

COST_TABLES = {"xy": set(_COSTS_XY), "indexed": set(_COSTS_BASE), "hist": set(_COSTS_BASE)}
FIT_CLASSES = {"xy": XYFit, "indexed": IndexedFit, "hist": HistFit, "unbinned": UnbinnedFit, "custom": CustomFit}
LINEAR_SCALABLE = ["poly0", "poly1", "poly2", "poly3", "trig", "expbasis"]
XY_FAMILIES = ["poly1", "poly2", "poly3", "trig", "expbasis", "exponential", "gausspeak", "logistic", "poly0", "powerlaw", "sinusoid", "lorentz"]
LIBRARY = {"linear_model": 2, "quadratic": 3, "cubic_model": 4, "line": 2, "linear": 2, "quadratic_model": 3, "cubic": 4}
LABELS = [None, "data", "my label: with colon", "$\\sigma_x$ [m/s]", "100%", "'quoted'", "# hash", "  padded  ", "two\nlines", "null", "1.5", "yes", "{a: 1}", "- item", "back\\slash \"dq\""]
BIN_EVAL = ["simpson", "rectangle", "trapezoid", "numerical"]
GAUSS_APPROX = ("ga_cov", "ga_pw")


def floors(tier):
    q = tier == "quick"
    return {
        "comparisons": {
            "to_file": 120 if q else 3000,
            "from_file": 90 if q else 2500,
            "class": 90 if q else 2000,
            "data": 80 if q else 1500,
            "labels": 80 if q else 1500,
            "sources.names": 60 if q else 1200,
            "sources.enabled": 60 if q else 1200,
            "sources.kind": 50 if q else 1000,
            "sources.values": 50 if q else 1000,
            "total_error": 50 if q else 1000,
            "model_function": 40 if q else 800,
            "parameters": 30 if q else 600,
            "constraints": 30 if q else 600,
            "fixed": 30 if q else 600,
            "cost_function": 30 if q else 600,
            "limits": 30 if q else 600,
            "cost": 30 if q else 600,
            "results.stored": 30 if q else 600,
            "points.model": 30 if q else 600,
            "points.cost": 30 if q else 600,
            "points.constraint_cost": 20 if q else 400,
            "refit": 10 if q else 200,
            "second-cycle.document": 80 if q else 1500,
            "wwr.content": 5 if q else 100,
            "wwr.size": 5 if q else 100,
            "state.results": 4 if q else 100,
            "post.op": 30 if q else 600,
            "post.sources": 20 if q else 400,
            "post.total_error": 40 if q else 800,
            "post.parameters": 30 if q else 600,
            "post.cost": 30 if q else 600,
        },
        "ops": ["to_file", "from_file", "to_file.second", "do_fit", "asymmetric_errors", "save_state", "load_state", "disable_error", "fix_parameter", "limit_parameter", "add_parameter_constraint", "add_matrix_parameter_constraint", "add_error", "add_matrix_error", "set_parameter_values", "set_all_parameter_values", "post.disable_error", "post.enable_error", "post.add_error", "post.set_parameter_values"],
        "reach": ["%s:%s" % a for a in ANCHORS],
        "strata": sorted(set("|".join(str(x) for x in p[:3] if x is not None) for p in PLAN)) + FEATURE_STRATA,
        "sets": {"fit_type_cost": 12 if q else 30, "source_config": 12 if q else 30, "cost_option": 1 if q else 4},
        "distinct_nontrivial": 120 if q else 4000,
    }


FEATURE_STRATA = [
    "feature|source-disabled",
    "feature|source-relative",
    "feature|source-matrix-cov",
    "feature|source-matrix-cor",
    "feature|source-model-reference",
    "feature|source-varying-vector",
    "feature|source-x-axis",
    "feature|hist-underflow!=overflow",
    "feature|constraint-negative-value",
    "feature|constraint-relative",
    "feature|magnitude-tiny",
    "feature|magnitude-huge",
    "feature|parameter-fixed",
    "feature|parameter-limited",
    "feature|model-library-name",
    "feature|dea-iterative",
    "feature|source-nearly-constant-vector",
    "feature|fixed-value-changed-after-fixing",
    "feature|cost-object-default-options",
    "feature|cost-object-nondefault-options",
    "feature|post-load-source-toggled",
    "feature|post-load-model-source-toggled",
    "feature|post-load-source-added",
    "feature|post-load-data-replaced",
]


# ------------------------------------------------------------------ plain data / structural comparison
def plain(o, _d=0):
    """numpy / tuples / ordered dicts -> plain lists, dicts, floats ('equal up to container type')"""
    if _d > 20:
        return repr(o)
    if o is None or isinstance(o, (bool, str)):
        return o
    if isinstance(o, np.bool_):
        return bool(o)
    if isinstance(o, (int, np.integer)):
        return int(o)
    if isinstance(o, (float, np.floating)):
        return float(o)
    if isinstance(o, np.ndarray):
        return plain(o.tolist(), _d + 1)
    if isinstance(o, dict):
        return {str(k): plain(v, _d + 1) for k, v in o.items()}
    if isinstance(o, (list, tuple)):
        return [plain(v, _d + 1) for v in o]
    return "<%s>" % type(o).__name__


def _num(x):
    return isinstance(x, (int, float)) and not isinstance(x, bool)


def diff(a, b, rtol=0.0, atol=0.0, path="", tolmap=None):
    """First difference (path, a, b) between two plain structures, or None. Mappings irrespective of key order,
    sequences in order, numbers up to rtol (int 2 == float 2.0), NaN == NaN."""
    if tolmap is not None:
        t = tolmap(path)
        if t is not None:
            rtol, atol = t
    if _num(a) and _num(b):
        fa, fb = float(a), float(b)
        if fa == fb or (math.isnan(fa) and math.isnan(fb)):
            return None
        if math.isfinite(fa) and math.isfinite(fb) and abs(fa - fb) <= rtol * max(abs(fa), abs(fb)) + atol:
            return None
        return (path, a, b)
    if isinstance(a, dict) and isinstance(b, dict):
        ka, kb = set(a), set(b)
        if ka != kb:
            return (path + "{keys}", sorted(ka - kb), sorted(kb - ka))
        for k in a:
            d = diff(a[k], b[k], rtol, atol, "%s.%s" % (path, k) if path else str(k), tolmap)
            if d:
                return d
        return None
    if isinstance(a, list) and isinstance(b, list):
        if len(a) != len(b):
            return (path + "{len}", len(a), len(b))
        for i, (x, y) in enumerate(zip(a, b)):
            d = diff(x, y, rtol, atol, "%s[%d]" % (path, i), tolmap)
            if d:
                return d
        return None
    if type(a) is type(b) and a == b:
        return None
    return (path, a, b)


def _short(o, n=400):
    s = repr(o)
    return o if len(s) <= n else s[:n] + "..."


class History:
    """One history of one case: ordered comparisons, the first divergence ends it."""

    def __init__(self, ctx, case, feats):
        self.ctx, self.case, self.feats = ctx, case, feats
        self.alive = True
        self.discarded = False

    def cmp(self, obs, got, exp, rtol=0.0, atol=0.0, where="", tolmap=None, extra=None):
        if not self.alive:
            return False
        d = diff(plain(exp), plain(got), rtol, atol, "", tolmap)
        if d is None:
            self.ctx.check(obs, True)
            return True
        wit = {"where": where, "path": d[0], "expected": d[1], "got": d[2], "rtol": rtol, "atol": atol, "objects": (plain(exp), plain(got))}
        if extra:
            wit.update(extra)
        key = classify(self, obs, wit)
        self.ctx.check(obs, False, {k: _short(v) for k, v in wit.items() if k != "objects"}, key)
        self.alive = False
        return False

    def groups(self, ga, gb, where=""):
        """compare two lists of (observable, value, rtol[, atol]) group by group"""
        for x, y in zip(ga, gb):
            atol = x[3] if len(x) > 3 else 0.0
            if not self.cmp(x[0], y[1], x[1], x[2], atol, where="%s%s" % (where, x[4] if len(x) > 4 else "")):
                return False
        return self.alive

    def call(self, obs, fn, where=""):
        """an operation that the property requires to work; an exception ends the history"""
        if not self.alive:
            return None
        try:
            with time_limit(60.0):
                r = fn()
        except (Exception, OpTimeout) as e:
            wit = {"where": where, "exception": "%s: %s" % (type(e).__name__, str(e)[:400]), "exc_type": type(e).__name__, "traceback": fmt_exc()}
            key = classify(self, obs, wit)
            self.ctx.check(obs, False, wit, key)
            self.alive = False
            return None
        self.ctx.check(obs, True)
        return r if r is not None else True


# ------------------------------------------------------------------ builders (case JSON -> real object)
_src_counter = [0]


def exec_source(src, name):
    """materialise a def text; registered in linecache because the writers call inspect.getsource"""
    _src_counter[0] += 1
    fname = "<verif-c09-%d>" % _src_counter[0]
    linecache.cache[fname] = (len(src), None, src.splitlines(True), fname)
    ns = {"np": np}
    exec(compile(src, fname, "exec"), ns)
    return ns[name]


def _arr(v):
    return np.array(v, dtype=float) if isinstance(v, (list, tuple)) else v


def add_sources(obj, xy, sources, disabled):
    for s in sources:
        kw = {"axis": s["axis"]} if xy else {}
        if s["kind"] == "simple":
            obj.add_error(err_val=_arr(s["err"]), name=s["name"], correlation=s.get("corr", 0.0), relative=s.get("relative", False), **kw)
        else:
            obj.add_matrix_error(err_matrix=np.array(s["matrix"], dtype=float), matrix_type=s["matrix_type"], name=s["name"], err_val=_arr(s.get("err_val")), relative=s.get("relative", False), **kw)
    for n in disabled:
        obj.disable_error(n)


def build_hist_container(case):
    e = case["edges"]
    if "heights" in case:
        c = HistContainer(n_bins=len(e) - 1, bin_range=(e[0], e[-1]), bin_edges=list(e))
        c.set_bins(list(case["heights"]), underflow=case["underflow"], overflow=case["overflow"])
    else:
        c = HistContainer(n_bins=len(e) - 1, bin_range=(e[0], e[-1]), bin_edges=list(e), fill_data=list(case["entries"]))
    return c


def set_labels(c, case):
    if "label" in case:
        c.label = case["label"]
    if "x_label" in case or "y_label" in case:
        c.axis_labels = (case.get("x_label"), case.get("y_label"))


def build_container(case):
    t = case["ctype"]
    if t == "xy":
        c = XYContainer(np.array(case["x"], dtype=float), np.array(case["y"], dtype=float))
    elif t == "indexed":
        c = IndexedContainer(np.array(case["data"], dtype=float))
    elif t == "unbinned":
        c = UnbinnedContainer(np.array(case["data"], dtype=float))
    else:
        c = build_hist_container(case)
    add_sources(c, t == "xy", case.get("sources", []), case.get("disabled", []))
    set_labels(c, case)
    return c


def build_pmodel(case):
    t = case["ptype"]
    m = Model.from_spec(case["model"])
    p = list(case["params"])
    if t == "xy":
        pm = XYParametricModel(np.array(case["x"], dtype=float), m.callable(), p)
    elif t == "indexed":
        pm = IndexedParametricModel(m.callable(indexed_x=case["x"]), p, shape_like=np.zeros(len(case["x"])))
    elif t == "unbinned":
        pm = UnbinnedParametricModel(np.array(case["data"], dtype=float), m.callable(), p)
    else:
        e = case["edges"]
        be = case["bin_evaluation"]
        if be == "cdf":
            be = m.callable(cdf=True, name=m.name + "_antiderivative")
        pm = HistParametricModel(len(e) - 1, (e[0], e[-1]), m.callable(), p, bin_edges=list(e), bin_evaluation=be, density=case.get("density", True))
    add_sources(pm, t == "xy", case.get("sources", []), case.get("disabled", []))
    if "label" in case:
        pm.label = case["label"]
    return pm


MF_CLASSES = {"base": ModelFunctionBase, "indexed": IndexedModelFunction, "hist": HistModelFunction}


def build_modelfunc(case):
    cls = MF_CLASSES[case["mtype"]]
    if case.get("library"):
        return cls(case["library"])
    m = Model.from_spec(case["model"])
    return cls(m.callable(indexed_x=case["x"]) if case["mtype"] == "indexed" else m.callable())


def build_constraint(case):
    if case["ctype"] == "simple":
        return GaussianSimpleParameterConstraint(index=case["index"], value=case["value"], uncertainty=case["uncertainty"], relative=case["relative"])
    return GaussianMatrixParameterConstraint(indices=case["indices"], values=case["values"], matrix=case["matrix"], matrix_type=case["matrix_type"], uncertainties=case.get("uncertainties"), relative=case["relative"])


def custom_source(c):
    """cost = (p - centre)^T Q (p - centre) as def text with defaults"""
    names, q = c["names"], c["Q"]
    lines = ["def %s(%s):" % (c["name"], ", ".join("%s=%r" % (n, float(d)) for n, d in zip(names, c["defaults"])))]
    for i, n in enumerate(names):
        lines.append("    r%d = %s - %r" % (i, n, float(c["centre"][i])))
    terms = []
    for i in range(len(names)):
        for j in range(i, len(names)):
            f = float(q[i][j]) * (1.0 if i == j else 2.0)
            terms.append("%r * r%d * r%d" % (f, i, j))
    lines.append("    return " + " + ".join(terms))
    return "\n".join(lines) + "\n"


# cost function OBJECTS: constructor arguments that select the formula of a canonical id (vlib.ref.COST_ALIASES values), and the
# documented options of each class with their non-default value
COST_CLASSES = {
    "xy": {"chi2": XYCostFunction_Chi2, "nll": XYCostFunction_NegLogLikelihood, "ga": XYCostFunction_GaussApproximation},
    # IndexedFit / HistFit themselves build the base classes from a name (Indexed... / Hist... are empty subclasses of them)
    "indexed": {"chi2": CostFunction_Chi2, "nll": CostFunction_NegLogLikelihood, "ga": CostFunction_GaussApproximation},
    "hist": {"chi2": CostFunction_Chi2, "nll": CostFunction_NegLogLikelihood, "ga": CostFunction_GaussApproximation},
}
COST_BASE = {
    "chi2_cov": ("chi2", {"errors_to_use": "covariance"}),
    "chi2_pw": ("chi2", {"errors_to_use": "pointwise"}),
    "chi2_noerr": ("chi2", {"errors_to_use": None, "add_determinant_cost": False}),
    "nll_poisson": ("nll", {"data_point_distribution": "poisson", "ratio": False}),
    "nllr_poisson": ("nll", {"data_point_distribution": "poisson", "ratio": True}),
    "nll_gauss": ("nll", {"data_point_distribution": "gaussian", "ratio": False}),
    "nllr_gauss": ("nll", {"data_point_distribution": "gaussian", "ratio": True}),
    "ga_cov": ("ga", {"errors_to_use": "covariance"}),
    "ga_pw": ("ga", {"errors_to_use": "pointwise"}),
}
# option -> non-default value; per class family (the xy classes additionally take axes_to_use, XYCostFunction_GaussApproximation has no fast_math)
COST_OPTIONS = {
    "chi2": {"add_determinant_cost": False, "add_constraint_cost": False, "fallback_on_singular": False, "fast_math": True},
    "nll": {},
    "ga": {"add_determinant_cost": False, "add_constraint_cost": False, "fast_math": True},
}
# where a lost option shows in obs_cost_function
COST_OPTION_PATHS = {
    "add_determinant_cost": ("add_determinant_cost", "_add_determinant_cost_ga", "arg_names"),  # both switches append arguments
    "add_constraint_cost": ("_add_constraint_cost", "arg_names"),
    "fallback_on_singular": ("_fail_on_no_matrix", "_fail_on_no_errors"),
    "fast_math": ("fast_math", "function", "arg_names"),
    "axes_to_use": ("arg_names",),
}


def cost_options_for(ftype, fid):
    fam = COST_BASE[fid][0]
    opts = dict(COST_OPTIONS[fam])
    if fid == "chi2_noerr":
        opts = {"add_constraint_cost": False}
    if ftype == "xy":
        if fam == "ga":
            opts.pop("fast_math", None)
        if fid in NEEDS_ERRORS or fid in GAUSS_APPROX:  # the others do not read any uncertainty
            opts["axes_to_use"] = "y"
    return opts


def options_not_implied_by_identifier(fid, options):
    """declared options whose value differs from what the written identifier stands for: the identifier is the name of the evaluated
    formula, read back with the keyword arguments of kafe2's name table = the documented defaults, except that "..._fast" (covariance
    formulas only) carries fast_math=True and "chi2_no_errors" carries add_determinant_cost=False"""
    implied = {"add_determinant_cost": fid != "chi2_noerr", "add_constraint_cost": True, "fallback_on_singular": True, "axes_to_use": "xy", "fast_math": False}
    out = []
    for o, v in options.items():
        if o == "fast_math" and fid in ("chi2_cov", "ga_cov"):
            continue  # stored via the identifier: a lost fast_math is never explained by this mechanism
        if o in implied and v != implied[o]:
            out.append(o)
    return out


def make_cost_object(ftype, co):
    fam, base = COST_BASE[co["fid"]]
    kw = dict(base)
    kw.update(co.get("options", {}))
    return COST_CLASSES[ftype][fam](**kw)


class FitUnderTest:
    def __init__(self, case):
        self.case = case
        t = case["ftype"]
        self.member = None
        if t == "custom":
            c = case["custom"]
            self.fit = CustomFit(exec_source(custom_source(c), c["name"]), minimizer=case.get("minimizer"))
            self.spec = {"type": "custom"}
        elif case.get("library"):
            s = case["spec"]
            self.spec = s
            kw = {"minimizer": case.get("minimizer")}
            if case.get("dea"):
                kw["dynamic_error_algorithm"] = case["dea"]
            cost = make_cost_object(t, case["cost_object"]) if case.get("cost_object") else s["cost"]
            self.fit = XYFit([np.array(s["x"], dtype=float), np.array(s["y"], dtype=float)], model_function=case["library"], cost_function=cost, **kw)
        else:
            self.member = Member(case["spec"], [], minimizer=case.get("minimizer"), dea=case.get("dea"))
            if case.get("cost_object"):
                # same fit, the cost function handed over as an object instead of its name (nothing has been applied to the member yet)
                self.member.fit = dsl.build_fit(dict(self.member.spec, cost=make_cost_object(t, case["cost_object"])))
            self.fit = self.member.fit
            self.spec = self.member.spec
        if case.get("hist_manual"):
            self.fit.data = build_hist_container(dict(case["hist_manual"], edges=case["spec"]["edges"]))
        if case.get("labels"):
            lb = case["labels"]
            if t != "custom":
                set_labels(self.fit.data_container, lb)
                if lb.get("model_label") is not None:
                    self.fit.model_label = lb["model_label"]

    def apply(self, ctx, ops):
        for op in ops:
            if ctx is not None:
                ctx.op(op[0])
            if op[0] == "fmt":
                a = op[1]
                if a.get("latex_name"):
                    self.fit.assign_model_function_latex_name(a["latex_name"])
                if a.get("par_latex"):
                    self.fit.assign_parameter_latex_names(**a["par_latex"])
                if a.get("latex_expression"):
                    self.fit.assign_model_function_latex_expression(a["latex_expression"])
                if a.get("expression"):
                    self.fit.assign_model_function_expression(a["expression"])
            elif self.member is not None:
                self.member.apply(op)
            else:
                dsl.apply_live(self.fit, self.spec, op)


# ------------------------------------------------------------------ observers (public API -> ordered comparison groups)
def obs_sources(c, xy, where):
    errs = c.get_matching_errors()
    names = sorted(errs)
    enabled, kind, values = {}, {}, {}
    for n in names:
        d = c.get_error(n)
        e = d["err"]
        enabled[n] = bool(d["enabled"])
        k = {"axis": d.get("axis"), "class": type(e).__name__, "relative": bool(e.relative)}
        if isinstance(e, SimpleGaussianError):
            k["correlation"] = float(e.corr_coeff)
        kind[n] = k
        v = {}
        try:
            v["error"] = np.array(e.error)
            v["cov_mat"] = np.array(e.cov_mat)
            if e.relative:
                v["error_rel"] = np.array(e.error_rel)
        except Exception as ex:  # e.g. relative error without reference
            v["exception"] = type(ex).__name__
        values[n] = v
    covs = {n: {"cov_mat": v.pop("cov_mat")} for n, v in values.items() if "cov_mat" in v}
    cscale = max([float(np.max(np.abs(np.diag(c["cov_mat"])))) for c in covs.values() if np.size(c["cov_mat"])] + [0.0])
    g = [("sources.names", names, 0.0, 0.0, where), ("sources.enabled", enabled, 0.0, 0.0, where), ("sources.kind", kind, 0.0, 0.0, where), ("sources.values", values, RT, 0.0, where), ("sources.values", covs, RT, RT * cscale, where)]
    g.extend(total_groups({"x_err": lambda: c.x_err, "y_err": lambda: c.y_err} if xy else {"err": lambda: c.err}, {"x_cov_mat": lambda: c.x_cov_mat, "y_cov_mat": lambda: c.y_cov_mat} if xy else {"cov_mat": lambda: c.cov_mat}, where, {"has_errors": bool(c.has_errors)}))
    return g


def total_groups(errs, covs, where, extra=None, obs="total_error"):
    """total uncertainties: vectors relative 1e-15, matrices additionally 1e-15 of the largest variance (a total is a sum of
    sources, each of which may have been re-derived once; cancellation between sources must not be held against the file format)"""
    e, c = dict(extra or {}), {}
    try:
        for k, fn in errs.items():
            e[k] = fn()
        for k, fn in covs.items():
            c[k] = fn()
    except Exception as ex:
        e["exception"] = type(ex).__name__
    sc = max([float(np.max(np.abs(np.diag(m)))) for m in c.values() if m is not None and np.ndim(m) == 2 and np.size(m)] + [0.0])
    se = max([float(np.max(np.abs(v))) for k, v in e.items() if isinstance(v, np.ndarray) and v.size] + [0.0])
    return [(obs, e, RT, RT * se, where), (obs, c, RT, RT * sc, where)]


def obs_container(c, where="", model=False):
    g = [("class", type(c).__name__, 0.0, 0.0, where)]
    xy = isinstance(c, XYContainer)
    if isinstance(c, HistContainer):
        d = {"bin_edges": c.bin_edges, "bin_range": c.bin_range, "n_bins": c.n_bins}
        if not model:
            d.update(data=c.data, underflow=c.underflow, overflow=c.overflow, n_entries=c.n_entries)
            if not c._manual_heights:
                d["raw_data"] = sorted(float(v) for v in c.raw_data)  # entry order changes when the container processes pending entries
    elif xy:
        d = {"x": c.x} if model else {"x": c.x, "y": c.y}
    elif isinstance(c, UnbinnedParametricModel):
        d = {"support": c.support}
    else:
        d = {"size": c.size} if model else {"data": c.data}
    g.append(("data", d, 0.0, 0.0, where))
    g.append(("labels", {"label": c.label, "axis_labels": list(c.axis_labels)}, 0.0, 0.0, where))
    if not isinstance(c, (UnbinnedContainer, UnbinnedParametricModel)):
        g.extend(obs_sources(c, xy, where))
    return g


def obs_formatter(f):
    d = {"class": type(f).__name__, "name": f.name, "latex_name": f.latex_name, "expression": f.expression_format_string, "latex_expression": f.latex_expression_format_string}
    d["args"] = [[a.arg_name, a.name, a.latex_name] for a in f.arg_formatters]
    for k in ("index_name", "latex_index_name"):
        if hasattr(f, k):
            d[k] = getattr(f, k)
    return d


def test_x(case_like):
    return np.array([0.37, 1.9, 4.3])


def obs_modelfunc(mf, where="", points=None):
    d = {"class": type(mf).__name__, "name": mf.name, "parameter_names": list(mf.parameter_names), "x_name": list(mf.x_name), "argcount": mf.argcount, "parcount": mf.parcount, "formatter": obs_formatter(mf.formatter)}
    g = [("model_function", d, 0.0, 0.0, where)]
    if points is not None:
        vals = []
        for p in points:
            try:
                vals.append(np.array(mf(*p) if not mf.x_name else mf(test_x(None), *p), dtype=float))
            except Exception as ex:
                vals.append("exception " + type(ex).__name__)
        g.append(("points.model", {"defaults": list(mf.defaults), "values": vals}, ULP, 0.0, where))
    return g


def obs_pmodel(pm, where=""):
    g = obs_container(pm, where, model=True)
    g.insert(3, ("parameters", {"values": np.array(pm.parameters, dtype=float)}, 0.0, 0.0, where))
    g.insert(4, ("points.model", {"data": np.array(pm.data, dtype=float)}, ULP, 0.0, where))
    if isinstance(pm, HistParametricModel):
        g.insert(3, ("data", {"bin_evaluation": pm.bin_evaluation_string if isinstance(pm.bin_evaluation, str) else "<function>", "density": bool(pm.density)}, 0.0, 0.0, where))
    return g + obs_modelfunc(pm._model_function_object, where)


def obs_constraint(c, where=""):
    d = {"class": type(c).__name__, "relative": bool(c.relative)}
    if isinstance(c, GaussianSimpleParameterConstraint):
        d.update(index=c.index, value=c.value, uncertainty=c.uncertainty, uncertainty_rel=c.uncertainty_rel)
    else:
        d.update(indices=c.indices, values=c.values, matrix_type=c.matrix_type, cov_mat=c.cov_mat, uncertainties=c.uncertainties, cor_mat=c.cor_mat)
        if c.relative:
            d.update(cov_mat_rel=c.cov_mat_rel, uncertainties_rel=c.uncertainties_rel)
    d["extra_ndf"] = c.extra_ndf
    return d


def constraint_points(c, npar):
    """3 parameter points around the constrained values"""
    pts = []
    base = np.ones(npar)
    if isinstance(c, GaussianSimpleParameterConstraint):
        idx, vals, unc = [c.index], [float(c.value)], [abs(float(c.uncertainty))]
    else:
        idx, vals, unc = list(c.indices), [float(v) for v in c.values], [abs(float(u)) for u in c.uncertainties]
    for k, f in enumerate((-1.3, 0.45, 2.1)):
        p = base * (1.0 + 0.1 * k)
        for j, (i, v, u) in enumerate(zip(idx, vals, unc)):
            p[i] = v + f * u * (1.0 + 0.37 * j)
        pts.append(p)
    return pts


def result_groups(fit, where=""):
    rd = fit.get_result_dict()
    did = bool(rd["did_fit"])
    comp = {"cost": rd["cost"], "goodness_of_fit": rd["goodness_of_fit"], "gof/ndf": rd["gof/ndf"], "chi2_probability": rd["chi2_probability"]}
    scale = abs(rd["cost"]) if rd["cost"] is not None and np.isfinite(rd["cost"]) else 0.0
    stored = {"did_fit": did, "did_fit_property": bool(fit.did_fit), "ndf": rd["ndf"], "parameter_values": rd["parameter_values"], "parameter_errors": rd["parameter_errors"], "parameter_cov_mat": rd["parameter_cov_mat"], "parameter_cor_mat": rd["parameter_cor_mat"], "asymmetric_parameter_errors": rd["asymmetric_parameter_errors"]}
    if did:
        stored["prop.parameter_errors"] = fit.parameter_errors
        stored["prop.parameter_cov_mat"] = fit.parameter_cov_mat
        stored["prop.parameter_cor_mat"] = fit.parameter_cor_mat
        if rd["asymmetric_parameter_errors"] is not None:
            stored["prop.asymmetric_parameter_errors"] = fit.asymmetric_parameter_errors
    return [("cost", comp, LIN[0], LIN[1] + LIN[0] * scale, where), ("results.stored", stored, 0.0, 0.0, where)]


def dea_matters(fit):
    try:
        if bool(fit._param_model.get_matching_errors({"relative": True})):
            return True
        return isinstance(fit, XYFit) and bool(fit.has_x_errors)
    except Exception:
        return False


def obs_cost_function(cf):
    """which cost function the fit evaluates: class, evaluated method and every documented switch of it"""
    d = {"class": type(cf).__name__, "function": getattr(cf.func, "__name__", None)}
    for a in ("fast_math", "needs_errors", "is_chi2", "saturated", "pointwise", "add_determinant_cost", "arg_names"):
        try:
            v = getattr(cf, a)
        except Exception as ex:
            v = "exception " + type(ex).__name__
        d[a] = list(v) if isinstance(v, (list, tuple)) else v
    for a in ("_add_constraint_cost", "_add_determinant_cost_ga", "_ratio", "_fail_on_no_matrix", "_fail_on_no_errors"):
        if hasattr(cf, a):
            d[a] = getattr(cf, a)
    return d


def obs_fit(fit, where=""):
    g = [("class", type(fit).__name__, 0.0, 0.0, where)]
    custom = isinstance(fit, CustomFit)
    if not custom:
        g.extend(obs_container(fit.data_container, where + "data_container."))
        pm = fit._param_model
        g.extend([x for x in obs_container(pm, where + "parametric_model.", model=True) if x[0] != "class"])
        g.append(("labels", {"model_label": fit.model_label}, 0.0, 0.0, where))
        g.extend(obs_modelfunc(fit.model_function, where))
    g.append(("parameters", {"names": list(fit.parameter_names), "values": np.array(fit.parameter_values, dtype=float)}, 0.0, 0.0, where))
    g.append(("constraints", [obs_constraint(c) for c in fit.parameter_constraints], RT, 0.0, where))
    g.append(("fixed", dict(fit._fitter.fixed_parameters), 0.0, 0.0, where))
    g.append(("cost_function", obs_cost_function(fit._cost_function), 0.0, 0.0, where))
    g.append(("limits", {k: list(v) for k, v in fit._fitter.limited_parameters.items()}, 0.0, 0.0, where))
    if not custom:
        if dea_matters(fit):
            g.append(("dynamic_error_algorithm", fit.dynamic_error_algorithm, 0.0, 0.0, where))
        g.extend(total_groups({"total_error": lambda: fit.total_error}, {"total_cov_mat": lambda: fit.total_cov_mat, "data_cov_mat": lambda: fit.data_cov_mat, "model_cov_mat": lambda: fit.model_cov_mat}, where + "fit."))
        g.append(("points.model", {"model": np.array(fit.model, dtype=float)}, ULP, 0.0, where + "current."))
    g.extend(result_groups(fit, where))
    return g


def fit_points(fit, feats):
    """3 parameter points near the current values (fixed parameters stay where they are, limits respected)"""
    names = list(fit.parameter_names)
    cur = np.array(fit.parameter_values, dtype=float)
    fixed = set(fit._fitter.fixed_parameters)
    lim = dict(fit._fitter.limited_parameters)
    pts = []
    for f in (0.93, 1.04, 1.11):
        p = cur.copy()
        for i, n in enumerate(names):
            if n in fixed:
                continue
            v = cur[i] * (f + 0.013 * i) + (f - 1.0) * 0.05 * feats.get("scale", 1.0)
            if n in lim:
                lo, hi = lim[n]
                if lo is not None and hi is not None:
                    v = min(max(v, lo + 0.05 * (hi - lo)), hi - 0.05 * (hi - lo))
            p[i] = v
        pts.append(p)
    return pts


def obs_fit_at_points(fit, pts, where=""):
    g = []
    custom = isinstance(fit, CustomFit)
    for k, p in enumerate(pts):
        fit.set_all_parameter_values(list(p))
        w = "%spoint%d." % (where, k)
        if not custom:
            mv = {"model": np.array(fit.model, dtype=float)}
            try:
                mf = fit.model_function
                mv["function"] = np.array(mf(test_x(None), *p) if mf.x_name else mf(*p), dtype=float)
            except Exception as ex:
                mv["function"] = "exception " + type(ex).__name__
            g.append(("points.model", mv, ULP, 0.0, w))
        cc = [float(c.cost(p)) for c in fit.parameter_constraints]
        g.append(("points.constraint_cost", cc, ULP, 0.0, w))
        c = float(fit.cost_function_value)
        cf = fit._cost_function
        needs_positive_model = "GaussApproximation" in type(cf).__name__ or "poisson" in str(getattr(cf, "name", "")).lower()
        if not custom and needs_positive_model and np.any(np.asarray(fit.model, dtype=float) <= 0):
            # variance (Gauss approximation) / expectation (Poisson) not positive: the cost is not defined at this point, and its
            # pointwise and covariance formulas (do_fit may have selected either) need not agree on what they return there
            continue
        g.append(("points.cost", c, LIN[0], LIN[1] + LIN[0] * (sum(abs(x) for x in cc)), w))
    return g


# ------------------------------------------------------------------ generators (JSON-able, replayable cases)
def _r(v, nd=6):
    return float(np.round(v, nd))


def pick_scale(rng, force):
    if "scale" in force:
        return int(force["scale"])
    if rng.random() < 0.55:
        return 0
    return int(rng.integers(-9, 10))


def conv_source(op):
    a = dict(op[1])
    a.pop("reference", None)
    a["kind"] = "simple" if op[0] == "add_error" else "matrix"
    return a


def _mul(v, f):
    if v is None:
        return None
    if isinstance(v, (list, tuple)):
        return [_mul(x, f) for x in v]
    return float(v) * f


def scale_source(s, sx, sy):
    f = sx if gen.norm_axis(s.get("axis")) == "x" else sy
    if s.get("relative") or f == 1.0:
        return s
    s = dict(s)
    if "matrix" not in s:
        s["err"] = _mul(s["err"], f)
    elif s["matrix_type"] == "cov":
        s["matrix"] = _mul(_mul(s["matrix"], f), f)
    else:
        s["err_val"] = _mul(s["err_val"], f)
    return s


def scale_op(op, s, sx=1.0):
    """all parameters of a model that is linear in its parameters scale with the data"""
    k = op[0]
    if k in ("add_error", "add_matrix_error"):
        return [k, scale_source(op[1], sx, s)]
    if s == 1.0:
        return op
    if k == "add_parameter_constraint":
        a = dict(op[1], value=op[1]["value"] * s)
        if not a.get("relative"):
            a["uncertainty"] = a["uncertainty"] * s
        return [k, a]
    if k == "add_matrix_parameter_constraint":
        a = dict(op[1], values=_mul(op[1]["values"], s))
        if not a.get("relative"):
            if a["matrix_type"] == "cov":
                a["matrix"] = _mul(_mul(a["matrix"], s), s)
            else:
                a["uncertainties"] = _mul(a["uncertainties"], s)
        return [k, a]
    if k == "fix_parameter":
        return [k, op[1], None if op[2] is None else op[2] * s]
    if k == "limit_parameter":
        return [k, op[1], op[2] * s, op[3] * s]
    if k == "set_parameter_values":
        return [k, {n: v * s for n, v in op[1].items()}]
    if k == "set_all_parameter_values":
        return [k, [v * s for v in op[1]]]
    return op


def nearly_constant(v, tol_abs=1e-8, tol_rel=1e-5):
    """a vector that is NOT constant although every entry agrees with the first one to ~5 digits or ~8 decimals"""
    if not isinstance(v, (list, tuple)) or len(set(v)) < 2:
        return False
    a = np.asarray(v, dtype=float)
    return bool(np.all(np.abs(a - a[0]) <= tol_abs + tol_rel * abs(a[0])))


def make_nearly_constant(rng, v, mode):
    """input class 'pointwise uncertainties that differ although they are close to each other': 'tiny' = all of order 1e-11
    (SI units: nF, ns, nm; every entry differs from the others by a factor of order one), 'spread' = any magnitude, entries
    differing in the 6th..7th digit (one instrument, slightly different ranges)"""
    n = len(v)
    if mode == "tiny":
        out = [float(x) for x in np.asarray(v, dtype=float) * 1e-10]
        if len(set(out)) < 2:
            out = [out[0] * (1.0 + 0.25 * (i % 3)) for i in range(n)]
        return out
    e0 = float(max(v)) if max(v) > 0 else 0.1
    u = rng.uniform(-1.0, 1.0, size=n)
    u[0], u[-1] = 0.3, -0.7  # never constant
    return [float(e0 * (1.0 + 2e-6 * x)) for x in u]


def gen_sources(rng, n, ftype, yscale, nsrc, prefix="s", fit=False, first_safe=False, rich=False, near=None):
    """`near`: force the source after the safe one to be a simple pointwise vector of the nearly-constant class ('tiny' | 'spread');
    otherwise every 5th varying vector (simple source or the uncertainties of a correlation-matrix source) is moved into that class"""
    ops = []
    near_k = (1 if first_safe else 0) if near else None
    rich_forces = [
        {"axis": "y", "kind": "simple", "reference": "data", "relative": False, "shape": "vec", "corr": 0.0},
        {"axis": "x", "kind": "simple", "reference": "model" if fit else "data", "relative": True, "shape": "scalar"},
        {"axis": "y", "kind": "matrix", "reference": "data", "relative": False, "matrix_type": "cor"},
        {"axis": "y", "kind": "matrix", "reference": "data", "relative": False, "matrix_type": "cov"},
    ]
    for k in range(nsrc):
        force = None
        if rich:
            force = dict(rich_forces[k % 4])
            if ftype != "xy":
                force.pop("axis")
        elif first_safe and k == 0:
            force = {"reference": "data", "relative": False}
            if ftype == "xy":
                force["axis"] = "y"
        if k == near_k:
            force = {"kind": "simple", "shape": "vec", "relative": False, "reference": "data", "corr": 0.0}
            if ftype == "xy":
                force["axis"] = "y"
        op = gen.gen_source(rng, n, ftype, "%s%d" % (prefix, k), yscale=yscale, xscale=0.1, allow_model=fit, allow_x=(ftype == "xy"), force=force)
        fld = "err" if op[0] == "add_error" else ("err_val" if op[1].get("matrix_type") == "cor" else None)
        v = op[1].get(fld) if fld else None
        safe = first_safe and k == 0  # the source that keeps a fit well posed stays as generated
        if isinstance(v, list) and len(v) > 1 and not safe and (k == near_k or (near_k is None and len(set(v)) > 1 and rng.random() < 0.2)):
            mode = near if k == near_k else str(rng.choice(["tiny", "spread"]))
            if 0.0 in v or fld == "err_val":
                mode = "spread"  # a zero entry is not close to the others; correlation matrices keep uncertainties of usable size
            op = [op[0], dict(op[1], **{fld: make_nearly_constant(rng, v, mode)})]
        ops.append(op)
    return ops


def gen_labels(rng, model=False):
    d = {}
    if rng.random() < 0.7:
        d["label"] = LABELS[int(rng.integers(0, len(LABELS)))]
    if rng.random() < 0.6:
        d["x_label"] = LABELS[int(rng.integers(0, len(LABELS)))]
        d["y_label"] = LABELS[int(rng.integers(0, len(LABELS)))]
    if model and rng.random() < 0.4:
        d["model_label"] = LABELS[int(rng.integers(1, len(LABELS)))]
    return d


def gen_hist_bins(rng, scale=1.0):
    nb = int(rng.integers(2, 9))
    lo = _r(rng.uniform(-3.0, 1.0), 3)
    w = rng.uniform(0.3, 1.5, size=nb)
    edges = [lo] + [float(v) for v in np.round(lo + np.cumsum(w), 4)]
    return [e * scale for e in edges]


def gen_container(rng, ctype, tier, force):
    nmax = 13 if tier == "quick" else 41
    n = int(force.get("n") or rng.integers(2, nmax))
    k = pick_scale(rng, force)
    sy = 10.0**k
    sx = 10.0 ** pick_scale(rng, force) if ctype == "xy" else 1.0
    case = {"property": "C09", "kind": "container", "ctype": "hist" if ctype.startswith("hist") else ctype, "scale": k}
    nsrc = int(force["nsrc"]) if "nsrc" in force else int(rng.integers(0, 4))
    if ctype == "xy":
        x = gen.gen_x(rng, n)
        y = [_r(v, 5) for v in rng.normal(2.0, 1.5, size=n)]
        case["x"], case["y"] = [v * sx for v in x], [v * sy for v in y]
        ys = float(np.mean(np.abs(y)) + 0.5)
    elif ctype in ("indexed", "unbinned"):
        d = [_r(v, 5) for v in rng.normal(1.0, 2.0, size=n)]
        case["data"] = [v * sy for v in d]
        ys = float(np.mean(np.abs(d)) + 0.5)
    else:
        case["edges"] = gen_hist_bins(rng, sy)
        nb = len(case["edges"]) - 1
        lo, hi = case["edges"][0], case["edges"][-1]
        if ctype == "hist-manual" or (ctype == "hist" and rng.random() < 0.5):
            case["heights"] = [int(v) for v in rng.integers(0, 60, size=nb)]
            u = int(rng.integers(0, 9))
            o = int(rng.integers(0, 9))
            case["underflow"], case["overflow"] = u, (o if o != u or rng.random() < 0.1 else o + 3)
            ys = float(np.mean(case["heights"]) + 1.0)
        else:
            ne = int(rng.integers(5, 80))
            ent = rng.uniform(lo - 0.3 * (hi - lo), hi + 0.45 * (hi - lo), size=ne)
            case["entries"] = [float(v) for v in ent]
            ys = ne / nb + 1.0
        n = nb
    if case["ctype"] == "unbinned":
        nsrc = 0
    ftype = case["ctype"]
    srcs = [scale_source(conv_source(op), sx, sy if ftype != "hist" else 1.0) for op in gen_sources(rng, n, ftype, ys, nsrc, rich=bool(force.get("rich")), near=force.get("near"))]
    case["sources"] = srcs
    case["disabled"] = [s["name"] for i, s in enumerate(srcs) if (force.get("rich") and i == 3) or (not force.get("rich") and rng.random() < 0.3)]
    case.update(gen_labels(rng))
    return case


def hist_range(density):
    return {"expdens": (0.0, 5.0), "normal": (-3.5, 4.0), "mixture": (-3.5, 5.0)}[density]


def pick_bin_eval(rng, density):
    if density == "expdens" and rng.random() < 0.5:
        return "cdf"  # antiderivative needing only numpy
    return BIN_EVAL[int(rng.integers(0, len(BIN_EVAL)))]


def gen_pmodel(rng, ptype, tier, force):
    case = {"property": "C09", "kind": "pmodel", "ptype": ptype}
    n = int(rng.integers(3, 11))
    nsrc = int(rng.integers(0, 3))
    if ptype in ("xy", "indexed"):
        fam = XY_FAMILIES[int(rng.integers(0, len(XY_FAMILIES)))]
        m = Model(fam)
        x = gen.gen_x(rng, n, kind="increasing" if fam == "powerlaw" else None)
        if fam == "powerlaw":
            x = [abs(v) + 0.2 for v in x]
        case.update(model=m.spec(), x=x, params=gen.perturbed_params(rng, m))
        ys = float(np.mean(np.abs(m.f(np.array(x), case["params"]))) + 0.5)
    elif ptype == "hist":
        dens = str(rng.choice(["normal", "expdens", "mixture"]))
        m = Model(dens, density=True)
        lo, hi = hist_range(dens)
        nb = int(rng.integers(3, 9))
        inner = np.sort(rng.uniform(lo + 0.3, hi - 0.3, size=nb - 1)) + np.arange(nb - 1) * 1e-3
        case.update(model=m.spec(), edges=[lo] + [_r(v, 5) for v in inner] + [hi], params=gen.perturbed_params(rng, m, 0.05), bin_evaluation=pick_bin_eval(rng, dens), density=bool(rng.random() < 0.8))
        n = nb
        ys = 0.3
    else:
        spec = gen.gen_unbinned_spec(rng)
        m = Model.from_spec(spec["model"])
        case.update(model=spec["model"], data=spec["data"], params=gen.perturbed_params(rng, m, 0.05))
        nsrc = 0
    ftype = ptype
    case["sources"] = [conv_source(op) for op in gen_sources(rng, n, ftype, ys, nsrc, prefix="m")] if nsrc else []
    case["disabled"] = [s["name"] for s in case["sources"] if rng.random() < 0.3]
    if rng.random() < 0.5:
        case["label"] = LABELS[int(rng.integers(1, len(LABELS)))]
    return case


def gen_modelfunc(rng, variant, tier, force):
    mtype, how = variant.split("-")
    case = {"property": "C09", "kind": "modelfunc", "mtype": mtype, "variant": variant}
    if how == "library":
        names = ["normal_distribution", "normal"] if mtype == "hist" else list(LIBRARY) + ["normal_distribution", "exponential_model"]
        case["library"] = names[int(rng.integers(0, len(names)))]
        return case
    if mtype == "hist":
        m = Model(str(rng.choice(["normal", "expdens", "mixture"])), density=True)
    else:
        fam = XY_FAMILIES[int(rng.integers(0, len(XY_FAMILIES)))]
        m = Model(fam)
        # distinct, non-default defaults so that a lost or permuted default is visible
        m = Model(fam, defaults=gen.perturbed_params(rng, m, 0.2))
    case["model"] = m.spec()
    if mtype == "indexed":
        case["x"] = gen.gen_x(rng, int(rng.integers(3, 8)), kind="increasing")
    return case


def gen_constraint_case(rng, variant, tier, force):
    parts = variant.split("-")
    k = pick_scale(rng, force)
    s = 10.0**k
    case = {"property": "C09", "kind": "constraint", "variant": variant, "scale": k}
    rel = parts[-1] == "rel"
    if parts[0] == "simple":
        v = _r(rng.uniform(0.05, 5.0) * (-1.0 if rng.random() < 0.4 else 1.0), 4) * s
        unc = _r(rng.uniform(0.05, 0.3), 4) if rel else _r(rng.uniform(0.05, 0.3), 4) * abs(v)
        case.update(ctype="simple", index=int(rng.integers(0, 6)), value=v, uncertainty=unc, relative=rel)
        return case
    n = int(rng.integers(2, 5))
    idx = [int(i) for i in rng.choice(7, size=n, replace=False)]
    vals = [_r(rng.uniform(0.05, 5.0) * (-1.0 if rng.random() < 0.4 else 1.0), 4) * s for _ in range(n)]
    m = gen.gen_psd(rng, n, scale=0.15, kind="dense")
    c, d = gen.cov_to_cor(m)
    c = np.round(c, 12)
    c = (c + c.T) / 2.0
    np.fill_diagonal(c, 1.0)
    d = np.round(d, 8)
    av = np.abs(np.array(vals))
    case.update(ctype="matrix", indices=idx, values=vals, relative=rel, matrix_type=parts[1])
    if parts[1] == "cov":
        mm = m if rel else m * np.outer(av, av)
        mm = (mm + mm.T) / 2.0
        case.update(matrix=mm.tolist(), uncertainties=None)
    else:
        case.update(matrix=c.tolist(), uncertainties=[float(v) for v in (d if rel else d * av)])
    return case


def random_cost(rng, ftype, force):
    if force.get("cost"):
        return force["cost"]
    default = {"xy": "chi2", "indexed": "chi2", "hist": "nll_poisson"}[ftype]
    if rng.random() < 0.45:
        return default
    keys = sorted(k for k in COST_ALIASES if k in COST_TABLES[ftype])
    return keys[int(rng.integers(0, len(keys)))]


def gen_par_ops(rng, pnames, pvals, force):
    ops = []
    rich = bool(force.get("rich"))
    ncon = 2 if rich else int(rng.choice([0, 0, 1, 1, 2]))
    for j in range(ncon):
        fk = None
        if rich:
            fk = "simple" if j == 0 or len(pnames) < 2 else "matrix"
        op = gen.gen_constraint(rng, pnames, pvals, force_kind=fk)
        if rich and j == 0:
            a = dict(op[1], relative=True, uncertainty=0.12, value=-abs(op[1]["value"]) - 0.3)
            op = [op[0], a]
        ops.append(op)
    fixed = None
    if len(pnames) >= 2 and (rich or force.get("refix") or rng.random() < 0.3):
        i = int(rng.integers(0, len(pnames)))
        fixed = pnames[i]
        ops.append(["fix_parameter", fixed, None if rng.random() < 0.4 else _r(pvals[i] * rng.uniform(0.9, 1.1) + 0.01, 5)])
        if rich or force.get("refix") or rng.random() < 0.45:
            # the value of an already fixed parameter is changed (it stays fixed, at the new value), by name or with all values at once
            v2 = _r(pvals[i] * rng.uniform(1.15, 1.4) + 0.05, 5)
            by_name = False if rich else (True if force.get("refix") else rng.random() < 0.5)
            if by_name:
                ops.append(["set_parameter_values", {fixed: v2}])
            else:
                ops.append(["set_all_parameter_values", [v2 if n == fixed else float(pvals[j]) for j, n in enumerate(pnames)]])
    if rich or rng.random() < 0.3:
        i = int(rng.integers(0, len(pnames)))
        v = pvals[i]
        ops.append(["limit_parameter", pnames[i], _r(v - abs(v) * rng.uniform(0.5, 2.0) - 0.1, 4), _r(v + abs(v) * rng.uniform(2.0, 4.0) + 0.3, 4)])
    if rich or rng.random() < 0.4:
        free = [n for n in pnames if n != fixed]
        n = free[int(rng.integers(0, len(free)))]
        ops.append(["set_parameter_values", {n: _r(pvals[pnames.index(n)] * rng.uniform(0.92, 1.08) + 0.003, 6)}])
    return ops


def gen_post_ops(rng, ftype, ops, pnames, pvals, n, ys, rich):
    """operations applied, after the round trip, to the original AND to the reloaded fit (which must follow them alike): sources
    switched off / on / off again, a new source (data or model reference), parameter values / fixing / releasing"""
    post = []
    fixed = [op[1] for op in ops if op[0] == "fix_parameter"]
    if ftype not in ("custom", "unbinned"):
        srcs = [op[1] for op in ops if op[0] in ("add_error", "add_matrix_error")]
        disabled = set(op[1] for op in ops if op[0] == "disable_error")
        for a in srcs[1:]:  # the first source keeps the fit well posed: never switched off
            if rich or rng.random() < 0.6:
                post.append(["enable_error" if a["name"] in disabled else "disable_error", a["name"]])
        if post and (rich or rng.random() < 0.5):
            k, name = post[0] if rich else post[int(rng.integers(0, len(post)))]
            post.append(["disable_error" if k == "enable_error" else "enable_error", name])
        if rich or rng.random() < 0.6:
            f = {"kind": "simple", "reference": "model"} if rich else None
            post.append(gen.gen_source(rng, n, ftype, "q0", yscale=ys, xscale=0.1, allow_model=True, allow_x=(ftype == "xy"), force=f))
    free = [q for q in pnames if q not in fixed]
    if free and rng.random() < 0.5:
        q = free[int(rng.integers(0, len(free)))]
        post.append(["set_parameter_values", {q: _r(pvals[pnames.index(q)] * rng.uniform(0.95, 1.05) + 0.002, 6)}])
    if fixed and rng.random() < 0.4:
        post.append(["release_parameter", fixed[0]])
    elif len(free) >= 2 and rng.random() < 0.3:
        post.append(["fix_parameter", free[int(rng.integers(0, len(free)))], None])
    return post


def gen_cost_object(rng, ftype, fid, how):
    """the cost function handed over as an object: 'default' = only the arguments that select the formula, 'nondefault' = 1-2 of the
    documented options of the class set to their non-default value"""
    co = {"fid": fid, "options": {}}
    opts = cost_options_for(ftype, fid)
    if how == "nondefault" and opts:
        names = sorted(opts)
        for i in rng.choice(len(names), size=min(len(names), int(rng.integers(1, 3))), replace=False):
            co["options"][names[int(i)]] = opts[names[int(i)]]
    return co


def gen_fit(rng, ftype, stage, tier, force):
    force = dict(force or {})
    case = {"property": "C09", "kind": "fit", "ftype": ftype, "stage": stage, "scale": 0}
    case["minimizer"] = force.get("minimizer") or ("scipy" if (stage != "asym" and rng.random() < (0.1 if tier == "quick" else 0.2)) else "iminuit")
    nmax = 11 if tier == "quick" else 25
    if ftype == "custom":
        npar = int(rng.integers(1, 4))
        names = ["a", "b", "c"][:npar]
        k = pick_scale(rng, force) if rng.random() < 0.5 else 0
        s = 10.0**k
        defaults = [_r(rng.uniform(0.5, 3.0), 3) for _ in names]
        centre = [_r(d * rng.uniform(0.7, 1.4) + 0.1, 4) for d in defaults]
        q = gen.gen_psd(rng, npar, scale=float(rng.uniform(1.0, 5.0)), kind="dense")
        case["custom"] = {"name": "my_cost", "names": names, "defaults": [d * s for d in defaults], "centre": [c * s for c in centre], "Q": _mul(_mul(q.tolist(), 1.0 / s), 1.0 / s)}
        case["scale"] = k
        pops = gen_par_ops(rng, names, centre, force)
        case["ops"] = [scale_op(op, s) for op in pops]
        case["post_ops"] = [scale_op(op, s) for op in gen_post_ops(rng, ftype, pops, names, centre, 0, 1.0, False)]
        case["refit"] = bool(force or rng.random() < 0.5)
        return case
    cost = "nll" if ftype == "unbinned" else random_cost(rng, ftype, force)
    fid = COST_ALIASES.get(cost, cost)
    counts = fid in POISSON
    dea = force.get("dea") or ("iterative" if rng.random() < 0.25 else "nonlinear")
    s = 1.0
    if ftype in ("xy", "indexed"):
        library = ftype == "xy" and (force.get("library") or (not force and rng.random() < 0.12))
        if library:
            lib = sorted(LIBRARY)[int(rng.integers(0, len(LIBRARY)))]
            fam = {2: "poly1", 3: "poly2", 4: "poly3"}[LIBRARY[lib]]
        else:
            fam = force.get("family") or XY_FAMILIES[int(rng.integers(0, len(XY_FAMILIES) - (4 if tier == "quick" else 0)))]
        n = int(rng.integers(max(len(Model(fam).pnames) + 1, 3), nmax))
        g = gen.gen_xy_spec if ftype == "xy" else gen.gen_indexed_spec
        spec = g(rng, family=fam, n=n, cost=cost, counts=counts, dea=dea)
        m = Model.from_spec(spec["model"])
        pnames, pvals = list(m.pnames), list(m.defaults)
        dkey = "y" if ftype == "xy" else "data"
        if library:
            case["library"] = lib
            pnames = ["a", "b", "c", "d"][: LIBRARY[lib]]
            pvals = [1.0] * len(pnames)
        elif fam in LINEAR_SCALABLE and not counts:
            k = pick_scale(rng, force)
            s = 10.0**k
            case["scale"] = k
            spec[dkey] = [v * s for v in spec[dkey]]
            spec["model"] = dict(spec["model"], defaults=[d * s for d in m.defaults])
        ys = float(np.mean(np.abs(spec[dkey])) / s + 0.5)
    elif ftype == "hist":
        spec = gen.gen_hist_spec(rng, cost=cost, n_bins=int(rng.integers(4, 10)), dea=dea)
        m = Model.from_spec(spec["model"])
        pnames, pvals = list(m.pnames), list(m.defaults)
        spec["bin_evaluation"] = pick_bin_eval(rng, spec["model"]["family"])
        lo, hi = spec["edges"][0], spec["edges"][-1]
        nu, no = int(rng.integers(0, 5)), int(rng.integers(0, 5))
        if nu == no:
            no += 2
        spec["entries"] = spec["entries"] + [lo - 0.5 - 0.1 * i for i in range(nu)] + [hi + 0.5 + 0.1 * i for i in range(no)]
        n = len(spec["edges"]) - 1
        h, _ = np.histogram(spec["entries"], bins=spec["edges"])
        ys = float(np.mean(h) + 1.0)
        if force.get("hist_manual") or (not force and rng.random() < 0.3):
            case["hist_manual"] = {"heights": [int(v) for v in h], "underflow": nu + 1, "overflow": no + 4}
    else:
        spec = gen.gen_unbinned_spec(rng, n=int(rng.integers(8, 40)))
        m = Model.from_spec(spec["model"])
        pnames, pvals = list(m.pnames), list(m.defaults)
        n, ys = 0, 1.0
    spec["minimizer"] = case["minimizer"]
    case["spec"] = spec
    case["dea"] = dea
    ops = []
    if ftype != "unbinned":
        rich = bool(force.get("rich"))
        need = fid in NEEDS_ERRORS
        nsrc = 4 if rich else (int(rng.integers(1, 4)) if need else int(rng.integers(0, 3)))
        if force.get("near"):
            nsrc = max(nsrc, 2)
        sops = gen_sources(rng, n, ftype, ys, nsrc, prefix="e", fit=True, first_safe=True, rich=rich, near=force.get("near"))
        ops.extend(sops)
        if rich:
            ops.append(["disable_error", "e3"])
        elif len(sops) > 1 and rng.random() < 0.35:
            ops.append(["disable_error", sops[int(rng.integers(1, len(sops)))][1]["name"]])
    ops.extend(gen_par_ops(rng, pnames, pvals, force))
    if not case.get("library") and rng.random() < 0.25:
        ops.append(["fmt", {"latex_name": "f_{%d}" % int(rng.integers(0, 9)), "par_latex": {pnames[0]: "\\alpha_0"}, "latex_expression": None if ftype == "indexed" else "{%s} \\cdot {x}" % pnames[0], "expression": None if ftype == "indexed" else "{%s} * {x}" % pnames[0]}])
    case["ops"] = [scale_op(op, s) for op in ops]
    case["post_ops"] = [scale_op(op, s) for op in gen_post_ops(rng, ftype, ops, pnames, pvals, n, ys, bool(force.get("rich")))]
    if ftype == "hist" and "edges" in spec and "entries" in spec and (force.get("rich") or rng.random() < 0.5):
        # the data of both fits is replaced by a histogram of the same number of bins in another frame: the reloaded fit has to
        # rebuild its model with the bin evaluation and the density flag it was written with
        e = np.array(spec["edges"], dtype=float)
        case["post_ops"].append(["set_data", {"edges": [_r(v, 6) for v in e[0] + (e - e[0]) * 0.9], "entries": list(spec["entries"][: max(3, len(spec["entries"]) // 2)])}])
    if ftype != "unbinned" and fid in COST_BASE:
        how = force.get("cost_object") or (str(rng.choice(["default", "nondefault"])) if (not force and rng.random() < 0.16) else None)
        if how:
            case["cost_object"] = gen_cost_object(rng, ftype, fid, how)
    if rng.random() < 0.5:
        case["labels"] = gen_labels(rng, model=True)
    case["refit"] = bool(force or rng.random() < 0.5)
    return case


def gen_wwr(rng, sub, tier, force):
    if sub == "container":
        t = str(rng.choice(["xy", "indexed", "hist-raw"]))
        first = gen_container(rng, t, tier, {"n": 12, "nsrc": 4, "rich": True, "scale": 0})
        second = gen_container(rng, str(rng.choice(["xy", "indexed", "hist-manual", "unbinned"])), tier, {"n": 2, "nsrc": int(rng.integers(0, 2)), "scale": 0})
    else:
        first = gen_fit(rng, "xy", "unfitted", tier, {"rich": True, "family": "poly2", "cost": "chi2", "scale": 0})
        t = str(rng.choice(["xy", "indexed", "custom", "unbinned"]))
        second = gen_fit(rng, t, "unfitted", tier, {"family": "poly0", "cost": "chi2", "scale": 0})
    return {"property": "C09", "kind": "wwr", "sub": sub, "first": first, "second": second}


def gen_state(rng, sub, tier, force):
    t = str(rng.choice(["xy", "indexed", "hist", "unbinned", "custom"]))
    stage = sub if sub == "unfitted" else str(rng.choice(["fitted", "asym"]))
    return {"property": "C09", "kind": "state", "sub": sub, "fit": gen_fit(rng, t, stage, tier, {})}


def _plan():
    p = []
    fits = [("fit", t, st, {}) for st in ("unfitted", "fitted", "asym") for t in ("xy", "indexed", "hist", "unbinned", "custom")]
    cons = [("constraint", v, None, {}) for v in ("simple-abs", "simple-rel", "matrix-cov-abs", "matrix-cov-rel", "matrix-cor-abs", "matrix-cor-rel")]
    conts = [("container", t, None, {}) for t in ("xy", "indexed", "hist-raw", "hist-manual", "unbinned")]
    pms = [("pmodel", t, None, {}) for t in ("xy", "indexed", "hist", "unbinned")]
    mfs = [("modelfunc", v, None, {}) for v in ("base-def", "base-library", "indexed-def", "hist-def", "hist-library")]
    extra = [
        ("fit", "xy", "unfitted", {"rich": True, "cost": "chi2", "family": "poly1", "dea": "iterative", "scale": 0}),
        ("fit", "xy", "fitted", {"rich": True, "cost": "chi2", "family": "poly2", "scale": -9}),
        ("fit", "indexed", "fitted", {"rich": True, "cost": "chi2", "family": "poly1", "scale": 9}),
        ("fit", "xy", "unfitted", {"library": True, "cost": "chi2"}),
        ("fit", "hist", "unfitted", {"hist_manual": True, "cost": "nll_poisson"}),
        ("container", "xy", None, {"rich": True, "nsrc": 4, "scale": -9}),
        ("container", "indexed", None, {"rich": True, "nsrc": 4, "scale": 9}),
        ("container", "hist-manual", None, {"rich": True, "nsrc": 4}),
        ("container", "xy", None, {"near": "tiny", "nsrc": 2, "scale": 0}),
        ("fit", "xy", "unfitted", {"cost_object": "default", "cost": "chi2", "family": "poly1", "refix": True, "scale": 0}),
        ("wwr", "container", None, {}),
        ("fit", "xy", "unfitted", {"cost_object": "nondefault", "cost": "chi2", "family": "poly1", "scale": 0}),
        ("container", "indexed", None, {"near": "spread", "nsrc": 2}),
        ("wwr", "fit", None, {}),
        ("fit", "indexed", "fitted", {"near": "spread", "cost": "chi2", "family": "poly1", "refix": True, "scale": 0}),
        ("fit", "hist", "fitted", {"cost_object": "default", "cost": "nll_poisson"}),
        ("state", "unfitted", None, {}),
        ("state", "fitted", None, {}),
        ("wwr", "container", None, {}),
        ("state", "fitted", None, {}),
    ]
    groups = [fits, extra, cons, conts, pms, mfs]
    while any(groups):
        for g in groups:
            if g:
                p.append(g.pop(0))
    return p


PLAN = _plan()
KIND_WEIGHTS = [("container", 0.2), ("pmodel", 0.08), ("modelfunc", 0.07), ("constraint", 0.09), ("fit", 0.42), ("wwr", 0.07), ("state", 0.07)]


def gen_case(rng, tier, gi):
    if gi < len(PLAN):
        kind, sub, var, force = PLAN[gi]
    else:
        kind = str(rng.choice([k for k, _ in KIND_WEIGHTS], p=[w for _, w in KIND_WEIGHTS]))
        force = {}
        var = None
        if kind == "container":
            sub = str(rng.choice(["xy", "indexed", "hist-raw", "hist-manual", "unbinned"], p=[0.35, 0.25, 0.15, 0.2, 0.05]))
        elif kind == "pmodel":
            sub = str(rng.choice(["xy", "indexed", "hist", "unbinned"]))
        elif kind == "modelfunc":
            sub = str(rng.choice(["base-def", "base-library", "indexed-def", "hist-def", "hist-library"], p=[0.4, 0.2, 0.2, 0.15, 0.05]))
        elif kind == "constraint":
            sub = str(rng.choice(["simple-abs", "simple-rel", "matrix-cov-abs", "matrix-cov-rel", "matrix-cor-abs", "matrix-cor-rel"]))
        elif kind == "fit":
            sub = str(rng.choice(["xy", "indexed", "hist", "unbinned", "custom"], p=[0.4, 0.2, 0.2, 0.08, 0.12]))
            var = str(rng.choice(["unfitted", "fitted", "asym"], p=[0.4, 0.4, 0.2]))
        elif kind == "wwr":
            sub = str(rng.choice(["container", "fit"]))
        else:
            sub = str(rng.choice(["unfitted", "fitted"], p=[0.3, 0.7]))
    if kind == "container":
        case = gen_container(rng, sub, tier, force)
    elif kind == "pmodel":
        case = gen_pmodel(rng, sub, tier, force)
    elif kind == "modelfunc":
        case = gen_modelfunc(rng, sub, tier, force)
    elif kind == "constraint":
        case = gen_constraint_case(rng, sub, tier, force)
    elif kind == "fit":
        case = gen_fit(rng, sub, var, tier, force)
    elif kind == "wwr":
        case = gen_wwr(rng, sub, tier, force)
    else:
        case = gen_state(rng, sub, tier, force)
    case["stratum"] = [kind, sub] + ([var] if var else [])
    return case


# ------------------------------------------------------------------ features of a case (non-triviality, strata, classifier input)
def _src_features(s, f, model_ref=False, ref=None):
    f["carries"] = True
    if s.get("matrix_type") == "cor" and s.get("relative"):
        r = None if ref is None else ref.get(gen.norm_axis(s.get("axis")))
        f["rel_cor"][s["name"]] = {"zero": bool(r is not None and np.any(np.asarray(r) == 0)), "negative": bool(r is not None and np.any(np.asarray(r) < 0))}
    st, disc = f["strata"], f["disc"]
    if s.get("relative"):
        st.add("source-relative")
        disc.append("relative source (reference != 1)")
    if model_ref:
        st.add("source-model-reference")
    if gen.norm_axis(s.get("axis")) == "x":
        st.add("source-x-axis")
        disc.append("source on x (x != y section)")
    if "matrix" in s:
        st.add("source-matrix-" + s["matrix_type"])
        if s["matrix_type"] == "cor":
            disc.append("correlation matrix with non-unit uncertainties")
        else:
            disc.append("covariance matrix")
        v = s.get("err_val")
    else:
        v = s["err"]
        if s.get("corr", 0.0) not in (0.0, 0):
            disc.append("correlation coefficient != 0")
    if isinstance(v, (list, tuple)) and len(set(v)) > 1:
        st.add("source-varying-vector")
        disc.append("varying error vector")
        f["vectors"][s["name"]] = list(v)
        if nearly_constant(v):
            st.add("source-nearly-constant-vector")


def reference_values(case):
    """declared data values to which data-relative sources refer, per axis (None = the only axis)"""
    try:
        if case["kind"] == "container":
            t = case["ctype"]
            if t == "xy":
                return {"x": case["x"], "y": case["y"]}
            if t == "hist":
                return {None: case["heights"] if "heights" in case else np.histogram(case["entries"], bins=case["edges"])[0]}
            return {None: case["data"]}
        if case["kind"] == "fit" and case["ftype"] != "custom":
            s = case["spec"]
            if s["type"] == "xy":
                return {"x": s["x"], "y": s["y"]}
            if s["type"] == "hist":
                return {None: case["hist_manual"]["heights"] if case.get("hist_manual") else np.histogram(s["entries"], bins=s["edges"])[0]}
            return {None: s["data"]}
    except Exception:
        pass
    return None


def features(case):
    f = {"carries": False, "disc": [], "strata": set(), "vectors": {}, "scale": 10.0 ** case.get("scale", 0), "sets": {}, "rel_cor": {}}
    kind = case["kind"]
    ref = reference_values(case)
    k = case.get("scale", 0)
    if k <= -6:
        f["strata"].add("magnitude-tiny")
    if k >= 6:
        f["strata"].add("magnitude-huge")
    if k != 0:
        f["disc"].append("magnitude 1e%d" % k)
    if kind in ("container", "pmodel"):
        for s in case.get("sources", []):
            _src_features(s, f, ref=ref)
        for n in case.get("disabled", []):
            f["strata"].add("source-disabled")
            f["disc"].append("disabled source")
        if "heights" in case:
            f["carries"] = True
            f["underflow"], f["overflow"] = case["underflow"], case["overflow"]
        elif "entries" in case and case.get("ctype") == "hist":
            e = np.array(case["entries"])
            f["underflow"], f["overflow"] = int(np.sum(e < case["edges"][0])), int(np.sum(e >= case["edges"][-1]))
        if "underflow" in f and f["underflow"] != f["overflow"]:
            f["strata"].add("hist-underflow!=overflow")
            f["disc"].append("underflow != overflow")
        if kind == "pmodel":
            f["disc"].append("parameters != defaults")
    elif kind == "modelfunc":
        if case.get("model"):
            d = case["model"]["defaults"]
            f["carries"] = len(d) >= 2 and len(set(d)) == len(d)
            f["disc"].append("distinct defaults")
        else:
            f["strata"].add("model-library-name")
    elif kind == "constraint":
        f["carries"] = True
        vals = [case["value"]] if case["ctype"] == "simple" else case["values"]
        if any(v < 0 for v in vals):
            f["strata"].add("constraint-negative-value")
            f["disc"].append("negative constraint value")
        if case["relative"]:
            f["strata"].add("constraint-relative")
            if any(v != 1.0 for v in vals):
                f["disc"].append("relative constraint on value != 1")
        if case["ctype"] == "matrix":
            f["disc"].append("matrix constraint %s" % case["matrix_type"])
    elif kind == "fit":
        if case["stage"] != "unfitted":
            f["carries"] = True
            f["disc"].append("fit result")
        if case.get("library"):
            f["strata"].add("model-library-name")
        f["constraints"] = []
        for op in case["ops"]:
            if op[0] in ("add_error", "add_matrix_error"):
                s = dict(op[1])
                _src_features(s, f, model_ref=s.get("reference") == "model", ref=ref if s.get("reference", "data") == "data" else None)
                f["sets"].setdefault("source_config", set()).add(
                    "%s/%s/%s/%s/%s" % ("matrix-" + s["matrix_type"] if "matrix" in s else "simple", "rel" if s.get("relative") else "abs", s.get("reference", "data"), gen.norm_axis(s.get("axis")), "vec" if isinstance(s.get("err", s.get("err_val")), list) else "scalar")
                )
            elif op[0] == "disable_error":
                f["strata"].add("source-disabled")
                f["disc"].append("disabled source")
            elif op[0] in ("add_parameter_constraint", "add_matrix_parameter_constraint"):
                f["carries"] = True
                a = op[1]
                f["constraints"].append(a)
                vals = [a["value"]] if "value" in a else a["values"]
                if any(v < 0 for v in vals):
                    f["strata"].add("constraint-negative-value")
                if a.get("relative"):
                    f["strata"].add("constraint-relative")
                    if any(v != 1.0 for v in vals):
                        f["disc"].append("relative constraint on value != 1")
                else:
                    f["disc"].append("constraint")
            elif op[0] == "fix_parameter":
                f["strata"].add("parameter-fixed")
                f["disc"].append("fixed parameter")
                f.setdefault("fixed_names", set()).add(op[1])
            elif op[0] == "set_all_parameter_values":
                f["disc"].append("parameter != default")
                if f.get("fixed_names"):
                    f["strata"].add("fixed-value-changed-after-fixing")
            elif op[0] == "limit_parameter":
                f["strata"].add("parameter-limited")
                f["disc"].append("limits lower != -upper")
            elif op[0] == "set_parameter_values":
                f["disc"].append("parameter != default")
                if set(op[1]) & f.get("fixed_names", set()):
                    f["strata"].add("fixed-value-changed-after-fixing")
        model_sources = set(op[1]["name"] for op in case["ops"] if op[0] in ("add_error", "add_matrix_error") and op[1].get("reference") == "model")
        for op in case.get("post_ops", []):
            if op[0] in ("disable_error", "enable_error"):
                f["strata"].add("post-load-model-source-toggled" if op[1] in model_sources else "post-load-source-toggled")
            elif op[0] in ("add_error", "add_matrix_error"):
                f["strata"].add("post-load-source-added")
            elif op[0] == "set_data":
                f["strata"].add("post-load-data-replaced")
        co = case.get("cost_object")
        if co:
            f["strata"].add("cost-object-nondefault-options" if co.get("options") else "cost-object-default-options")
            f["cost_options"] = dict(co.get("options", {}))
            f["sets"].setdefault("cost_option", set()).update(co.get("options", {}))
        if case.get("dea") == "iterative" and case["ftype"] != "custom":
            f["strata"].add("dea-iterative")
        if case.get("hist_manual"):
            hm = case["hist_manual"]
            f["underflow"], f["overflow"] = hm["underflow"], hm["overflow"]
            f["strata"].add("hist-underflow!=overflow")
            f["disc"].append("underflow != overflow")
        elif case["ftype"] == "hist":
            e = np.array(case["spec"]["entries"])
            u, o = int(np.sum(e < case["spec"]["edges"][0])), int(np.sum(e >= case["spec"]["edges"][-1]))
            if u != o:
                f["strata"].add("hist-underflow!=overflow")
                f["disc"].append("underflow != overflow")
        if case["ftype"] != "custom":
            f["sets"].setdefault("fit_type_cost", set()).add("%s:%s" % (case["ftype"], case["spec"].get("cost")))
            f["fid"] = COST_ALIASES.get(case["spec"].get("cost"), case["spec"].get("cost"))
        else:
            f["sets"].setdefault("fit_type_cost", set()).add("custom")
    return f


def is_nontrivial(f):
    return bool(f["carries"] and f["disc"])


# ------------------------------------------------------------------ classifier: witness -> mechanism key of a known defect (or None)
def _isclose(a, b, rt=1e-12):
    try:
        return abs(float(a) - float(b)) <= rt * max(abs(float(a)), abs(float(b)))
    except Exception:
        return False


def _walk(o, path):
    """value at a diff() path like 'e1.error[2]' (best effort)"""
    import re

    cur = o
    for tok in re.findall(r"[^.\[\]]+|\[\d+\]", path):
        try:
            cur = cur[int(tok[1:-1])] if tok.startswith("[") else cur[tok]
        except Exception:
            return None
    return cur


STALE_OBSERVABLES = ("parameters", "sources.values", "total_error", "points.model", "cost", "results.stored", "second-cycle.document")


def evaluated_first_round_trips(h, obs, wit):
    """explain-check for the stale-parametric-model mechanism (silent: nothing is counted)"""
    tmp = getattr(h, "tmp", None)
    if tmp is None:
        return False
    try:
        fit = build_staged_fit(None, h.case, count_ops=False)
        fit.get_result_dict()  # evaluates cost -> model -> hands the current parameter values to the parametric model
        p1, p2 = os.path.join(tmp, "explain-1.yml"), os.path.join(tmp, "explain-2.yml")
        fit.to_file(p1)
        re = type(fit).from_file(p1)
        for a, b in zip(obs_fit(fit), obs_fit(re)):
            if diff(plain(a[1]), plain(b[1]), a[2], a[3] if len(a) > 3 else 0.0) is not None:
                return False
            if obs != "second-cycle.document" and a[0] == obs and (a[4] if len(a) > 4 else "") == wit.get("where", ""):
                return True  # everything up to and including the observable that diverged now agrees
        re.to_file(p2)
        return diff(parse_doc(p1), parse_doc(p2), RT, 0.0, "", doc_tol) is None
    except Exception:
        return False


def classify(h, obs, wit):
    try:
        return _classify(h, obs, wit)
    except Exception:
        return None


def _classify(h, obs, wit):
    if getattr(h, "mode", "roundtrip") == "state":
        return None  # every known mechanism is one of to_file / from_file; save_state / load_state have none
    case, f = h.case, h.feats
    kind = case["kind"]
    path = str(wit.get("path", ""))
    exc = str(wit.get("exception", ""))
    exp, got = wit.get("expected"), wit.get("got")
    # -- object type name under which the representers are looked up
    if obs in ("to_file", "from_file") and wit.get("exc_type") == "TypeError" and ("No representers found" in exc or "_get_object_type_name" in exc):
        if kind == "pmodel" and "parametric_model" in exc:
            return "C09/parametric-model-type-name-not-registered"
        if kind == "constraint" and ("parameter_constraint" in exc or "_get_object_type_name" in exc):
            return "C09/constraint-type-name-not-registered"
    # -- histogram with manually set bins: overflow written from underflow
    if obs == "data" and path.endswith("overflow") and "underflow" in f and f["underflow"] != f["overflow"]:
        manual = ("heights" in case) or bool(case.get("hist_manual"))
        if manual and _isclose(got, f["underflow"]) and _isclose(exp, f["overflow"]):
            return "C09/hist-overflow-written-from-underflow"
    # -- enabled flag of a source is not part of the file format
    if obs == "sources.enabled" and exp is False and got is True:
        return "C09/source-enabled-flag-not-serialised"
    # -- error vector collapsed to its first element by np.allclose(err[0], err)
    if obs == "sources.values" and wit.get("objects"):
        eo, go = wit["objects"]
        name = path.split(".")[0]
        if name in eo and name in go:
            fld = "error_rel" if "error_rel" in eo[name] else "error"
            ev, gv = eo[name].get(fld), go[name].get(fld)
            if isinstance(ev, list) and isinstance(gv, list) and len(set(ev)) > 1 and len(set(gv)) == 1 and gv[0] == ev[0]:
                return "C09/error-vector-collapsed-to-first-element"
    # -- relative source given as correlation matrix: the written matrix is derived from the *absolute* covariance
    if f.get("rel_cor"):
        name = path.split(".")[0]
        if obs == "sources.values" and ".cov_mat" in path and name in f["rel_cor"] and f["rel_cor"][name]["negative"] and _num(exp) and _num(got) and _isclose(got, -exp):
            return "C09/relative-correlation-matrix-source-written-from-absolute-covariance"
        if obs == "from_file" and wit.get("exc_type") == "ValueError" and "Corelation matrix has non-unit entry" in exc and any(v["zero"] for v in f["rel_cor"].values()):
            return "C09/relative-correlation-matrix-source-written-from-absolute-covariance"
    # -- a cost function restored from its source text (CustomFit; UnbinnedFit, whose nll has no identifier) has no retrievable source: the reloaded fit cannot be saved again
    if kind == "fit" and case["ftype"] in ("custom", "unbinned") and obs == "to_file" and wit.get("where") == "second" and wit.get("exc_type") == "OSError" and "source code" in exc and "_cost_function.func" in str(wit.get("traceback", "")):
        return "C09/cost-function-restored-from-source-cannot-be-saved-again"
    # -- relative simple constraint written with its absolute uncertainty under relative: true
    if obs == "constraints" and wit.get("objects"):
        eo, go = wit["objects"]
        eo = eo if isinstance(eo, list) else [eo]
        go = go if isinstance(go, list) else [go]
        for a, b in zip(eo, go):
            if a != b and a.get("class") == "GaussianSimpleParameterConstraint" and a.get("relative") and a.get("value") != 1.0:
                if _isclose(b.get("uncertainty_rel"), a.get("uncertainty")) and b.get("value") == a.get("value") and b.get("index") == a.get("index"):
                    return "C09/relative-simple-constraint-written-with-absolute-uncertainty"
            if a != b:
                break
    # -- fix_parameter(name, value) does not hand the value to the parametric model (set_parameter_values does): a fit saved before
    #    it is evaluated writes the previous model_parameters / model values, and the reloaded parametric model starts from them.
    #    Decided by repair-and-recheck: the same case, evaluated once before it is saved, round-trips without this difference.
    if kind == "fit" and case["ftype"] != "custom" and case["stage"] == "unfitted" and obs in STALE_OBSERVABLES:
        if any(op[0] == "fix_parameter" and len(op) > 2 and op[2] is not None for op in case["ops"]) and evaluated_first_round_trips(h, obs, wit):
            return "C09/fix-parameter-value-not-handed-to-parametric-model-before-save"
    # -- CustomFit: parameter values come back as the defaults of the cost function
    if kind == "fit" and case["ftype"] == "custom" and path.startswith("values") and obs in ("parameters", "results.stored"):
        eo, go = wit.get("objects", (None, None))
        dflt = [float(d) for d in case["custom"]["defaults"]]
        if eo and obs == "parameters" and eo["names"] == go["names"] and len(go["values"]) == len(dflt):
            # every parameter that differs came back as the default in the cost function's signature (fixed ones are re-fixed to their value)
            if all(g == e or g == d for g, e, d in zip(go["values"], eo["values"], dflt)):
                return "C09/custom-fit-parameter-values-not-restored"
    # -- preface comment of a fitted fit rounds gof/ndf via log10: ndf == 0 (or gof == 0) overflows
    if kind == "fit" and obs in ("to_file", "save_state") and case["stage"] != "unfitted" and wit.get("exc_type") in ("OverflowError", "ValueError", "ZeroDivisionError") and "_get_preface_comment" in str(wit.get("traceback", "")) and f.get("ndf") == 0:
        return "C09/fitted-fit-with-zero-degrees-of-freedom-not-writable"
    # -- matrix constraint (correlation matrix + uncertainties given as a list): the writer calls .tolist() on the list
    if obs == "to_file" and wit.get("exc_type") == "AttributeError" and "'list' object has no attribute 'tolist'" in exc and "constraint/yaml_drepr" in str(wit.get("traceback", "")):
        cons = f.get("constraints") or ([case] if kind == "constraint" else [])
        if any(c.get("matrix_type") == "cor" and isinstance(c.get("uncertainties"), list) for c in cons):
            return "C09/matrix-constraint-uncertainties-list-not-writable"
    # -- Gauss approximation cost: identifier written is the method name, which the reader does not know
    if kind == "fit" and obs == "from_file" and f.get("fid") in GAUSS_APPROX and wit.get("exc_type") == "NameError" and "gaussian_approximation" in exc:
        return "C09/gauss-approximation-cost-identifier-unknown-to-reader"
    # -- cost function given as an object: only its identifier (formula [+ "_fast"]) is written, the documented options of the class
    #    (add_determinant_cost, add_constraint_cost, fallback_on_singular, axes_to_use, fast_math where no "_fast" identifier exists)
    #    come back as the defaults.  Holds only if the attribute that differs belongs to an option the case set to its non-default value.
    if kind == "fit" and obs == "cost_function" and f.get("cost_options") and exp != got:
        attr = path.split("[")[0].split("{")[0]
        lost = options_not_implied_by_identifier(case["cost_object"]["fid"], f["cost_options"])
        if any(attr in COST_OPTION_PATHS[o] for o in lost):
            return "C09/cost-function-options-not-stored"
    # -- dynamic_error_algorithm is not part of the file format
    if obs == "dynamic_error_algorithm" and exp == "iterative" and got == "nonlinear":
        return "C09/dynamic-error-algorithm-not-stored"
    return None


# ------------------------------------------------------------------ histories
def parse_doc(path):
    with open(path) as fh:
        d = plain(yaml.load(fh, MatrixYamlLoader))
    # raw histogram entries are a multiset: HistContainer itself reorders them when it processes pending entries
    for sub in (d, d.get("dataset") if isinstance(d, dict) else None):
        if isinstance(sub, dict) and isinstance(sub.get("raw_data"), list):
            sub["raw_data"] = sorted(sub["raw_data"])
    return d


COMPUTED = ("fit_results.cost", "fit_results.goodness_of_fit", "fit_results.gof/ndf", "fit_results.chi2_probability")


def doc_tol(path):
    if path in COMPUTED or path.startswith("parametric_model.y_data"):
        return (1e-9, 1e-12)
    return None


def save_load(h, obj, path, save=None):
    ctx = h.ctx
    ctx.op("to_file")
    if h.call("to_file", save or (lambda: obj.to_file(path)), where="first") is None:
        return None
    ctx.op("from_file")
    re = h.call("from_file", lambda: type(obj).from_file(path))
    if re is None:
        return None
    if not h.cmp("class", type(re).__name__, type(obj).__name__, where="type(obj).from_file"):
        return None
    return re


def second_cycle(h, re, path1, path2):
    if not h.alive:
        return
    h.ctx.op("to_file.second")
    if h.call("to_file", lambda: re.to_file(path2), where="second") is None:
        return
    try:
        d1, d2 = parse_doc(path1), parse_doc(path2)
    except Exception as e:
        h.verdict("second-cycle.document", False, {"exception": "%s: %s" % (type(e).__name__, str(e)[:300])})
        return
    h.cmp("second-cycle.document", d2, d1, RT, 0.0, tolmap=doc_tol)


def run_simple(ctx, h, obj, observe, tmp, tag):
    """container / parametric model / model function / constraint"""
    p1, p2 = os.path.join(tmp, tag + "-1.yml"), os.path.join(tmp, tag + "-2.yml")
    re = save_load(h, obj, p1)
    if re is None:
        return
    if not h.groups(observe(obj), observe(re)):
        return
    second_cycle(h, re, p1, p2)


def mf_points(mf):
    d = [float(v) for v in mf.defaults]
    return [[v * (0.85 + 0.12 * k) + 0.013 * (i + 1) for i, v in enumerate(d)] for k in range(3)]


def stage_fit(ctx, fit, stage):
    """bring the original to the requested stage; returns False if the case has to be discarded"""
    if stage == "unfitted":
        return True
    try:
        ctx.op("do_fit")
        with time_limit(40.0):
            fit.do_fit()
        if not np.all(np.isfinite(np.array(fit.parameter_values, dtype=float))) or not np.isfinite(float(fit.cost_function_value)):
            ctx.discard("original-fit-not-finite")
            return False
        if stage == "asym":
            ctx.op("asymmetric_errors")
            with time_limit(60.0):
                _ = fit.asymmetric_parameter_errors
    except (Exception, OpTimeout):
        ctx.discard("original-%s-failed" % ("do_fit" if stage == "fitted" else "do_fit-or-asymmetric-errors"))
        return False
    return True


def well_posed(ctx, fit, feats):
    """fits with more free parameters than measurements are not generated on purpose: discard them (ndf == 0 is legitimate and kept)"""
    ndf = fit.ndf
    feats["ndf"] = ndf
    if ndf is not None and ndf < 0:
        ctx.discard("ndf-negative")
        return False
    return True


def quiescent(ctx, fit):
    """the original is observed at a quiescent point: two consecutive observations must agree (an original whose
    public reads move its own state - minimiser copies after MINOS - is C08's subject, not a save/load defect)"""
    try:
        obs_fit(fit)  # first read after MINOS synchronises graph and minimiser parameters; observe after that
        o1 = [(g[0], plain(g[1])) for g in obs_fit(fit)]
        o2 = [(g[0], plain(g[1])) for g in obs_fit(fit)]
    except Exception:
        ctx.discard("original-not-observable")
        return False
    for a, b in zip(o1, o2):
        if diff(a[1], b[1]) is not None:
            ctx.discard("original-not-quiescent-under-observation")
            return False
    return True


def cost_function_refuses_data(ctx, case):
    """A cost function built with fallback_on_singular=False raises, as documented, when the covariance matrix is singular (zero
    uncertainty, fully correlated source): such a fit cannot be evaluated, hence not written (the file contains cost and goodness of fit).
    Decided on an identically built twin so that the object under test stays unobserved before it is saved."""
    if (case.get("cost_object") or {}).get("options", {}).get("fallback_on_singular") is not False:
        return False
    try:
        twin = build_staged_fit(None, case, count_ops=False)
        ok = np.isfinite(float(twin.cost_function_value))
        twin.get_result_dict()
    except Exception:
        ok = False
    if not ok:
        ctx.discard("cost-function-without-fallback-refuses-singular-covariance")
    return not ok


def build_staged_fit(ctx, case, count_ops=True):
    fut = FitUnderTest(case)
    fut.apply(ctx if count_ops else None, case["ops"])
    return fut.fit


def refit(h, fit, re, case):
    ctx = h.ctx
    # refits are compared only on well-conditioned problems (DESIGN tolerance policy: cond(V) <= 1e8, measured on the original)
    try:
        if not isinstance(fit, CustomFit) and h.feats.get("fid") in NEEDS_ERRORS | set(GAUSS_APPROX):
            V = np.array(fit.total_cov_mat, dtype=float)
            if h.feats.get("fid") in GAUSS_APPROX:
                V = V + np.diag(np.array(fit.model, dtype=float))
            w = np.linalg.eigvalsh((V + V.T) / 2.0)
            if not np.all(np.isfinite(w)) or w[0] <= 0 or w[-1] / w[0] > 1e8:
                ctx.discard("refit-skipped-covariance-ill-conditioned")
                return
    except Exception:
        ctx.discard("refit-skipped-covariance-ill-conditioned")
        return
    try:
        with time_limit(40.0):
            fit.do_fit()
        pa = np.array(fit.parameter_values, dtype=float)
        ca = float(fit.cost_function_value)
        sig = np.array(fit.parameter_errors, dtype=float)
        if not (np.all(np.isfinite(pa)) and np.isfinite(ca) and np.all(np.isfinite(sig))):
            raise ValueError("not finite")
    except (Exception, OpTimeout):
        ctx.discard("refit-of-original-failed")
        return
    scipy_ = case.get("minimizer") == "scipy"
    ts, tc = (5e-2, 5e-3) if scipy_ else (1e-2, 1e-3)
    try:  # the yardstick must be reproducible on the original itself (ill-posed problems: flat directions, unbounded cost)
        with time_limit(40.0):
            fit.do_fit()
        pa2 = np.array(fit.parameter_values, dtype=float)
        if np.any(np.abs(pa2 - pa) > 0.3 * ts * sig + 1e-12 * np.abs(pa)) or abs(float(fit.cost_function_value) - ca) > 0.3 * tc + 1e-9 * abs(ca):
            raise ValueError("not reproducible")
        pa, ca = pa2, float(fit.cost_function_value)
    except (Exception, OpTimeout):
        ctx.discard("refit-of-original-not-reproducible")
        return
    if np.any(np.abs(pa) > 1e7):
        # run-away minimisation (the generators keep parameters of order 1..1e3): where it ends is an accident of the path
        ctx.discard("refit-of-original-ran-away")
        return
    # a (nearly) degenerate minimum has no position to a fraction of the reported sigma (same policy as C06/C07/C14: cond(cor) <= 1e4)
    try:
        _fx = set(fit._fitter.fixed_parameters)
        _free = [i for i, n in enumerate(fit.parameter_names) if n not in _fx]
        _cor = np.array(fit.parameter_cor_mat, dtype=float)[np.ix_(_free, _free)]
        _cond = float(np.linalg.cond(_cor)) if len(_free) > 1 else 1.0
        if not np.isfinite(_cond) or _cond > 1e4 or np.any(sig[_free] <= 0):
            raise ValueError("degenerate")
    except Exception:
        ctx.discard("refit-minimum-degenerate")
        return
    if h.call("refit.do_fit", lambda: (re.do_fit(), re.do_fit())) is None:
        return
    pb = np.array(re.parameter_values, dtype=float)
    cb = float(re.cost_function_value)
    fixed = set(fit._fitter.fixed_parameters)
    lim = dict(fit._fitter.limited_parameters)
    bad = []
    for i, n in enumerate(fit.parameter_names):
        if n in fixed:
            if pa[i] != pb[i]:
                bad.append([n, "fixed", pa[i], pb[i]])
            continue
        if n in lim:
            lo, hi = lim[n]
            if min(abs(pa[i] - lo), abs(pa[i] - hi)) <= 1e-3 * abs(hi - lo):
                continue  # on a limit: the reported sigma is no yardstick
        if abs(pa[i] - pb[i]) > ts * sig[i] + 1e-12 * abs(pa[i]):
            bad.append([n, "free", pa[i], pb[i], sig[i]])
    if abs(ca - cb) > tc + 1e-9 * abs(ca):
        bad.append(["cost", ca, cb])
    elif any(b[1] == "free" and abs(b[2] - b[3]) > b[4] for b in bad):
        # sigma is DEFINED by a cost increase of 1: two end points more than one reported sigma apart with the same cost (to 1e-3) show
        # that the minimum has a flat direction and the reported sigma is no yardstick (degenerate-minimum policy: positions not compared)
        ctx.discard("refit-minimum-degenerate")
        return
    if bad and not any(b[1] == "fixed" for b in bad) and abs(ca - cb) > tc + 1e-9 * abs(ca):
        # explain-check: both objects evaluate the SAME function at both end points (original at the reloaded fit's end point and
        # vice versa) but the two minimisations, which start with different step sizes, ended at different depths: several basins or
        # an unbounded descent (thorough tier: unbinned mixture with one component collapsing onto a data point, s2 = 9e-9 / 7e-11,
        # cost -12.5 / -21.5) - a property of the problem; the equivalence of the two objects as functions is what was just confirmed
        try:
            fit.set_all_parameter_values(pb)
            c_ab = float(fit.cost_function_value)
            re.set_all_parameter_values(pa)
            c_ba = float(re.cost_function_value)
            fit.set_all_parameter_values(pa)
            re.set_all_parameter_values(pb)
            if abs(c_ab - cb) <= tc + 1e-9 * abs(cb) and abs(c_ba - ca) <= tc + 1e-9 * abs(ca):
                ctx.discard("refit-ends-at-different-depths-of-the-same-cost-function")
                return
        except Exception:
            pass
    if bad and not any(b[1] == "fixed" for b in bad):
        # explain-check (same policy as the two-attractor cases of C06): started at the end point of the reloaded fit, the ORIGINAL
        # fit stays there with the same cost - the cost function has two minima and the two minimisations, which start with different
        # step sizes (those are no part of the written state), were caught by different ones; that is a property of the problem
        try:
            with time_limit(40.0):
                fit.set_all_parameter_values(pb)
                fit.do_fit()
            pc = np.array(fit.parameter_values, dtype=float)
            cc = float(fit.cost_function_value)
            sb = np.array(re.parameter_errors, dtype=float)
            sb = np.where(np.isfinite(sb) & (sb > 0), sb, np.abs(sig))
            if abs(cc - cb) <= tc + 1e-9 * abs(cb) and np.all(np.abs(pc - pb) <= 10 * ts * np.maximum(sb, sig) + 1e-9 * np.abs(pb)):
                ctx.discard("refit-two-minima-of-the-same-cost-function")
                return
        except (Exception, OpTimeout):
            pass
    h.verdict("refit", not bad, {"differences": bad, "sigma_tolerance": ts, "cost_tolerance": tc, "original": pa, "reloaded": pb, "path": "refit", "expected": ca, "got": cb})
    return True


def obs_fit_after_op(fit, where):
    """what a further operation on a fit changes: enabled flags, total uncertainties, parameter state, cost"""
    g = []
    if not isinstance(fit, (CustomFit, UnbinnedFit)):
        en = {}
        for tag, c in (("data", fit.data_container), ("model", fit._param_model)):
            for n in sorted(c.get_matching_errors()):
                en["%s.%s" % (tag, n)] = bool(c.get_error(n)["enabled"])
        g.append(("post.sources", en, 0.0, 0.0, where))
        g.extend(total_groups({"total_error": lambda: fit.total_error}, {"total_cov_mat": lambda: fit.total_cov_mat, "data_cov_mat": lambda: fit.data_cov_mat, "model_cov_mat": lambda: fit.model_cov_mat}, where, obs="post.total_error"))
    p = np.array(fit.parameter_values, dtype=float)
    st = {"values": p, "fixed": dict(fit._fitter.fixed_parameters), "limits": {k: list(v) for k, v in fit._fitter.limited_parameters.items()}}
    g.append(("post.parameters", st, 0.0, 0.0, where))
    cc = [float(c.cost(p)) for c in fit.parameter_constraints]
    cf = fit._cost_function
    needs_positive_model = "GaussApproximation" in type(cf).__name__ or "poisson" in str(getattr(cf, "name", "")).lower()
    if not isinstance(fit, (CustomFit, UnbinnedFit)) and needs_positive_model and np.any(np.asarray(fit.model, dtype=float) <= 0):
        # cost not defined at this point (see obs_fit_at_points): the model values are compared instead
        g.append(("post.model", np.array(fit.model, dtype=float), ULP, 0.0, where))
        return g
    _c = float(fit.cost_function_value)
    if not np.isfinite(_c):
        # the cost is not defined in this configuration (e.g. a chi2 left without any uncertainty after the data was replaced): which
        # non-finite value comes out (inf / -inf / nan) depends on the formula that happens to be selected
        g.append(("post.cost-is-finite", False, 0.0, 0.0, where))
        return g
    g.append(("post.cost", _c, LIN[0], LIN[1] + LIN[0] * sum(abs(x) for x in cc), where))
    return g


def post_stage(h, fit, re, case, cur):
    """original and reloaded fit receive the same further operations; after each one both are observed"""
    ctx = h.ctx
    spec = case.get("spec") or {"type": "custom"}
    try:
        fit.set_all_parameter_values(cur)
        re.set_all_parameter_values(cur)
    except Exception:
        ctx.discard("post-stage-parameters-not-restorable")
        return
    for k, op in enumerate(case["post_ops"]):
        if not h.alive:
            return
        where = "post%d.%s." % (k, op[0])
        try:
            with time_limit(30.0):
                dsl.apply_live(fit, spec, op)
                ga = obs_fit_after_op(fit, where)
        except (Exception, OpTimeout):
            ctx.discard("post-op-failed-on-original")
            return
        ctx.op("post." + op[0])
        if h.call("post.op", lambda: dsl.apply_live(re, spec, op) or True, where=where) is None:
            return
        try:
            gb = obs_fit_after_op(re, where)
        except Exception as e:
            h.verdict("post.cost", False, {"where": where, "exception": "%s: %s" % (type(e).__name__, str(e)[:300]), "traceback": fmt_exc(), "path": "observation"})
            return
        if not h.groups(ga, gb):
            return


def run_fit(ctx, h, case, tmp, tag):
    fit = build_staged_fit(ctx, case)
    # no observation of the original before it is saved, except after MINOS (see quiescent): what is written must not depend on
    # whether somebody happened to read the fit before
    if not well_posed(ctx, fit, h.feats) or cost_function_refuses_data(ctx, case) or not stage_fit(ctx, fit, case["stage"]) or (case["stage"] == "asym" and not quiescent(ctx, fit)):
        h.alive = False
        h.discarded = True
        return
    p1, p2 = os.path.join(tmp, tag + "-1.yml"), os.path.join(tmp, tag + "-2.yml")
    save = (lambda: fit.to_file(p1, calculate_asymmetric_errors=True)) if case["stage"] == "asym" else None
    re = save_load(h, fit, p1, save)
    if re is None:
        return
    if not h.groups(obs_fit(fit), obs_fit(re)):
        return
    second_cycle(h, re, p1, p2)
    if not h.alive:
        return
    cur = [float(v) for v in fit.parameter_values]
    pts = fit_points(fit, h.feats)
    try:
        ga = obs_fit_at_points(fit, pts)
    except Exception:
        ctx.discard("original-not-evaluable-at-points")
        return
    try:
        gb = obs_fit_at_points(re, pts)
    except Exception as e:
        h.verdict("points.cost", False, {"exception": "%s: %s" % (type(e).__name__, str(e)[:300]), "traceback": fmt_exc(), "path": "evaluation"})
        return
    if not h.groups(ga, gb):
        return
    fit.set_all_parameter_values(cur)
    re.set_all_parameter_values(cur)
    done = refit(h, fit, re, case) if case.get("refit") else True
    if done and h.alive and case.get("post_ops"):
        post_stage(h, fit, re, case, cur)


def run_wwr(ctx, h_factory, case, tmp):
    a_case, b_case = case["first"], case["second"]
    h = h_factory(b_case)
    build = (lambda c: build_container(c)) if a_case["kind"] == "container" else (lambda c: build_staged_fit(ctx, c, count_ops=False))
    observe = obs_container if b_case["kind"] == "container" else obs_fit
    a, b = build(a_case), build(b_case)
    p, q = os.path.join(tmp, "wwr.yml"), os.path.join(tmp, "wwr-fresh.yml")
    ha = h_factory(a_case)  # a failure of the first write is judged with the features of the first object
    if ha.call("to_file", lambda: a.to_file(p), where="first object") is None:
        return ha
    size_a = os.path.getsize(p)
    ctx.op("to_file")
    if h.call("to_file", lambda: b.to_file(p), where="second object, same path") is None:
        return h
    size_b = os.path.getsize(p)
    twin = build(b_case)  # an identically built object in the same (unobserved) state
    if h.call("to_file", lambda: twin.to_file(q), where="twin of the second object, fresh path") is None:
        return h
    fresh = os.path.getsize(q)
    h.first_longer = size_a > fresh
    h.verdict("wwr.size", size_b == fresh, {"path": "file size", "expected": fresh, "got": size_b, "size_first": size_a})
    ctx.op("from_file")
    c = h.call("from_file", lambda: type(b).from_file(p), where="after write-write")
    if c is None:
        return h
    h.groups(observe(b), observe(c), where="wwr.")
    if h.alive:
        d1, d2 = parse_doc(p), parse_doc(q)
        h.cmp("wwr.content", d1, d2, 0.0, where="document after write-write vs fresh write")
    return h


def run_state(ctx, h, case, tmp):
    fc = case["fit"]
    fit = build_staged_fit(ctx, fc)
    if not well_posed(ctx, fit, h.feats) or cost_function_refuses_data(ctx, fc) or not stage_fit(ctx, fit, fc["stage"]) or (fc["stage"] == "asym" and not quiescent(ctx, fit)):
        h.alive = False
        h.discarded = True
        return
    p = os.path.join(tmp, "state.yml")
    ctx.op("save_state")
    if h.call("save_state", lambda: fit.save_state(p, calculate_asymmetric_errors=(fc["stage"] == "asym")) or True) is None:
        return
    twin = build_staged_fit(ctx, fc, count_ops=False)
    ctx.op("load_state")
    if h.call("load_state", lambda: twin.load_state(p) or True) is None:
        return
    ga = [("parameters", {"names": list(fit.parameter_names), "values": np.array(fit.parameter_values, dtype=float)}, 0.0, 0.0, "state.")] + result_groups(fit, "state.")
    gb = [("parameters", {"names": list(twin.parameter_names), "values": np.array(twin.parameter_values, dtype=float)}, 0.0, 0.0, "state.")] + result_groups(twin, "state.")
    if h.groups(ga, gb):
        h.verdict("state.results", True, {})
        # a state file that belongs to a fit with one more parameter: load_state refuses it, and the fit keeps the state it had
        try:
            import yaml

            doc = yaml.safe_load(open(p, encoding="utf8"))
            if isinstance(doc.get("parameter_values"), list) and len(doc["parameter_values"]) >= 1:
                k = len(doc["parameter_values"])
                doc["parameter_values"] = [float(v) * 1.5 + 0.25 for v in doc["parameter_values"]] + [0.7]
                if isinstance(doc.get("parameter_errors"), list):
                    doc["parameter_errors"] = [float(v) * 3.0 + 0.1 for v in doc["parameter_errors"]] + [0.3]
                for nm in ("parameter_cov_mat", "parameter_cor_mat"):
                    if isinstance(doc.get(nm), list):
                        doc[nm] = (np.eye(k + 1) * (2.0 if nm.endswith("cov_mat") else 1.0)).tolist()
                foreign = os.path.join(tmp, "state-foreign.yml")
                yaml.safe_dump(doc, open(foreign, "w", encoding="utf8"))
                ctx.op("load_state.foreign")
                refused = False
                try:
                    twin.load_state(foreign)
                except Exception:
                    refused = True
                h.verdict("state.foreign-refused", refused, {"why": "a state with %d parameter values was accepted by a fit with %d parameters" % (k + 1, k)})
                if refused and h.alive:
                    gc = [("parameters", {"names": list(twin.parameter_names), "values": np.array(twin.parameter_values, dtype=float)}, 0.0, 0.0, "state.after-refused-load.")] + result_groups(twin, "state.after-refused-load.")
                    h.groups(gb, gc)
        except OSError:
            pass
        if not h.alive:
            return
        # write-write on the state file: a second, shorter state replaces the first completely
        ctx.op("save_state")
        fresh = build_staged_fit(ctx, fc, count_ops=False)
        q = os.path.join(tmp, "state-fresh.yml")
        if h.call("save_state", lambda: fresh.save_state(p) or True, where="over existing file") is None:
            return
        fresh.save_state(q)
        h.cmp("wwr.size", os.path.getsize(p), os.path.getsize(q), where="save_state over a longer state file")


def _verdict(self, obs, ok, wit):
    if not self.alive:
        return False
    if ok:
        self.ctx.check(obs, True)
        return True
    key = classify(self, obs, wit)
    self.ctx.check(obs, False, {k: _short(v) for k, v in wit.items() if k != "objects"}, key)
    self.alive = False
    return False


History.verdict = _verdict


def run_case(ctx, case, tmp):
    ctx.reseed_legacy()
    kind = case["kind"]
    ctx.stratum(*case.get("stratum", [kind]))
    inner = case["second"] if kind == "wwr" else (case["fit"] if kind == "state" else case)
    feats = features(inner)
    for s in feats["strata"]:
        ctx.stratum("feature", s)
    for name, items in feats["sets"].items():
        for it in items:
            ctx.add_to_set(name, it)
    h = History(ctx, inner, feats)
    h.tmp = tmp
    h.mode = "state" if kind == "state" else "roundtrip"
    tag = "obj"
    if kind == "container":
        for s in case.get("sources", []):
            ctx.op("add_error" if s["kind"] == "simple" else "add_matrix_error")
        for _ in case.get("disabled", []):
            ctx.op("disable_error")
        run_simple(ctx, h, build_container(case), obs_container, tmp, tag)
    elif kind == "pmodel":
        run_simple(ctx, h, build_pmodel(case), obs_pmodel, tmp, tag)
    elif kind == "modelfunc":
        mf = build_modelfunc(case)
        pts = mf_points(mf)
        run_simple(ctx, h, mf, lambda o: obs_modelfunc(o, points=pts), tmp, tag)
    elif kind == "constraint":
        c = build_constraint(case)
        npar = 8
        pts = constraint_points(c, npar)

        def observe(o):
            return [("class", type(o).__name__, 0.0), ("constraints", obs_constraint(o), RT), ("points.constraint_cost", [float(o.cost(p)) for p in pts], ULP)]

        run_simple(ctx, h, c, observe, tmp, tag)
    elif kind == "fit":
        run_fit(ctx, h, case, tmp, tag)
    elif kind == "wwr":
        def factory(c):
            hh = History(ctx, c, features(c))
            hh.tmp = tmp
            return hh

        h = run_wwr(ctx, factory, case, tmp)
        if not getattr(h, "first_longer", False):
            return False
    elif kind == "state":
        run_state(ctx, h, case, tmp)
    if getattr(h, "discarded", False):
        return False
    return is_nontrivial(feats)


def _clean(tmp):
    for fn in os.listdir(tmp):
        try:
            os.remove(os.path.join(tmp, fn))
        except OSError:
            pass


def run_shard(ctx):
    tmp = tempfile.mkdtemp(prefix="verif-c09-")
    try:
        idx = 0
        while ctx.more():
            case = gen_case(ctx.rng, ctx.tier, idx * ctx.nshards + ctx.shard)
            idx += 1
            ctx.begin_case(case)
            nontrivial = False
            try:
                nontrivial = run_case(ctx, case, tmp)
            except Exception:
                ctx.violation(None, "unexpected-exception", {"traceback": fmt_exc()})
            ctx.end_case(nontrivial=nontrivial)
            _clean(tmp)
    finally:
        shutil.rmtree(tmp, ignore_errors=True)


def replay(ctx, case):
    tmp = tempfile.mkdtemp(prefix="verif-c09-")
    try:
        ctx.begin_case(case)
        try:
            run_case(ctx, case, tmp)
        except Exception:
            ctx.violation(None, "unexpected-exception", {"traceback": fmt_exc()})
        ctx.end_case(nontrivial=True)
    finally:
        shutil.rmtree(tmp, ignore_errors=True)
