"""C13 — histogram model bin contents equal the integral of the density over each bin.

Shape: exactness-class oracle.  No expected number is taken from the implementation:

* polynomial densities (degree 0..5, random coefficients, float edges) are integrated in exact rational
  arithmetic (``fractions.Fraction``); the value a symmetric quadrature rule *must* return is the exact
  integral plus the textbook error expansion about the bin centre m (h = half width, a_j = f^(j)(m)/j!)

      E_rule = sum_{j even >= 2} 2 a_j h^(j+1) kappa_j ,
      kappa_j = 1/3 - 1/(j+1) (Simpson),  j/(j+1) (trapezoid),  -1/(j+1) (midpoint / rectangle)

  which is 0 inside the exactness class (degree <= 3 / 1 / 1) and reduces to the textbook constants
  Simpson(x^4) = +(b-a)^5/120, trapezoid(x^2) = +(b-a)^3/6, midpoint(x^2) = -(b-a)^3/12 one degree
  above it.  The expansion and the three constants are verified against each other and against the
  definition of the rules in exact arithmetic when the module is imported (``_selftest``).
* an antiderivative callable (plain / ``np.vectorize``) must give F(b) - F(a) of that very callable;
* 'numerical' must agree with the analytic integral to integration accuracy;
* smooth non-polynomial densities (normal, exponential, mixtures): the rule must equal the textbook rule
  on the harness' own density, stay within the textbook error bound, and converge with order 4 / 2 / 2
  when every bin is halved three times.

The same oracle, times N_entries (density=True) or 1 (density=False), is applied to ``HistFit.model`` and
to the graph node the cost function reads, after every way of changing parameters or bin edges.
"""
import math
from fractions import Fraction

import numpy as np
from scipy.special import erf as _erf
from scipy.special import erfc as _erfc

from vlib.monitor import OpTimeout, fmt_exc, time_limit

PROPERTY = "C13"
TIERS = {"quick": {"shards": 8, "budget_s": 20}, "thorough": {"shards": 16, "budget_s": 300}}
RULE = (
    "case = (density family: polynomial degree 0..5 with random coefficients | normal | exponential | normal+exponential mixture | "
    "normal on linear background; random parameter names/order/values) x (random non-uniform edge sequence, 1..12 bins, given as full "
    "edges / inner edges + range / n_bins + range) x bin_evaluation in {rectangle, midpoint, trapezoid, simpson, numerical, antiderivative "
    "callable, np.vectorize'd callable} x kind in {bare HistParametricModel history, HistFit history (density True/False), convergence-order "
    "ladder}; non-trivial = at least one bin with a non-zero expected content was compared AND (history kinds) at least one parameter / "
    "edge mutation was followed by a read; distinct by hash of the whole case"
)
ASSUMPTIONS = [
    "the harness-supplied antiderivative F is the antiderivative of the harness-supplied density (cross-checked against the analytic integral in every antiderivative case)",
    "N_entries of a histogram is the number of filled entries including underflow and overflow (for set_bins / numpy input: sum of heights + underflow + overflow)",
    "'numerical' (scipy.integrate.quad, default epsabs = epsrel = 1.49e-8) is held to 1e-9 x width*max|f| where one Gauss-Kronrod panel resolves the density (bin <= 7 sigma, density ratio across the bin <= e^30; observable data/numerical); elsewhere only to quad's documented accuracy (data/numerical-wide-bins)",
    "convergence orders: 8..14 bins of 0.12..0.4 characteristic lengths (sigma, 1/lambda), every bin halved three times, order = least-squares slope of log2(sum of |bin errors|) over the three finest levels; ladders whose smallest error is below 1e-11 x sum(width*|f|) (10^4 x rounding) are discarded and counted",
    "parameters without a default in the model signature start at 1.0 (kafe2 convention); initial values are read back, a mismatch is a discard not a verdict",
]
ANCHORS = [
    ("kafe2.fit.histogram.model", "HistParametricModel.__init__"),
    ("kafe2.fit.histogram.model", "HistParametricModel._recalculate"),
    ("kafe2.fit.histogram.model", "HistParametricModel._bin_evaluation_rectangle"),
    ("kafe2.fit.histogram.model", "HistParametricModel._bin_evaluation_trapezoid"),
    ("kafe2.fit.histogram.model", "HistParametricModel._bin_evaluation_simpson"),
    ("kafe2.fit.histogram.model", "HistParametricModel._bin_evaluation_numerical"),
    ("kafe2.fit.histogram.model", "HistParametricModel._bin_evaluation_antiderivative"),
    ("kafe2.fit.histogram.model", "HistParametricModel.data"),
    ("kafe2.fit.histogram.model", "HistParametricModel.eval_model_function_density"),
    ("kafe2.fit._base.model", "ParametricModelBaseMixin.parameters"),
    ("kafe2.fit.histogram.fit", "HistFit.model"),
    ("kafe2.fit.histogram.fit", "HistFit.eval_model_function_density"),
    ("kafe2.fit.histogram.fit", "HistFit._set_new_parametric_model"),
    ("kafe2.fit._base.fit", "FitBase.set_parameter_values"),
    ("kafe2.fit._base.fit", "FitBase.set_all_parameter_values"),
    ("kafe2.fit._base.fit", "FitBase.fix_parameter"),
]

RULES = ("rectangle", "midpoint", "trapezoid", "simpson")
METHODS = RULES + ("numerical", "antiderivative", "vectorized")  # every identifier HistParametricModel.__init__ accepts
FAMILIES = ("poly0", "poly1", "poly2", "poly3", "poly4", "poly5", "normal", "expo", "mix_ne", "mix_nl")
SMOOTH = ("normal", "expo", "mix_ne", "mix_nl")
EXACT_DEG = {"simpson": 3, "trapezoid": 1, "rectangle": 1, "midpoint": 1}
ORDER = {"simpson": 4, "trapezoid": 2, "rectangle": 2, "midpoint": 2}
SQ2 = math.sqrt(2.0)
SQ2PI = math.sqrt(2.0 * math.pi)

KEY_REBIN = "C13/model-rebin-does-not-recompute"
KEY_NEXUS = "C13/nexus-model-node-stale-after-data-change"
KEY_QUAD = "C13/numerical-misses-peak-much-narrower-than-bin"


def floors(tier):
    f = 1 if tier == "quick" else 10
    comp = {
        "data/exactness-class": 300 * f,
        "data/error-constant": 100 * f,
        "data/error-expansion": 100 * f,
        "data/antiderivative": 150 * f,
        "data/vectorized": 150 * f,
        "data/antiderivative-vs-integral": 300 * f,
        "data/numerical": 150 * f,
        "data/rule-reference": 150 * f,
        "data/rule-error-bound": 150 * f,
        "order/simpson": 20 * f,
        "order/trapezoid": 20 * f,
        "order/midpoint": 20 * f,
        "order/rectangle": 20 * f,
        "fit.model/density": 300 * f,
        "fit.model/counts": 300 * f,
        "fit.nexus-model": 300 * f,
        "fit.eval_density": 300 * f,
        "model.eval_density": 300 * f,
        "model.data/after-rebin": 100 * f,
    }
    return {
        "comparisons": comp,
        "ops": [
            "bare:construct",
            "bare:parameters",
            "bare:new_edges",
            "bare:rebin",
            "bare:reread",
            "fit:construct",
            "fit:set_parameter_values",
            "fit:set_all_parameter_values",
            "fit:fix_parameter",
            "fit:release_parameter",
            "fit:set_data",
            "fit:do_fit",
            "fit:eval_other_parameters",
            "fit:reread",
            "order:ladder",
        ],
        "reach": ["%s:%s" % a for a in ANCHORS],
        "strata": ["bare|%s|%s" % (fam, m) for fam in FAMILIES for m in METHODS]
        + ["fit|%s|%s|%s" % (fam, m, d) for fam in FAMILIES for m in METHODS for d in ("density", "counts")]
        + ["order|%s|%s" % (fam, r) for fam in SMOOTH for r in RULES]
        + ["edges|full", "edges|inner", "edges|uniform", "edges|single-bin", "edges|zero-width-bin", "name|uppercase", "poly0|scalar-return", "fill|fill", "fill|set_bins", "fill|numpy", "set_data|same-frame-other-inner-edges", "parameters|same-array-reused"],
        "sets": {"n_bins": 12, "family-x-method-x-kind": 200},
        "distinct_nontrivial": 400 * f,
    }


# ------------------------------------------------------------------ exact arithmetic for polynomials
def poly_integral_exact(coefs, a, b):
    A, B = Fraction(a), Fraction(b)
    s = Fraction(0)
    for k, c in enumerate(coefs):
        s += Fraction(c) * (B ** (k + 1) - A ** (k + 1)) / (k + 1)
    return s


def _taylor_at(coefs, m):
    n = len(coefs)
    return [sum(Fraction(coefs[k]) * math.comb(k, j) * m ** (k - j) for k in range(j, n)) for j in range(n)]


def _kappa(rule, j):
    if rule == "simpson":
        return Fraction(1, 3) - Fraction(1, j + 1)
    if rule == "trapezoid":
        return Fraction(j, j + 1)
    return -Fraction(1, j + 1)  # midpoint == rectangle


def rule_error_exact(coefs, a, b, rule):
    """(value the rule must return) - (exact integral), textbook error expansion about the bin centre."""
    A, B = Fraction(a), Fraction(b)
    m, h = (A + B) / 2, (B - A) / 2
    aj = _taylor_at(coefs, m)
    e = Fraction(0)
    for j in range(2, len(aj), 2):
        e += 2 * aj[j] * h ** (j + 1) * _kappa(rule, j)
    return e


def _selftest():
    """Verify the textbook constants and the expansion in exact arithmetic (definition of the rules on Fractions)."""

    def pe(c, x):
        return sum(Fraction(ck) * x**k for k, ck in enumerate(c))

    def by_definition(c, A, B, rule):
        M, W = (A + B) / 2, B - A
        if rule == "simpson":
            return W / 6 * (pe(c, A) + 4 * pe(c, M) + pe(c, B))
        if rule == "trapezoid":
            return W / 2 * (pe(c, A) + pe(c, B))
        return W * pe(c, M)

    pairs = [(Fraction(-7, 3), Fraction(5, 11)), (Fraction(1, 8), Fraction(9, 4)), (Fraction(-2), Fraction(-1, 7)), (Fraction(3), Fraction(3))]
    for A, B in pairs:
        W = B - A
        x4, x2 = [0, 0, 0, 0, 1], [0, 0, 1]
        ok = by_definition(x4, A, B, "simpson") - poly_integral_exact(x4, A, B) == W**5 / 120
        ok &= by_definition(x2, A, B, "trapezoid") - poly_integral_exact(x2, A, B) == W**3 / 6
        ok &= by_definition(x2, A, B, "midpoint") - poly_integral_exact(x2, A, B) == -(W**3) / 12
        ok &= rule_error_exact(x4, A, B, "simpson") == W**5 / 120
        ok &= rule_error_exact(x2, A, B, "trapezoid") == W**3 / 6
        ok &= rule_error_exact(x2, A, B, "midpoint") == -(W**3) / 12
        for c in ([3, -1, 4, 1, -5, 9], [Fraction(2, 7), 0, -6, 5, 3], [1, 2, 3, 4], [5, -8], [7], [0.1, -2.5, 0.3, 1e-3, 7.25, -0.6]):
            for rule in ("simpson", "trapezoid", "midpoint"):
                ok &= by_definition(c, A, B, rule) == poly_integral_exact(c, A, B) + rule_error_exact(c, A, B, rule)
                if len(c) - 1 <= EXACT_DEG[rule]:
                    ok &= rule_error_exact(c, A, B, rule) == 0
        if not ok:
            raise AssertionError("C13 harness self-test failed: textbook constants / expansion inconsistent")


_selftest()


# ------------------------------------------------------------------ density families
ROLES = {
    "normal": ["mu", "sigma"],
    "expo": ["lam"],
    "mix_ne": ["w", "mu", "sigma", "lam"],
    "mix_nl": ["mu", "sigma", "c0", "c1"],
}
NAME_POOL = ["a", "b", "c", "d", "e", "g", "h", "k", "m", "p", "q", "r", "s", "t", "u", "v", "w", "tau", "mu", "sigma", "lam", "amp", "p0", "p1", "p2", "theta", "slope", "N0"]


def roles_of(fam):
    if fam.startswith("poly"):
        return ["c%d" % k for k in range(int(fam[4:]) + 1)]
    return ROLES[fam]


def _poly_terms(names, shift=0, div=False):
    out = []
    for k, n in enumerate(names):
        e = k + shift
        if e == 0:
            t = n
        elif e == 1:
            t = "%s*x" % n
        else:
            t = "%s*x**%d" % (n, e)
        if div and e > 1:
            t += "/%d.0" % e
        out.append(t)
    return " + ".join(out)


def make_sources(spec):
    """def-source of the density, of its array antiderivative and of a scalar-only antiderivative (for np.vectorize)."""
    fam, names = spec["family"], spec["names"]
    defaults = spec.get("defaults") or [None] * len(names)
    sig = ", ".join(["x"] + [n if d is None else "%s=%r" % (n, float(d)) for n, d in zip(names, defaults)])
    R = dict(zip(roles_of(fam), names))
    nrm = "np.exp(-0.5*((x-{mu})/{sigma})**2)/({sigma}*%r)" % SQ2PI
    nrmF = "0.5*(1.0+_erf((x-{mu})/({sigma}*%r)))" % SQ2
    nrmFs = "0.5*(1.0+math.erf((x-{mu})/({sigma}*%r)))" % SQ2
    exd, exF, exFs = "{lam}*np.exp(-{lam}*x)", "-np.exp(-{lam}*x)", "-math.exp(-{lam}*x)"
    if fam.startswith("poly"):
        if spec.get("scalar_const") and fam == "poly0":
            d = names[0]
        elif fam == "poly0":
            d = "%s + 0.0*x" % names[0]
        else:
            d = _poly_terms(names)
        F = Fs = _poly_terms(names, shift=1, div=True)
    elif fam == "normal":
        d, F, Fs = nrm, nrmF, nrmFs
    elif fam == "expo":
        d, F, Fs = exd, exF, exFs
    elif fam == "mix_ne":
        d = "{w}*(%s) + (1.0-{w})*(%s)" % (nrm, exd)
        F = "{w}*(%s) + (1.0-{w})*(%s)" % (nrmF, exF)
        Fs = "{w}*(%s) + (1.0-{w})*(%s)" % (nrmFs, exFs)
    elif fam == "mix_nl":
        d = "%s + {c0} + {c1}*x" % nrm
        F = "%s + {c0}*x + {c1}*x**2/2.0" % nrmF
        Fs = "%s + {c0}*x + {c1}*x**2/2.0" % nrmFs
    else:
        raise AssertionError(fam)
    d, F, Fs = d.format(**R), F.format(**R), Fs.format(**R)
    fn = spec.get("func_name", "dens")
    return (
        "def %s(%s):\n    return %s\n" % (fn, sig, d),
        "def %s_F(%s):\n    return %s\n" % (fn, sig, F),
        "def %s_Fs(%s):\n    return %s\n" % (fn, sig, Fs),
    )


def materialise(spec):
    ns = {"np": np, "math": math, "_erf": _erf}
    fn = spec.get("func_name", "dens")
    for src in make_sources(spec):
        exec(src, ns)
    return ns[fn], ns[fn + "_F"], np.vectorize(ns[fn + "_Fs"])


def _norm_pdf(mu, s, x):
    return np.exp(-0.5 * ((x - mu) / s) ** 2) / (s * SQ2PI)


def _norm_int(mu, s, a, b):
    za, zb = (a - mu) / (s * SQ2), (b - mu) / (s * SQ2)
    up = 0.5 * (_erfc(za) - _erfc(zb))
    lo = 0.5 * (_erfc(-zb) - _erfc(-za))
    mid = 0.5 * (_erf(zb) - _erf(za))
    return np.where(za > 0, up, np.where(zb < 0, lo, mid))


def _expo_int(lam, a, b):
    return np.exp(-lam * a) * (-np.expm1(-lam * (b - a)))


def components(spec, p):
    """list of (weight, kind, args) — the density is the weighted sum"""
    fam = spec["family"]
    if fam.startswith("poly"):
        return [(1.0, "poly", list(p))]
    R = dict(zip(roles_of(fam), p))
    if fam == "normal":
        return [(1.0, "normal", (R["mu"], R["sigma"]))]
    if fam == "expo":
        return [(1.0, "expo", (R["lam"],))]
    if fam == "mix_ne":
        return [(R["w"], "normal", (R["mu"], R["sigma"])), (1.0 - R["w"], "expo", (R["lam"],))]
    return [(1.0, "normal", (R["mu"], R["sigma"])), (1.0, "poly", [R["c0"], R["c1"]])]


def ref_density(spec, p, x, absolute=False):
    """the density (or, absolute=True, the sum of |terms| = rounding scale) from the family definition"""
    x = np.asarray(x, dtype=float)
    out = np.zeros_like(x)
    for w, kind, args in components(spec, p):
        if kind == "poly":
            for k, c in enumerate(args):
                t = w * c * x**k
                out = out + (np.abs(t) if absolute else t)
        elif kind == "normal":
            t = w * _norm_pdf(args[0], args[1], x)
            out = out + (np.abs(t) if absolute else t)
        else:
            t = w * args[0] * np.exp(-args[0] * x)
            out = out + (np.abs(t) if absolute else t)
    return out


def ref_integral(spec, p, edges):
    """analytic integral per bin (polynomial parts exact), independent of any quadrature"""
    a, b = edges[:-1], edges[1:]
    out = np.zeros(len(a))
    for w, kind, args in components(spec, p):
        if kind == "poly":
            out = out + w * np.array([float(poly_integral_exact(args, x, y)) for x, y in zip(a, b)])
        elif kind == "normal":
            out = out + w * _norm_int(args[0], args[1], a, b)
        else:
            out = out + w * _expo_int(args[0], a, b)
    return out


def bin_scale(spec, p, edges):
    """width * sum of |terms| of the density over the bin: the magnitude every rounding error is relative to"""
    a, b = edges[:-1], edges[1:]
    xmax = np.maximum(np.abs(a), np.abs(b))
    s = np.zeros(len(a))
    for w, kind, args in components(spec, p):
        if kind == "poly":
            s = s + abs(w) * sum(abs(c) * xmax**k for k, c in enumerate(args))
        elif kind == "normal":
            m = np.clip(args[0], a, b)  # the maximum of the pdf on the bin
            s = s + abs(w) * _norm_pdf(args[0], args[1], m)
        else:
            s = s + abs(w) * np.maximum(np.abs(args[0] * np.exp(-args[0] * a)), np.abs(args[0] * np.exp(-args[0] * b)))
    return (b - a) * s


def F_scale(spec, p, edges):
    """|F(a)| + |F(b)| summed over |terms|: the magnitude the difference of antiderivatives cancels against"""
    a, b = edges[:-1], edges[1:]
    xmax = np.maximum(np.abs(a), np.abs(b))
    s = np.zeros(len(a))
    for w, kind, args in components(spec, p):
        if kind == "poly":
            s = s + 2 * abs(w) * sum(abs(c) * xmax ** (k + 1) / (k + 1) for k, c in enumerate(args))
        elif kind == "normal":
            s = s + 2 * abs(w)
        else:
            s = s + abs(w) * (np.exp(-args[0] * a) + np.exp(-args[0] * b))
    return s


def deriv_bound(spec, p, edges, order):
    """upper bound of |f^(order)| on every bin (order 2 or 4) for the textbook error bounds"""
    a, b = edges[:-1], edges[1:]
    out = np.zeros(len(a))
    for w, kind, args in components(spec, p):
        if kind == "poly":
            continue  # only degree <= 1 polynomial parts occur in the smooth families
        if kind == "normal":
            peak = 1.0 / (args[1] * SQ2PI)
            out = out + abs(w) * peak * (1.0 if order == 2 else 3.0) / args[1] ** order
        else:
            lam = args[0]
            out = out + abs(w) * abs(lam) ** (order + 1) * np.maximum(np.exp(-lam * a), np.exp(-lam * b))
    return out


def ref_uncertainty(spec, p, edges):
    """absolute rounding error of ref_integral itself: the normal part is a difference of erf/erfc values of size <= 1
    (polynomial parts are exact, the exponential part uses expm1 and is relatively accurate)"""
    u = np.zeros(len(edges) - 1)
    for w, kind, _ in components(spec, p):
        if kind == "normal":
            u = u + 8.0 * np.finfo(float).eps * abs(w)
    return u


def single_panel_regime(spec, p, edges):
    """True when every bin is narrower than 7 sigma and the density changes by less than e^30 across it (measured on the
    unchanged QUADPACK: one 21-point Gauss-Kronrod panel is then accurate to < 1e-13 of width*max|f|, so the 1e-9 bound
    has four orders of margin); polynomials of degree <= 5 are integrated exactly by that panel."""
    a, b = edges[:-1], edges[1:]
    w = b - a
    for _, kind, args in components(spec, p):
        if kind == "normal":
            far = np.maximum(np.abs(a - args[0]), np.abs(b - args[0]))
            if np.any(w > 7.0 * args[1]) or np.any(far * w > 30.0 * args[1] ** 2):
                return False
        elif kind == "expo":
            if np.any(np.abs(args[0]) * w > 30.0):
                return False
    return True


def classify_quad(spec, p, edges, got, exp, atol):
    """Known mechanism: 'numerical' hands each whole bin to scipy.integrate.quad without break points; when a normal
    component is much narrower than the bin (> 20 sigma) none of the 21 Gauss-Kronrod nodes of the first panel sees the
    peak, the error estimate (from the smooth rest) is already below tolerance and the peak's area is silently lost.
    Signature: every failing bin contains such a peak, the content is off by at most the area of those peaks, and the
    same QUADPACK call *with* the peak positions as break points reproduces the analytic integral."""
    try:
        from scipy import integrate

        bad = np.flatnonzero(~(np.abs(got - exp) <= atol))
        normals = [(w, args) for w, kind, args in components(spec, p) if kind == "normal"]
        if not len(bad) or not normals:
            return None
        for i in bad:
            a, b = float(edges[i]), float(edges[i + 1])
            hit = [(w, mu, sg) for w, (mu, sg) in normals if a - 5 * sg < mu < b + 5 * sg and (b - a) > 20 * sg]
            if not hit or not abs(got[i] - exp[i]) <= sum(abs(w) for w, _, _ in hit) * (1 + 1e-6) + atol[i]:
                return None
            pts = sorted(set(x for _, mu, sg in hit for x in (mu - 4 * sg, mu - sg, mu, mu + sg, mu + 4 * sg) if a < x < b))
            v, _ = integrate.quad(lambda x: float(ref_density(spec, p, x)), a, b, points=pts or None, limit=200)
            if not abs(v - exp[i]) <= atol[i]:
                return None
        return KEY_QUAD
    except Exception:
        return None


def rule_reference(spec, p, edges, rule):
    """the textbook rule (Simpson 1-4-1 /6, trapezoid 1-1 /2, midpoint) on the harness' own density"""
    a, b = edges[:-1], edges[1:]
    m = 0.5 * (a + b)
    fa, fm, fb = ref_density(spec, p, a), ref_density(spec, p, m), ref_density(spec, p, b)
    if rule == "simpson":
        return (b - a) / 6.0 * (fa + 4.0 * fm + fb)
    if rule == "trapezoid":
        return (b - a) / 2.0 * (fa + fb)
    return (b - a) * fm


# ------------------------------------------------------------------ the oracle
def _cmp(ctx, obs, got, exp, atol, detail, key=None):
    got = np.asarray(got, dtype=float)
    exp = np.asarray(exp, dtype=float)
    atol = np.asarray(atol, dtype=float) + 1e-300
    if got.shape != exp.shape:
        return ctx.check(obs, False, lambda: dict(detail(), got=got, expected=exp, what="shape mismatch"), key=key)
    with np.errstate(all="ignore"):
        diff = np.abs(got - exp)
        diff = np.where(got == exp, 0.0, diff)
        ok = bool(np.all(diff <= atol))  # nan fails
        ratio = float(np.max(diff / atol)) if diff.size else 0.0
    if ok:
        if ratio > ctx.worst.get(obs + " (units of tolerance)", 0.0):
            ctx.worst[obs + " (units of tolerance)"] = ratio
    return ctx.check(obs, ok, lambda: dict(detail(), got=got, expected=exp, atol=atol, worst_ratio=ratio), key=key)


def canon(method):
    m = method.lower()
    return "midpoint" if m == "rectangle" else m


def check_bins(ctx, st, got, mult, where, obs_main=None, key=None):
    """Compare `got` (bin contents as delivered) with mult x (what the property demands) for the
    *harness-tracked* current parameters and edges.  Returns True when every comparison passed."""
    spec, p, edges, method = st["spec"], st["params"], np.asarray(st["edges"], dtype=float), st["method"]
    rule = canon(method)
    fam = spec["family"]
    got = np.array(got, dtype=float)
    am = abs(mult)
    scale = bin_scale(spec, p, edges)

    def detail():
        return {"where": where, "family": fam, "method": method, "params": list(p), "edges": list(edges), "multiplier": mult}

    ok = True
    if method in ("antiderivative", "vectorized"):
        F = st["F"] if method == "antiderivative" else st["Fv"]
        Fa = np.asarray(F(np.array(edges[:-1]), *p), dtype=float)
        Fb = np.asarray(F(np.array(edges[1:]), *p), dtype=float)
        ok &= _cmp(ctx, obs_main or "data/" + method, got, mult * (Fb - Fa), am * 1e-13 * (np.abs(Fa) + np.abs(Fb)), detail, key)
        if obs_main is None and ok:
            ok &= _cmp(ctx, "data/antiderivative-vs-integral", got, mult * ref_integral(spec, p, edges), am * (1e-12 * F_scale(spec, p, edges) + 1e-12 * scale), detail, key)
    elif method == "numerical":
        ref = ref_integral(spec, p, edges)
        atol = 1e-9 * scale + ref_uncertainty(spec, p, edges)
        wide = not single_panel_regime(spec, p, edges)
        if wide:
            # outside the regime in which one 21-point Gauss-Kronrod panel resolves the density to rounding: only quad's
            # own documented accuracy (epsabs = epsrel = 1.49e-8) can be demanded
            atol = atol + 1.49e-8 * np.maximum(1.0, np.abs(ref))
        if wide and key is None and am > 0:
            key = lambda: classify_quad(spec, p, edges, got / mult, ref, atol)  # noqa: E731
        ok &= _cmp(ctx, obs_main or ("data/numerical-wide-bins" if wide else "data/numerical"), got, mult * ref, am * atol, detail, key)
    elif fam.startswith("poly"):
        deg = int(fam[4:])
        exp = np.array([float(poly_integral_exact(p, a, b) + rule_error_exact(p, a, b, rule)) for a, b in zip(edges[:-1], edges[1:])])
        cls = EXACT_DEG[rule]
        obs = "data/exactness-class" if deg <= cls else ("data/error-constant" if deg == cls + 1 else "data/error-expansion")
        ok &= _cmp(ctx, obs_main or obs, got, mult * exp, am * 1e-12 * scale, detail, key)
    else:
        ok &= _cmp(ctx, obs_main or "data/rule-reference", got, mult * rule_reference(spec, p, edges, rule), am * 1e-12 * scale, detail, key)
        if obs_main is None and ok:
            w = np.diff(edges)
            pw, const = {"simpson": (5, 2880.0), "trapezoid": (3, 12.0), "midpoint": (3, 24.0)}[rule]
            bound = w**pw / const * deriv_bound(spec, p, edges, pw - 1)
            ok &= _cmp(ctx, "data/rule-error-bound", got, mult * ref_integral(spec, p, edges), am * (bound * (1 + 1e-9) + 1e-12 * scale + ref_uncertainty(spec, p, edges)), detail, key)
    return bool(ok)


def check_density(ctx, obs, fn, st, xs, explicit=None, where=""):
    p = st["params"] if explicit is None else explicit
    ok = True
    for x in (np.array(xs, dtype=float), float(xs[0])):
        got = fn(x) if explicit is None else fn(x, list(explicit))
        exp = ref_density(st["spec"], p, x)
        tol = 1e-12 * ref_density(st["spec"], p, x, absolute=True)
        ok &= _cmp(ctx, obs, got, exp, tol, lambda: {"where": where, "x": x, "params": list(p), "explicit": explicit is not None, "family": st["spec"]["family"]})
    return ok


def nonzero_expected(st):
    with np.errstate(all="ignore"):
        return bool(np.any(ref_integral(st["spec"], st["params"], np.asarray(st["edges"], dtype=float)) != 0.0))


# ------------------------------------------------------------------ generators
def gen_edges(rng, n=None, degenerate=False):
    n = int(rng.integers(1, 13)) if n is None else n
    span = 10 ** rng.uniform(-1.0, 1.3)
    w = np.exp(rng.normal(0.0, 0.7, size=n))
    w = w / w.sum() * span
    if degenerate and n >= 2:
        w[int(rng.integers(0, n))] = 0.0
    x0 = span * rng.uniform(-2.0, 1.0)
    if rng.random() < 0.2:
        x0 = 0.0
    e = x0 + np.concatenate([[0.0], np.cumsum(w)])
    return [float(v) for v in e]


def gen_params(rng, fam, edges, order_mode=False):
    lo, hi = edges[0], edges[-1]
    span = max(hi - lo, 1e-3)
    if fam.startswith("poly"):
        deg = int(fam[4:])
        c = rng.normal(0.0, 1.0, size=deg + 1) * 10 ** rng.uniform(-1, 1, size=deg + 1)
        for k in range(deg):
            if rng.random() < 0.15:
                c[k] = 0.0
        if c[deg] == 0.0:
            c[deg] = 1.0
        return [float(v) for v in c]
    mu = rng.uniform(lo - 0.2 * span, hi + 0.2 * span)
    sigma = span * rng.uniform(0.15, 1.5)
    lam = rng.uniform(0.2, 3.0) / span
    vals = {"mu": mu, "sigma": sigma, "lam": lam, "w": rng.uniform(0.1, 0.9), "c0": rng.normal() / span, "c1": rng.normal() / span**2}
    return [float(vals[r]) for r in roles_of(fam)]


def gen_spec(rng, fam, with_defaults):
    k = len(roles_of(fam))
    names = [str(s) for s in rng.choice(NAME_POOL, size=k, replace=False)]
    spec = {"family": fam, "names": names}
    if fam == "poly0" and rng.random() < 0.5:
        spec["scalar_const"] = True
    if with_defaults:
        spec["defaults"] = with_defaults
    return spec


def char_length(spec, p):
    R = dict(zip(roles_of(spec["family"]), p))
    ls = []
    if "sigma" in R:
        ls.append(R["sigma"])
    if "lam" in R:
        ls.append(1.0 / R["lam"])
    return min(ls)


def gen_fill(rng, edges, mode):
    n = len(edges) - 1
    if mode == "fill":
        lo, hi = edges[0], edges[-1]
        k = int(rng.integers(0, 60)) if rng.random() > 0.05 else 0
        ent = rng.uniform(lo - 0.25 * (hi - lo), hi + 0.25 * (hi - lo), size=k)
        return {"mode": "fill", "entries": [float(v) for v in ent]}
    h = [int(v) for v in rng.integers(0, 40, size=n)]
    if mode == "set_bins":
        return {"mode": "set_bins", "heights": h, "underflow": int(rng.integers(0, 9)), "overflow": int(rng.integers(0, 9))}
    return {"mode": "numpy", "heights": h}


def n_entries_of(fill):
    if fill["mode"] == "fill":
        return len(fill["entries"])
    return int(sum(fill["heights"])) + int(fill.get("underflow", 0)) + int(fill.get("overflow", 0))


def spell(rng, method):
    if method in RULES + ("numerical",) and rng.random() < 0.15:
        return method.upper() if rng.random() < 0.5 else method.capitalize()
    return method


def gen_case(rng, tier, idx, kind=None, fam=None, method=None, dens=None):
    kind = kind or str(rng.choice(["bare", "fit", "order"], p=[0.45, 0.45, 0.10]))
    if kind == "order":
        fam = fam or str(rng.choice(SMOOTH))
        method = method or str(rng.choice(RULES))
        spec = gen_spec(rng, fam, None)
        # parameters first (any scale), then 8..14 bins of 0.12..0.4 characteristic lengths around the bulk
        scale = 10 ** rng.uniform(-1, 1)
        p = gen_params(rng, fam, [0.0, scale])
        L = char_length(spec, p)
        n = int(rng.integers(8, 15))
        w = L * rng.uniform(0.12, 0.4, size=n)
        R = dict(zip(roles_of(fam), p))
        centre = R.get("mu", 0.0)
        x0 = centre - w.sum() * rng.uniform(0.2, 0.8) if "mu" in R else rng.uniform(-1.0, 1.0) * L
        edges = [float(v) for v in x0 + np.concatenate([[0.0], np.cumsum(w)])]
        return {"property": "C13", "index": idx, "kind": "order", "spec": spec, "params": p, "edges": edges, "method": method, "levels": 4}
    fam = fam or str(rng.choice(FAMILIES))
    method = method or str(rng.choice(METHODS))
    if kind == "bare":
        emode = str(rng.choice(["full", "inner", "uniform"], p=[0.6, 0.2, 0.2]))
        edges = gen_edges(rng, degenerate=(emode == "full" and rng.random() < 0.08))
        if emode == "inner" and len(edges) < 3:
            emode = "full"
        if emode == "uniform":
            edges = [float(v) for v in np.linspace(edges[0], edges[-1], len(edges))]
        spec = gen_spec(rng, fam, None)
        p = gen_params(rng, fam, edges)
        ops = []
        nops = int(rng.integers(2, 6 if tier == "quick" else 10))
        cur = edges
        for _ in range(nops):
            o = str(rng.choice(["parameters", "new_edges", "rebin", "reread", "eval_other_parameters"], p=[0.4, 0.2, 0.15, 0.1, 0.15]))
            if o == "parameters":
                # 'same-array': one numpy array re-used for every assignment and changed in place in between (a scan loop)
                ops.append(["parameters", gen_params(rng, fam, cur), str(rng.choice(["list", "tuple", "array", "same-array", "same-array"]))])
            elif o in ("new_edges", "rebin"):
                cur = gen_edges(rng)
                ops.append([o, cur])
            elif o == "eval_other_parameters":
                ops.append([o, gen_params(rng, fam, cur)])
            else:
                ops.append([o])
        if not any(o[0] in ("parameters", "new_edges") for o in ops):
            ops.append(["parameters", gen_params(rng, fam, cur), "list"])
        lo, hi = edges[0], edges[-1]
        xs = [float(v) for v in rng.uniform(lo - 0.1 * (hi - lo), hi + 0.1 * (hi - lo), size=int(rng.integers(1, 6)))]
        return {"property": "C13", "index": idx, "kind": "bare", "spec": spec, "params": p, "edges": edges, "edges_mode": emode, "method": spell(rng, method), "density": bool(rng.random() < 0.5), "ops": ops, "xs": xs}
    # fit
    edges = gen_edges(rng)
    dens = bool(rng.random() < 0.5) if dens is None else dens
    k = len(roles_of(fam))
    p0 = gen_params(rng, fam, edges)
    nodef = int(rng.integers(1, k + 1)) if rng.random() < 0.3 else 0  # leading parameters without a default start at 1.0
    defaults = [None] * nodef + list(p0[nodef:])
    p0 = [1.0 if d is None else d for d in defaults]
    if nodef == k:
        defaults = None
    spec = gen_spec(rng, fam, defaults)
    fill = gen_fill(rng, edges, str(rng.choice(["fill", "set_bins", "numpy"], p=[0.5, 0.25, 0.25])))
    ops = []
    nops = int(rng.integers(2, 7 if tier == "quick" else 12))
    cur = edges
    for _ in range(nops):
        o = str(
            rng.choice(
                ["set_parameter_values", "set_all_parameter_values", "fix_parameter", "release_parameter", "set_data", "reread", "eval_other_parameters", "do_fit"],
                p=[0.27, 0.2, 0.1, 0.05, 0.15, 0.08, 0.1, 0.05],
            )
        )
        if o == "set_parameter_values":
            new = gen_params(rng, fam, cur)
            sub = [int(i) for i in np.flatnonzero(rng.random(k) < 0.6)] or [int(rng.integers(0, k))]
            ops.append([o, {spec["names"][i]: new[i] for i in sub}])
        elif o == "set_all_parameter_values":
            ops.append([o, gen_params(rng, fam, cur)] + (["same-array"] if rng.random() < 0.5 else []))
        elif o == "fix_parameter":
            i = int(rng.integers(0, k))
            ops.append([o, spec["names"][i], gen_params(rng, fam, cur)[i] if rng.random() < 0.8 else None])
        elif o == "release_parameter":
            ops.append([o, spec["names"][int(rng.integers(0, k))]])
        elif o == "set_data":
            if len(cur) >= 3 and rng.random() < 0.4:
                # same number of bins and same range, other inner edges (a re-binned version of the same histogram frame)
                w = np.exp(rng.normal(0.0, 0.7, size=len(cur) - 1))
                inner = cur[0] + np.cumsum(w / w.sum() * (cur[-1] - cur[0]))[:-1]
                cur = [float(cur[0])] + [float(v) for v in inner] + [float(cur[-1])]
            else:
                cur = gen_edges(rng)
            ops.append([o, cur, gen_fill(rng, cur, str(rng.choice(["fill", "set_bins", "numpy"])))])
        elif o == "eval_other_parameters":
            ops.append([o, gen_params(rng, fam, cur)])
        elif o == "do_fit":
            if fam in ("normal", "expo") and dens:
                ops.append([o])
            else:
                ops.append(["reread"])
        else:
            ops.append([o])
    if not any(o[0] in ("set_parameter_values", "set_all_parameter_values", "set_data") for o in ops):
        ops.append(["set_all_parameter_values", gen_params(rng, fam, cur)])
    lo, hi = edges[0], edges[-1]
    xs = [float(v) for v in rng.uniform(lo - 0.1 * (hi - lo), hi + 0.1 * (hi - lo), size=int(rng.integers(1, 6)))]
    return {"property": "C13", "index": idx, "kind": "fit", "spec": spec, "params": p0, "edges": edges, "fill": fill, "method": spell(rng, method), "density": dens, "ops": ops, "xs": xs, "observe_node": bool(rng.random() < 0.5)}


def _exponent_ok(spec, params, xs):
    """the user's density / antiderivative stays inside the double range (math.exp raises beyond e^709)"""
    x = np.asarray(xs, dtype=float)
    for _, kind, args in components(spec, params):
        if kind == "expo" and (not np.isfinite(args[0]) or np.max(-args[0] * x) > 500.0):
            return False
        if kind == "normal" and not (np.isfinite(args[0]) and np.isfinite(args[1])):
            return False
    return True


def history_in_range(case):
    """walk the history on the harness side only: every (parameters, edges, xs) combination it visits is representable"""
    spec, xs = case["spec"], list(case.get("xs", []))
    params, edges = list(case["params"]), list(case["edges"])
    names = spec["names"]
    if not _exponent_ok(spec, params, edges + xs):
        return False
    for op in case.get("ops", []):
        if op[0] in ("parameters", "set_all_parameter_values"):
            params = list(op[1])
        elif op[0] == "set_parameter_values":
            for nm, v in op[1].items():
                params[names.index(nm)] = v
        elif op[0] == "fix_parameter" and op[2] is not None:
            params[names.index(op[1])] = op[2]
        elif op[0] in ("new_edges", "rebin", "set_data"):
            edges = list(op[1])
        elif op[0] == "eval_other_parameters":
            if not _exponent_ok(spec, op[1], xs):
                return False
        if not _exponent_ok(spec, params, edges + xs):
            return False
    return True


def gen_valid_case(rng, tier, idx, **kw):
    for _ in range(50):
        case = gen_case(rng, tier, idx, **kw)
        if history_in_range(case):
            return case
    raise AssertionError("generator cannot produce an in-range history for %r" % (kw,))


def strata_plan():
    plan = []
    for fam in FAMILIES:
        for m in METHODS:
            plan.append(("bare", fam, m, None))
            plan.append(("fit", fam, m, True))
            plan.append(("fit", fam, m, False))
    for fam in SMOOTH:
        for r in RULES:
            plan.append(("order", fam, r, None))
    return plan


def forced_fit_case(rng, tier, idx):
    """one HistFit history that executes every op kind (incl. do_fit on data drawn from the model)"""
    case = gen_case(rng, tier, idx, kind="fit", fam="normal", method=str(rng.choice(METHODS)), dens=True)
    spec, edges = case["spec"], case["edges"]
    lo, hi = edges[0], edges[-1]
    R = {"mu": 0.5 * (lo + hi), "sigma": 0.3 * (hi - lo)}
    good = [R[r] for r in roles_of("normal")]
    ent = [float(v) for v in rng.normal(R["mu"], R["sigma"], size=80)]
    case["fill"] = {"mode": "fill", "entries": ent}
    n = spec["names"]
    e2 = gen_edges(rng)
    case["ops"] = [
        ["set_all_parameter_values", good],
        ["do_fit"],
        ["set_parameter_values", {n[0]: good[0] * 1.1 + 0.01}],
        ["fix_parameter", n[1], good[1] * 1.3],
        ["release_parameter", n[1]],
        ["eval_other_parameters", gen_params(rng, "normal", edges)],
        ["reread"],
        ["set_data", e2, gen_fill(rng, e2, "set_bins")],
        ["set_all_parameter_values", gen_params(rng, "normal", e2)],
    ]
    return case


# ------------------------------------------------------------------ execution
def _state(case):
    spec = case["spec"]
    f, F, Fv = materialise(spec)
    return {"spec": spec, "params": list(case["params"]), "edges": list(case["edges"]), "method": canon_spelling(case["method"]), "f": f, "F": F, "Fv": Fv}


def canon_spelling(m):
    return m.lower() if m.lower() in RULES + ("numerical",) else m


def bin_evaluation_arg(st, spelled):
    if st["method"] == "antiderivative":
        return st["F"]
    if st["method"] == "vectorized":
        return st["Fv"]
    return spelled


def construct_bare(case, st, edges, params, mode):
    from kafe2.fit.histogram.model import HistParametricModel

    be = bin_evaluation_arg(st, case["method"])
    n = len(edges) - 1
    if mode == "inner":
        return HistParametricModel(n, (edges[0], edges[-1]), st["f"], list(params), edges[1:-1], bin_evaluation=be, density=case["density"])
    if mode == "uniform":
        return HistParametricModel(n, (edges[0], edges[-1]), st["f"], list(params), None, bin_evaluation=be, density=case["density"])
    return HistParametricModel(n, (edges[0], edges[-1]), st["f"], list(params), np.array(edges), bin_evaluation=be, density=case["density"])


def run_bare(ctx, case):
    st = _state(case)
    fam, method = st["spec"]["family"], st["method"]
    ctx.stratum("bare", fam, method)
    ctx.stratum("edges", case["edges_mode"])
    if len(st["edges"]) == 2:
        ctx.stratum("edges", "single-bin")
    if np.any(np.diff(st["edges"]) == 0):
        ctx.stratum("edges", "zero-width-bin")
    if case["method"] != case["method"].lower():
        ctx.stratum("name", "uppercase")
    if st["spec"].get("scalar_const"):
        ctx.stratum("poly0", "scalar-return")
    ctx.add_to_set("n_bins", len(st["edges"]) - 1)
    ctx.add_to_set("family-x-method-x-kind", "bare/%s/%s/%s" % (fam, case["method"].lower(), case["edges_mode"]))
    ctx.op("bare:construct")
    model = construct_bare(case, st, st["edges"], st["params"], case["edges_mode"])
    nontrivial_bins = nonzero_expected(st)
    mutated_then_read = False
    if not check_bins(ctx, st, model.data, 1.0, "after construction"):
        return False
    if not _cmp(ctx, "model.bin_edges", model.bin_edges, st["edges"], 1e-15 * np.abs(st["edges"]), lambda: {"where": "after construction", "mode": case["edges_mode"]}):
        return False
    if not check_density(ctx, "model.eval_density", model.eval_model_function_density, st, case["xs"], where="after construction"):
        return False
    for k, op in enumerate(case["ops"]):
        where = "op %d %s" % (k, op[0])
        ctx.op("bare:" + op[0])
        key = None
        if op[0] == "parameters":
            v = op[1]
            if op[2] == "same-array":
                if st.get("_scan") is None or len(st["_scan"]) != len(v):
                    st["_scan"] = np.zeros(len(v), dtype=float)
                st["_scan"][:] = v
                model.parameters = st["_scan"]
                ctx.stratum("parameters", "same-array-reused")
            else:
                model.parameters = list(v) if op[2] == "list" else (tuple(v) if op[2] == "tuple" else np.array(v))
            st["params"] = list(v)
            mutated_then_read = True
        elif op[0] == "new_edges":
            st["edges"] = list(op[1])
            model = construct_bare(case, st, st["edges"], st["params"], "full")
            ctx.add_to_set("n_bins", len(st["edges"]) - 1)
            mutated_then_read = True
        elif op[0] == "rebin":
            st["edges"] = list(op[1])
            model.rebin(list(op[1]))
            ctx.add_to_set("n_bins", len(st["edges"]) - 1)
            key = lambda model=model, st=dict(st): classify_rebin(model, st)  # noqa: E731
        elif op[0] == "eval_other_parameters":
            if not check_density(ctx, "model.eval_density", model.eval_model_function_density, st, case["xs"], explicit=op[1], where=where):
                return False
        elif op[0] == "reread":
            pass
        else:
            raise AssertionError(op)
        nontrivial_bins |= nonzero_expected(st)
        if not check_bins(ctx, st, model.data, 1.0, where, obs_main="model.data/after-rebin" if op[0] == "rebin" else None, key=key):
            return False
        if not check_density(ctx, "model.eval_density", model.eval_model_function_density, st, case["xs"], where=where):
            return False
    return nontrivial_bins and mutated_then_read


class Quiet:
    """stand-in for ctx inside classifiers: evaluates the same oracle without counting or recording"""

    def __init__(self):
        self.worst, self.ok = {}, True

    def check(self, obs, ok, detail=None, key=None, case=None):
        self.ok = self.ok and bool(ok)
        return bool(ok)


def classify_rebin(model, st):
    """Known mechanism: HistContainer.rebin() zeroes the contents and replaces the edges, but nothing tells the
    parametric model that its cached contents are stale.  Signature: all contents exactly 0 right after rebin()
    and re-assigning the *same* parameters (which only sets the stale flag) makes the contents correct."""
    try:
        got = np.asarray(model.data)
        if got.shape != (len(st["edges"]) - 1,) or np.any(got != 0.0) or model._pm_calculation_stale:
            return None
        model.parameters = model.parameters
        q = Quiet()
        check_bins(q, st, model.data, 1.0, "classifier", obs_main="classifier")
        return KEY_REBIN if q.ok else None
    except Exception:
        return None


def make_container(edges, fill):
    from kafe2.fit.histogram import HistContainer

    n = len(edges) - 1
    if fill["mode"] == "numpy":
        return (np.array(fill["heights"]), np.array(edges))
    hc = HistContainer(n, (edges[0], edges[-1]), bin_edges=list(edges))
    if fill["mode"] == "fill":
        if fill["entries"]:
            hc.fill(list(fill["entries"]))
    else:
        hc.set_bins(list(fill["heights"]), underflow=fill["underflow"], overflow=fill["overflow"])
    return hc


def read_fit(ctx, fit, st, case, where, last_mut):
    mult = float(st["n_entries"]) if case["density"] else 1.0
    obs = "fit.model/density" if case["density"] else "fit.model/counts"
    if not check_bins(ctx, st, fit.model, mult, where, obs_main=obs):
        return False
    if not check_density(ctx, "fit.eval_density", fit.eval_model_function_density, st, case["xs"], where=where):
        return False
    if not case.get("observe_node", True):
        return True
    # quiescent-point invariant on live private state: the graph node the cost function reads
    node = fit._nexus.get("model")
    key = (lambda: classify_nexus(fit, st, mult, last_mut)) if last_mut == "set_data" else None
    return check_bins(ctx, st, node.value, mult, where + " (graph node 'model', read by the cost function)", obs_main="fit.nexus-model", key=key)


def classify_nexus(fit, st, mult, last_mut):
    """Known mechanism: `fit.data = ...` builds a new parametric model (new edges, new N) but only the graph node
    'data' is invalidated; the node 'model' keeps the contents computed for the previous histogram until a
    parameter changes.  Signature: the public property was right, the last mutation was the data change, and
    invalidating exactly that node repairs the read."""
    try:
        if last_mut != "set_data":
            return None
        node = fit._nexus.get("model")
        if node.stale:
            return None
        node.mark_for_update()
        q = Quiet()
        check_bins(q, st, node.value, mult, "classifier", obs_main="classifier")
        return KEY_NEXUS if q.ok else None
    except Exception:
        return None


def run_fit(ctx, case):
    from kafe2.fit.histogram import HistFit

    st = _state(case)
    fam, method = st["spec"]["family"], st["method"]
    ctx.stratum("fit", fam, method, "density" if case["density"] else "counts")
    ctx.stratum("fill", case["fill"]["mode"])
    if case["method"] != case["method"].lower():
        ctx.stratum("name", "uppercase")
    if len(st["edges"]) == 2:
        ctx.stratum("edges", "single-bin")
    ctx.add_to_set("n_bins", len(st["edges"]) - 1)
    ctx.add_to_set("family-x-method-x-kind", "fit/%s/%s/%s" % (fam, case["method"].lower(), case["density"]))
    ctx.op("fit:construct")
    st["n_entries"] = n_entries_of(case["fill"])
    fit = HistFit(make_container(st["edges"], case["fill"]), st["f"], bin_evaluation=bin_evaluation_arg(st, case["method"]), density=case["density"])
    names = st["spec"]["names"]
    if list(fit.parameter_names) != list(names) or not np.array_equal(np.asarray(fit.parameter_values, dtype=float), np.asarray(st["params"], dtype=float)):
        ctx.discard("initial parameters differ from the signature defaults")
        st["params"] = [float(v) for v in fit.parameter_values]
    nontrivial_bins = nonzero_expected(st) and (st["n_entries"] > 0 or not case["density"])
    mutated_then_read = False
    last_mut = "construct"
    if not read_fit(ctx, fit, st, case, "after construction", last_mut):
        return False
    for k, op in enumerate(case["ops"]):
        where = "op %d %s" % (k, op[0])
        if op[0] == "set_parameter_values":
            fit.set_parameter_values(**op[1])
            for nm, v in op[1].items():
                st["params"][names.index(nm)] = v
            last_mut = op[0]
            mutated_then_read = True
        elif op[0] == "set_all_parameter_values":
            if len(op) > 2 and op[2] == "same-array":
                if st.get("_scan") is None or len(st["_scan"]) != len(op[1]):
                    st["_scan"] = np.zeros(len(op[1]), dtype=float)
                st["_scan"][:] = op[1]
                fit.set_all_parameter_values(st["_scan"])
                ctx.stratum("parameters", "same-array-reused")
            else:
                fit.set_all_parameter_values(list(op[1]))
            st["params"] = list(op[1])
            last_mut = op[0]
            mutated_then_read = True
        elif op[0] == "fix_parameter":
            fit.fix_parameter(op[1], op[2])
            if op[2] is not None:
                st["params"][names.index(op[1])] = op[2]
                last_mut = op[0]
        elif op[0] == "release_parameter":
            try:
                fit.release_parameter(op[1])
            except Exception:
                ctx.discard("release_parameter raised (parameter was not fixed)")
        elif op[0] == "set_data":
            st_prev_edges = list(st["edges"])
            st["edges"] = list(op[1])
            st["n_entries"] = n_entries_of(op[2])
            if len(op[1]) == len(st_prev_edges) and op[1][0] == st_prev_edges[0] and op[1][-1] == st_prev_edges[-1] and list(op[1]) != list(st_prev_edges):
                ctx.stratum("set_data", "same-frame-other-inner-edges")
            fit.data = make_container(op[1], op[2])
            ctx.stratum("fill", op[2]["mode"])
            ctx.add_to_set("n_bins", len(st["edges"]) - 1)
            last_mut = op[0]
            mutated_then_read = True
        elif op[0] == "eval_other_parameters":
            if not check_density(ctx, "fit.eval_density", fit.eval_model_function_density, st, case["xs"], explicit=op[1], where=where):
                return False
        elif op[0] == "do_fit":
            try:
                with time_limit(20.0):
                    fit.do_fit()
            except (Exception, OpTimeout):
                ctx.discard("do_fit failed / timed out (not a C13 matter)")
            cur = np.asarray(fit.parameter_values, dtype=float)
            if not np.all(np.isfinite(cur)):
                ctx.discard("do_fit ended on non-finite parameters")
                return False
            # the minimiser chose the values: 'current parameters' are by definition what the fit reports
            st["params"] = [float(v) for v in cur]
            last_mut = op[0]
            mutated_then_read = True
        elif op[0] == "reread":
            pass
        else:
            raise AssertionError(op)
        ctx.op("fit:" + op[0])
        if not _sane(st) or not _exponent_ok(st["spec"], st["params"], list(st["edges"]) + list(case["xs"])):
            ctx.discard("parameters left the domain of the family (sigma/lam <= 0 or exp overflow)")
            return False
        nontrivial_bins |= nonzero_expected(st) and (st["n_entries"] > 0 or not case["density"])
        if not read_fit(ctx, fit, st, case, where, last_mut):
            return False
    return nontrivial_bins and mutated_then_read


def _sane(st):
    R = dict(zip(roles_of(st["spec"]["family"]), st["params"]))
    return R.get("sigma", 1.0) > 0 and R.get("lam", 1.0) > 0 and all(np.isfinite(list(R.values())))


def run_order(ctx, case):
    from kafe2.fit.histogram.model import HistParametricModel

    st = _state(case)
    fam, method = st["spec"]["family"], case["method"]
    rule = canon(method)
    ctx.stratum("order", fam, method)
    ctx.add_to_set("family-x-method-x-kind", "order/%s/%s" % (fam, method))
    ctx.op("order:ladder")
    edges = np.array(case["edges"], dtype=float)
    errs, hs = [], []
    for lvl in range(case["levels"]):
        m = HistParametricModel(len(edges) - 1, (edges[0], edges[-1]), st["f"], list(st["params"]), edges, bin_evaluation=method)
        st["edges"] = [float(v) for v in edges]
        got = np.asarray(m.data, dtype=float)
        if lvl == 0 and not check_bins(ctx, st, got, 1.0, "ladder level 0"):
            return False
        ref = ref_integral(st["spec"], st["params"], edges)
        errs.append(float(np.sum(np.abs(got - ref))))
        hs.append(float(np.max(np.diff(edges))))
        mid = 0.5 * (edges[:-1] + edges[1:])
        new = np.empty(2 * len(edges) - 1)
        new[0::2], new[1::2] = edges, mid
        edges = new
    total = float(np.sum(np.abs(ref_integral(st["spec"], st["params"], np.array(case["edges"])))))
    floor = 1e-11 * float(np.sum(bin_scale(st["spec"], st["params"], np.array(case["edges"]))))
    if min(errs) <= floor:
        ctx.discard("order ladder reached the rounding floor")
        return False
    # asymptotic statement: the coarsest level only checks the level-0 contents above, the slope uses the three finest
    slope = -float(np.polyfit(np.arange(3), np.log2(errs[-3:]), 1)[0])
    want = ORDER[rule]
    if abs(slope - want) <= 0.3 and abs(slope - want) > ctx.worst.get("order/%s |slope - order|" % method, 0.0):
        ctx.worst["order/%s |slope - order|" % method] = abs(slope - want)
    ctx.check(
        "order/" + method,
        abs(slope - want) <= 0.3,
        lambda: {"fitted_order": slope, "textbook_order": want, "sum_abs_bin_errors_per_level": errs, "max_width_per_level": hs, "integral": total, "family": fam, "params": st["params"], "edges": case["edges"]},
    )
    return True


def run_case(ctx, case):
    if case["kind"] == "bare":
        return run_bare(ctx, case)
    if case["kind"] == "fit":
        return run_fit(ctx, case)
    return run_order(ctx, case)


def run_shard(ctx):
    ctx.reseed_legacy()
    plan = strata_plan()
    # every shard walks the whole stratum grid once (rotated so that a short shard still covers a different part)
    off = (ctx.shard * len(plan)) // max(ctx.nshards, 1)
    plan = plan[off:] + plan[:off]
    idx = 0
    while ctx.more():
        if idx == 0:
            case = forced_fit_case(ctx.rng, ctx.tier, idx)
        elif idx <= len(plan):
            kind, fam, m, dens = plan[idx - 1]
            case = gen_valid_case(ctx.rng, ctx.tier, idx, kind=kind, fam=fam, method=m, dens=dens)
        else:
            case = gen_valid_case(ctx.rng, ctx.tier, idx)
        idx += 1
        ctx.begin_case(case)
        try:
            nontrivial = bool(run_case(ctx, case))
        except Exception:
            ctx.violation(None, "unexpected-exception", {"traceback": fmt_exc()})
            nontrivial = False
        ctx.end_case(nontrivial=nontrivial)


def replay(ctx, case):
    ctx.begin_case(case)
    try:
        run_case(ctx, case)
    except Exception:
        ctx.violation(None, "unexpected-exception", {"traceback": fmt_exc()})
    ctx.end_case(nontrivial=True)
