"""C12 — histogram filling counts every entry exactly once in half-open bins.

Shape: shadow multiset + conservation invariant (icontract class invariant + explicit quiescent check)
+ order/batching metamorphic check + rebin-equals-fresh differential check.

A case is a list of 1..3 *histories* over the same multiset of entries and the same final binning.
Every history is a constructor call (n_bins+bin_range | bin_edges | n_bins+bin_range+bin_edges |
inner edges, optionally with fill_data) followed by a word over {fill, rebin, read}.  The shadow keeps
the multiset and bins it by the literal definition (bin i iff edges[i] <= e < edges[i+1], underflow iff
e < edges[0], overflow iff e >= edges[-1]); an independent right-most-edge bisect must agree.

Oracles (all EXACT):
  * after EVERY read: data / underflow / overflow == shadow, n_entries == |multiset|,
    sorted(raw_data) == sorted multiset;
  * `conserve` read: underflow + sum(data) + overflow == number filled, the three read in any order;
  * icontract class invariant on HistContainer, evaluated before/after every public method and property
    of the live object (quiescent points only): sum of all counts == number of processed entries,
    count array / edge array shapes consistent, edges ascending;
  * explicit quiescent check after every public op: counts + pending == number filled (shadow side);
  * metamorphic: the histories of one case (other order / partition / constructor form / reads in
    between / detours over other binnings) end with identical contents;
  * after a rebin: contents == a fresh HistContainer of the new binning filled with the whole multiset.
The first divergence of a case ends the case.
"""
import bisect
import math

import numpy as np

from kafe2.fit import HistContainer
from vlib.monitor import Inconclusive, OpTimeout, fmt_exc, time_limit

PROPERTY = "C12"
TIERS = {"quick": {"shards": 8, "budget_s": 20}, "thorough": {"shards": 16, "budget_s": 300}}
RULE = (
    "1..3 histories per case over one multiset (<=200 entries: on every edge, +-1 ulp around edges, interior, midpoints, "
    "just outside, +-1e300, python ints, duplicates) and one final binning (uniform / non-uniform / repeated edges / single "
    "bin / integer edges; <=8 bins quick, <=24 thorough); each history = constructor form x <=8 fill batches (list / tuple / "
    "array / scalar / empty) x <=3 rebins x reads {data, underflow, overflow, n_entries, raw_data, conserve} placed anywhere; "
    "read discipline stratified: 'any' order, or 'data-first' (a data read precedes underflow/overflow reads after a "
    "mutation); the first cases of each shard enumerate (mutator, following read) bigrams x constructor forms x edge kinds; "
    "non-trivial = at least one entry filled that is on an edge, within 1 ulp of an edge or outside the range, and a content "
    "read compared after the last mutation; distinct by hash of the whole case"
)
ASSUMPTIONS = [
    "edges: finite, ascending (repeats allowed), at least 2 edges; inner-edge form with at least 1 inner edge",
    "entries: finite floats / python ints |v| < 2**53; batches: list, tuple, 1-d array, scalar (float, int, np.float64, 0-d array)",
    "for the n_bins+bin_range form the binning is whatever bin_edges reports (checked: n_bins+1 ascending edges from low to high, "
    "equal widths to 1e-9 of the range); C12 does not fix the rounding of computed edges",
    "the quiescent check reads the private attributes _data / _unprocessed_entries / _processed_entries / _bin_edges",
    "set_bins (manual heights) is not part of the property and is not exercised",
]
_M = "kafe2.fit.histogram.container"
ANCHORS = [
    (_M, "HistContainer._fill_unprocessed"),
    (_M, "HistContainer.fill"),
    (_M, "HistContainer.rebin"),
    (_M, "HistContainer.data"),
    (_M, "HistContainer.underflow"),
    (_M, "HistContainer.overflow"),
    (_M, "HistContainer.n_entries"),
    (_M, "HistContainer.raw_data"),
    (_M, "HistContainer.__init__"),
]

KEY_STALE = "C12/underflow-overflow-read-before-data"

READS = ["data", "underflow", "overflow", "n_entries", "raw_data", "conserve"]
MUTS = ["ctor", "ctor-fill", "fill", "fill-empty", "fill-scalar", "rebin"]
EDGE_KINDS = ["uniform", "nonuniform", "repeated", "single", "integer"]
CTOR_FORMS = ["uniform", "edges", "edges_full", "inner"]
CONTENT_OBS = ["data", "underflow", "overflow", "n_entries", "raw_data", "conservation"]
ENTRY_STRATA = [
    "entry|on-first-edge",
    "entry|on-last-edge",
    "entry|on-inner-edge",
    "entry|on-repeated-edge",
    "entry|ulp-below-edge",
    "entry|ulp-above-edge",
    "entry|underflow",
    "entry|overflow",
    "entry|far-outside",
    "entry|interior",
    "entry|int-typed",
    "entry|duplicate",
]


def floors(tier):
    q = tier == "quick"
    # quick: met with large margin already by 1 shard x 8 s; thorough: about 1/5 of what 16 shards x 300 s deliver
    n = 1500 if q else 400000
    cmp_ = {o: n for o in CONTENT_OBS}
    cmp_.update(
        {
            "invariant.total": 4 * n,
            "invariant.icontract": 8 * n,
            "metamorphic.order-batching": 300 if q else 150000,
            "rebin.fresh": 300 if q else 400000,
            "ctor.edges": 500 if q else 500000,
        }
    )
    return {
        "comparisons": cmp_,
        "ops": ["ctor.%s" % f for f in CTOR_FORMS + ["edges_of_h0"]]
        + ["fill.list", "fill.tuple", "fill.array", "fill.scalar", "fill.np_scalar", "fill.array0d", "fill.empty", "rebin"]
        + ["read.%s" % r for r in READS],
        "reach": ["%s:%s" % a for a in ANCHORS],
        "strata": ENTRY_STRATA
        + ["bigram|%s|%s" % (m, r) for m in MUTS for r in READS]
        + ["ctor|%s|%s" % (f, k) for f in CTOR_FORMS for k in EDGE_KINDS if _compatible(f, k)]
        + ["discipline|any", "discipline|data-first", "edges|all-equal", "edges|zero-width-first", "edges|zero-width-last", "edges|zero-width-inner"],
        "sets": {"op_trigrams": 400 if q else 800},
        "distinct_nontrivial": 400 if q else 100000,
    }


def _compatible(form, kind):
    if form == "uniform":
        return kind in ("uniform", "single")
    if form == "inner":
        return kind != "single"
    return True


# ------------------------------------------------------------------ contracts on the live class (attached lazily:
# after vlib.reach resolved the anchors' code objects, because icontract replaces the class attributes by wrappers)
class HistInvariantBroken(Exception):
    def __init__(self, name, state):
        Exception.__init__(self, name)
        self.name = name
        self.state = state


_INV_EVALS = [0]
_CONTRACTS = {"attached": None}


def _state(self):
    d = self.__dict__
    return {
        "_data": np.asarray(d.get("_data")).tolist() if d.get("_data") is not None else None,
        "n_processed": len(d.get("_processed_entries", ())),
        "n_unprocessed": len(d.get("_unprocessed_entries", ())),
        "_bin_edges": np.asarray(d.get("_bin_edges")).tolist() if d.get("_bin_edges") is not None else None,
    }


def hist_counts_equal_processed(self):
    """Conservation on the live object: every processed entry sits in exactly one of underflow / bins / overflow."""
    _INV_EVALS[0] += 1
    d = self.__dict__
    if d.get("_manual_heights", True) or "_processed_entries" not in d or "_data" not in d:
        return True  # under construction, or heights set by hand (outside the property)
    return float(np.sum(d["_data"])) == len(d["_processed_entries"]) and bool(np.all(np.asarray(d["_data"]) >= 0))


def hist_shapes_consistent(self):
    """underflow + one count per bin + overflow; edges ascending."""
    d = self.__dict__
    if d.get("_bin_edges") is None or d.get("_data") is None:
        return True
    e = np.asarray(d["_bin_edges"])
    return e.ndim == 1 and len(d["_data"]) == len(e) + 1 and bool(np.all(np.diff(e) >= 0))


def _err_counts(self):
    return HistInvariantBroken("counts-equal-processed", _state(self))


def _err_shapes(self):
    return HistInvariantBroken("shapes-consistent", _state(self))


def attach_contracts():
    if _CONTRACTS["attached"] is not None:
        return _CONTRACTS["attached"]
    try:
        import icontract
    except ImportError:
        _CONTRACTS["attached"] = False
        return False
    icontract.invariant(hist_counts_equal_processed, error=_err_counts)(HistContainer)
    icontract.invariant(hist_shapes_consistent, error=_err_shapes)(HistContainer)
    _CONTRACTS["attached"] = True
    return True


# ------------------------------------------------------------------ shadow
class Shadow:
    """Multiset of filled entries + literal-definition binning (cross-checked by a right-most-edge bisect)."""

    def __init__(self, edges):
        self.raw = []  # entries as filled (original python types), in fill order
        self.entries = []  # the same as floats
        self.pending = False  # a non-empty fill / a rebin of a non-empty histogram since the last `data` read
        self.rebinned = 0
        self.critical = False  # some entry is on an edge / within 1 ulp of an edge / outside the range
        self.seen = set()
        self.set_edges(edges)

    def set_edges(self, edges):
        self.edges = [float(e) for e in edges]
        if len(self.edges) < 2 or any(b < a for a, b in zip(self.edges, self.edges[1:])) or not all(math.isfinite(e) for e in self.edges):
            raise Inconclusive("generator produced an invalid edge sequence %r" % (self.edges,))
        self.u = self.o = 0
        self.counts = [0] * (len(self.edges) - 1)
        for e in self.entries:
            self._place(e)

    def _place(self, e):
        ed = self.edges
        where = []
        if e < ed[0]:
            where.append(-1)
        if e >= ed[-1]:
            where.append(len(ed))
        for i in range(len(ed) - 1):
            if ed[i] <= e < ed[i + 1]:
                where.append(i)
        k = bisect.bisect_right(ed, e)  # number of edges <= e: the right-most edge <= e is ed[k-1]
        alt = -1 if k == 0 else (len(ed) if k == len(ed) else k - 1)
        if len(where) != 1 or where[0] != alt:
            raise Inconclusive("shadow binning is inconsistent for entry %r in edges %r: %r vs %r" % (e, ed, where, alt))
        if alt == -1:
            self.u += 1
        elif alt == len(ed):
            self.o += 1
        else:
            self.counts[alt] += 1
        return alt

    def fill(self, ctx, vals):
        ed = self.edges
        for v in vals:
            f = float(v)
            if not math.isfinite(f) or float(v) != v:
                raise Inconclusive("generator produced a non-finite / inexact entry %r" % (v,))
            if f in self.seen:
                ctx.stratum("entry", "duplicate")
            self.raw.append(v)
            self.entries.append(f)
            self.seen.add(f)
            pos = self._place(f)
            # realised entry classes (coverage only)
            if isinstance(v, int):
                ctx.stratum("entry", "int-typed")
            if abs(f) >= 1e299:
                ctx.stratum("entry", "far-outside")
            if pos == -1:
                ctx.stratum("entry", "underflow")
            elif pos == len(ed):
                ctx.stratum("entry", "overflow")
            crit = pos == -1 or pos == len(ed)
            if f in ed:
                crit = True
                if f == ed[0]:
                    ctx.stratum("entry", "on-first-edge")
                if f == ed[-1]:
                    ctx.stratum("entry", "on-last-edge")
                if ed.count(f) > 1:
                    ctx.stratum("entry", "on-repeated-edge")
                if ed[0] < f < ed[-1]:
                    ctx.stratum("entry", "on-inner-edge")
            else:
                if float(np.nextafter(f, np.inf)) in ed:
                    crit = True
                    ctx.stratum("entry", "ulp-below-edge")
                elif float(np.nextafter(f, -np.inf)) in ed:
                    crit = True
                    ctx.stratum("entry", "ulp-above-edge")
                elif 0 <= pos < len(ed):
                    ctx.stratum("entry", "interior")
            if crit:
                self.critical = True
        if len(vals):
            self.pending = True

    def contents(self):
        return {"underflow": self.u, "data": list(self.counts), "overflow": self.o}


# ------------------------------------------------------------------ one history on the live object
def _container(vals, kind):
    if kind == "list":
        return list(vals)
    if kind == "tuple":
        return tuple(vals)
    if kind == "array":
        return np.array(vals) if len(vals) else np.array([], dtype=float)
    if kind == "scalar":
        return vals[0]
    if kind == "np_scalar":
        return np.float64(vals[0])
    if kind == "array0d":
        return np.array(vals[0])
    raise Inconclusive("unknown container kind %r" % (kind,))


class Diverged(Exception):
    pass


class History:
    def __init__(self, ctx, case, hi, h0):
        self.ctx = ctx
        self.case = case
        self.hi = hi
        self.spec = case["hists"][hi]
        self.h0 = h0  # summary of history 0 (None while running history 0)
        self.k = -1  # index of the op being executed (-1: constructor)
        self.kinds = ["^"]
        self.last_mut = None
        self.fresh_mut = False
        self.read_after_last_mut = False
        self.h = None
        self.sh = None

    # -- witness bookkeeping
    def trimmed(self):
        c = {k: v for k, v in self.case.items() if k != "hists"}
        hs = list(self.case["hists"][: self.hi + 1])
        last = dict(hs[-1])
        last["ops"] = list(last["ops"][: self.k + 1])
        hs[-1] = last
        c["hists"] = hs
        return c

    def verdict(self, obs, ok, detail=None, key=None):
        if ok:
            self.ctx.check(obs, True)
            return True
        if callable(detail):
            detail = detail()
        d = {"history": self.hi, "op_index": self.k, "op": self.spec["ops"][self.k] if 0 <= self.k < len(self.spec["ops"]) else ("ctor" if self.k < 0 else "final-reads")}
        d.update(detail or {})
        d["edges"] = list(self.sh.edges) if self.sh is not None else None
        self.ctx.check(obs, False, d, key, case=self.trimmed())
        raise Diverged()

    def guarded(self, fn):
        """Run one public operation of the live object; an icontract invariant breach is a witness."""
        try:
            return fn()
        except HistInvariantBroken as e:
            self.verdict("invariant.icontract", False, {"invariant": e.name, "state": e.state})

    def track(self, kind):
        self.kinds.append(kind)
        if len(self.kinds) >= 3:
            self.ctx.add_to_set("op_trigrams", ">".join(self.kinds[-3:]))

    def mutated(self, kind):
        self.last_mut = kind
        self.fresh_mut = True
        self.read_after_last_mut = False
        self.track(kind)

    def note_read(self, what):
        self.ctx.op("read.%s" % what)
        if self.fresh_mut:
            self.ctx.stratum("bigram", self.last_mut, what)
            self.fresh_mut = False
        self.track("r:" + what)

    # -- quiescent-point check on private state (after every public op)
    def quiescent(self):
        d = self.h.__dict__
        if not all(k in d for k in ("_data", "_unprocessed_entries", "_processed_entries", "_bin_edges")):
            self.ctx.note("private-state-not-found")
            return
        tot = float(np.sum(d["_data"])) + len(d["_unprocessed_entries"])
        ok = tot == len(self.sh.entries) and len(d["_processed_entries"]) + len(d["_unprocessed_entries"]) == len(self.sh.entries) and len(d["_data"]) == len(self.sh.edges) + 1
        self.verdict("invariant.total", ok, lambda: {"filled": len(self.sh.entries), "state": _state(self.h)})

    # -- constructor
    def construct(self):
        spec = self.spec["ctor"]
        form = spec["form"]
        kw = {}
        fd = spec.get("fill_data")
        if fd is not None:
            kw["fill_data"] = _container(fd, spec.get("fill_as", "list"))
        if spec.get("dtype"):
            kw["dtype"] = {"int": int, "float": float}[spec["dtype"]]
        edges = None
        if form == "uniform":
            kw["n_bins"] = spec["n_bins"]
            kw["bin_range"] = tuple(spec["bin_range"])
        else:
            if form == "edges_of_h0":
                if self.h0 is None:
                    raise Inconclusive("edges_of_h0 in history 0")
                edges = list(self.h0["edges"])
                form_eff = "edges"
            else:
                edges = list(spec["edges"])
                form_eff = form
            as_ = spec.get("edges_as", "list")
            if form_eff == "edges":
                kw["bin_edges"] = _container(edges, as_)
            elif form_eff == "edges_full":
                kw["bin_edges"] = _container(edges, as_)
                kw["n_bins"] = len(edges) - 1
                kw["bin_range"] = (edges[0], edges[-1])
            elif form_eff == "inner":
                if len(edges) < 3:
                    raise Inconclusive("inner-edge form needs at least one inner edge")
                kw["bin_edges"] = _container(edges[1:-1], as_)
                kw["n_bins"] = len(edges) - 1
                kw["bin_range"] = (edges[0], edges[-1])
            else:
                raise Inconclusive("unknown constructor form %r" % (form,))
        self.ctx.op("ctor.%s" % form)
        self.h = self.guarded(lambda: HistContainer(**kw))
        got = np.asarray(self.guarded(lambda: self.h.bin_edges), dtype=float)
        if form == "uniform":
            n, (lo, hi) = spec["n_bins"], spec["bin_range"]
            ok = got.shape == (n + 1,) and got[0] == lo and got[-1] == hi and bool(np.all(np.diff(got) >= 0))
            if ok:
                ideal = np.array([lo + (hi - lo) * i / n for i in range(n + 1)])
                ok = bool(np.all(np.abs(got - ideal) <= 1e-9 * max(abs(lo), abs(hi), abs(hi - lo))))
            self.sh = Shadow(got.tolist() if ok else [lo, hi])
            self.verdict("ctor.edges", ok, {"got": got, "n_bins": n, "bin_range": [lo, hi]})
            kind = spec.get("edge_kind", "uniform")
        else:
            self.sh = Shadow(edges)
            ok = got.shape == (len(edges),) and bool(np.array_equal(got, np.asarray(edges, dtype=float)))
            self.verdict("ctor.edges", ok, {"got": got, "expected": edges})
            kind = spec.get("edge_kind")
        if kind and form != "edges_of_h0":
            self.ctx.stratum("ctor", form, kind)
        self.edge_strata()
        if fd is not None:
            self.ctx.op("fill.%s" % ("empty" if not len(fd) else spec.get("fill_as", "list")))
            self.sh.fill(self.ctx, fd)
            self.mutated("ctor-fill")
        else:
            self.mutated("ctor")
        self.quiescent()

    def edge_strata(self):
        ed = self.sh.edges
        if ed[0] == ed[-1]:
            self.ctx.stratum("edges", "all-equal")
        else:
            if ed[0] == ed[1]:
                self.ctx.stratum("edges", "zero-width-first")
            if ed[-1] == ed[-2]:
                self.ctx.stratum("edges", "zero-width-last")
            if any(a == b and ed[0] < a < ed[-1] for a, b in zip(ed, ed[1:])):
                self.ctx.stratum("edges", "zero-width-inner")

    # -- reads
    def classify_stale(self, pending):
        """Known mechanism: underflow / overflow do not process pending entries.  Predicate: entries were pending
        (a fill / rebin since the last `data` read), and once `data` has been read all three observables agree
        with the shadow.  Anything else stays unclassified."""
        if not pending:
            return None
        try:
            d = np.asarray(self.h.data)
            u, o = self.h.underflow, self.h.overflow
            if d.shape == (len(self.sh.counts),) and np.array_equal(d, np.asarray(self.sh.counts)) and u == self.sh.u and o == self.sh.o:
                return KEY_STALE
        except Exception:
            pass
        return None

    def read(self, what, order=None):
        h, sh = self.h, self.sh
        pending = sh.pending
        self.note_read(what)
        if what == "data":
            got = self.guarded(lambda: h.data)
            sh.pending = False
            ok = isinstance(got, np.ndarray) and got.shape == (len(sh.counts),) and bool(np.array_equal(got, np.asarray(sh.counts)))
            self.verdict("data", ok, {"got": got, "expected": sh.counts, "underflow/overflow expected": [sh.u, sh.o], "entries": sh.raw if len(sh.raw) <= 40 else len(sh.raw)})
            self.read_after_last_mut = True
            if sh.rebinned:
                self.compare_fresh(got)
        elif what in ("underflow", "overflow"):
            got = self.guarded(lambda: getattr(h, what))
            exp = sh.u if what == "underflow" else sh.o
            ok = bool(np.ndim(got) == 0 and got == exp)
            self.verdict(what, ok, {"got": got, "expected": exp, "pending_entries_at_read": pending, "entries": sh.raw if len(sh.raw) <= 40 else len(sh.raw)}, key=lambda: self.classify_stale(pending))
            self.read_after_last_mut = True
        elif what == "n_entries":
            got = self.guarded(lambda: h.n_entries)
            self.verdict("n_entries", bool(np.ndim(got) == 0 and got == len(sh.entries)), {"got": got, "expected": len(sh.entries)})
        elif what == "raw_data":
            got = self.guarded(lambda: h.raw_data)
            try:
                g = sorted(float(x) for x in got)
            except Exception:
                g = None
            self.verdict("raw_data", g is not None and g == sorted(sh.entries), lambda: {"got_sorted": g, "expected_sorted": sorted(sh.entries)})
        elif what == "conserve":
            order = order or ["data", "underflow", "overflow"]
            vals = {}
            for w in order:
                vals[w] = self.guarded(lambda: getattr(h, w))
                if w == "data":
                    sh.pending = False
            tot = vals["underflow"] + np.sum(vals["data"]) + vals["overflow"]
            stale_possible = pending and order[0] != "data"
            self.verdict(
                "conservation",
                bool(tot == len(sh.entries)),
                {"order": order, "got": vals, "sum": tot, "filled": len(sh.entries), "pending_entries_at_read": pending},
                key=lambda: self.classify_stale(stale_possible),
            )
            self.read_after_last_mut = True
        else:
            raise Inconclusive("unknown read %r" % (what,))
        self.quiescent()

    def compare_fresh(self, d):
        """After a rebin: contents == fresh histogram of the new binning filled with the whole multiset."""
        h, sh = self.h, self.sh
        u, o = h.underflow, h.overflow  # everything is processed: plain reads
        f = HistContainer(bin_edges=list(sh.edges), fill_data=list(sh.raw))
        fd, fu, fo = f.data, f.underflow, f.overflow
        ok = fd.shape == d.shape and bool(np.array_equal(fd, d)) and fu == u and fo == o
        self.verdict("rebin.fresh", ok, {"rebinned": [u, d, o], "fresh": [fu, fd, fo], "entries": sh.raw if len(sh.raw) <= 40 else len(sh.raw)})

    # -- the word
    def apply(self, op):
        h, sh = self.h, self.sh
        kind = op[0]
        if kind == "fill":
            vals, cont = op[1], op[2]
            arg = _container(vals, cont)
            self.ctx.op("fill.%s" % ("empty" if not len(vals) else cont))
            self.guarded(lambda: h.fill(arg))
            sh.fill(self.ctx, vals)
            self.mutated("fill-empty" if not len(vals) else ("fill-scalar" if cont in ("scalar", "np_scalar", "array0d") else "fill"))
            self.quiescent()
        elif kind == "rebin":
            edges = op[1]
            if edges == "@h0":
                if self.h0 is None:
                    raise Inconclusive("@h0 in history 0")
                edges = list(self.h0["edges"])
            arg = _container(edges, op[2] if len(op) > 2 else "list")
            self.ctx.op("rebin")
            self.guarded(lambda: h.rebin(arg))
            sh.set_edges(edges)
            sh.rebinned += 1
            if sh.entries:
                sh.pending = True
            self.edge_strata()
            self.mutated("rebin")
            got = np.asarray(self.guarded(lambda: h.bin_edges), dtype=float)
            self.verdict("ctor.edges", got.shape == (len(sh.edges),) and bool(np.array_equal(got, np.asarray(sh.edges))), {"got": got, "expected": sh.edges})
            self.quiescent()
        elif kind == "read":
            self.read(op[1])
        elif kind == "conserve":
            self.read("conserve", list(op[1]))
        else:
            raise Inconclusive("unknown op %r" % (op,))

    def run(self):
        self.construct()
        for k, op in enumerate(self.spec["ops"]):
            self.k = k
            self.apply(op)
        self.k = len(self.spec["ops"])
        # implicit final reads (data first): every history ends fully compared
        nontrivial = self.sh.critical and self.read_after_last_mut
        for w in ("data", "underflow", "overflow", "n_entries", "raw_data"):
            self.read(w)
        out = self.sh.contents()
        out.update(edges=list(self.sh.edges), multiset=sorted(self.sh.entries), nontrivial=nontrivial, live=[self.h.underflow, self.h.data.tolist(), self.h.overflow])
        return out


def run_case(ctx, case):
    """Returns True when the case was non-trivial (see RULE)."""
    attached = attach_contracts()
    if not attached:
        ctx.note("icontract-not-available")
    ctx.stratum("discipline", case.get("discipline", "any"))
    n0 = _INV_EVALS[0]
    h0 = None
    nontrivial = False
    try:
        with time_limit(20.0):
            for hi in range(len(case["hists"])):
                hist = History(ctx, case, hi, h0)
                try:
                    res = hist.run()
                except (Diverged, Inconclusive, HistInvariantBroken):
                    raise
                except Exception:
                    ctx.violation(None, "unexpected-exception", {"history": hi, "op_index": hist.k, "traceback": fmt_exc()}, case=hist.trimmed())
                    raise Diverged()
                nontrivial = nontrivial or res["nontrivial"]
                if hi == 0:
                    h0 = res
                    continue
                if res["edges"] != h0["edges"] or res["multiset"] != h0["multiset"]:
                    ctx.discard("twin-not-comparable")  # e.g. a truncated replay case
                    continue
                ok = res["live"] == h0["live"]
                if ok:
                    ctx.check("metamorphic.order-batching", True)
                else:
                    ctx.check("metamorphic.order-batching", False, {"history": hi, "history0": h0["live"], "this": res["live"], "edges": res["edges"]})
                    break
    except Diverged:
        nontrivial = False
    except OpTimeout as e:
        ctx.violation(None, "terminates", {"what": str(e)})
        nontrivial = False
    finally:
        n = _INV_EVALS[0] - n0
        if n:
            ctx.comparisons["invariant.icontract"] = ctx.comparisons.get("invariant.icontract", 0) + n
    return nontrivial


# ------------------------------------------------------------------ generators
def _pick(rng, seq):
    return seq[int(rng.integers(0, len(seq)))]


def gen_edges(rng, kind, tier, small=False):
    """-> (edges, uniform-spec or None); python floats / ints only."""
    nbmax = 3 if small else (8 if tier == "quick" else 24)
    scale = float(_pick(rng, [1e-3, 0.1, 1.0, 1.0, 1.0, 10.0, 1e3, 1e6]))
    r = rng.random()
    if r < 0.3:
        lo = 0.0
    elif r < 0.55:
        lo = float(rng.integers(-5, 6)) * scale
    else:
        lo = float(rng.uniform(-3, 3)) * scale
    nb = 1 if kind == "single" else int(rng.integers(1, nbmax + 1))
    if kind in ("uniform", "single"):
        w = scale * float(_pick(rng, [1.0, 0.5, 2.0, 0.1, float(rng.uniform(0.1, 3))]))
        hi = lo + nb * w
        if kind == "uniform" and rng.random() < 0.04:
            hi = lo  # degenerate range: all edges equal (still an ascending sequence)
        return [float(x) for x in np.linspace(lo, hi, nb + 1)], {"n_bins": nb, "bin_range": [lo, hi]}
    if kind == "integer":
        e0 = int(rng.integers(-5, 6))
        steps = rng.integers(1, 4, size=nb)
        ed = [e0] + [int(e0 + s) for s in np.cumsum(steps)]
        if rng.random() < 0.5:
            ed = [float(e) for e in ed]
        return ed, None
    if kind == "nonuniform":
        steps = scale * (rng.exponential(1.0, size=nb) + 1e-3)
        return [lo] + [float(lo + s) for s in np.cumsum(steps)], None
    if kind == "repeated":
        n_edges = max(2, nb + 1)
        m = int(rng.integers(1, n_edges)) if rng.random() > 0.12 else 1  # distinct values (< n_edges: at least one repeat)
        steps = scale * (rng.exponential(1.0, size=m - 1) + 1e-3) if m > 1 else []
        vals = [lo] + [float(lo + s) for s in np.cumsum(steps)]
        mult = [1] * m
        style = rng.random()
        for _ in range(n_edges - m):
            if style < 0.25:
                j = 0
            elif style < 0.5:
                j = m - 1
            else:
                j = int(rng.integers(0, m))
            mult[j] += 1
            style = rng.random()
        ed = []
        for v, c in zip(vals, mult):
            ed.extend([v] * c)
        return ed, None
    raise Inconclusive("unknown edge kind %r" % (kind,))


def derive_edges(rng, old, tier, small):
    """A new binning related to the old one (so that entries stay relevant)."""
    old = [float(e) for e in old]
    style = _pick(rng, ["merge", "split", "shift", "same", "repeat", "fresh", "fresh", "widen", "narrow"])
    if style == "merge" and len(old) > 2:
        keep = [e for e in old if rng.random() < 0.5]
        if len(keep) < 2:
            keep = [old[0], old[-1]]
        return keep
    if style == "split":
        out = []
        for a, b in zip(old, old[1:]):
            out.append(a)
            if rng.random() < 0.6:
                out.append(0.5 * (a + b))
        out.append(old[-1])
        return out[:25]
    if style == "shift":
        d = (old[-1] - old[0]) / max(1, len(old) - 1) * float(rng.uniform(-1, 1))
        return [e + d for e in old]
    if style == "same":
        return list(old)
    if style == "repeat":
        out = []
        for e in old:
            out.extend([e] * (2 if rng.random() < 0.35 else 1))
        return out[:25]
    if style == "widen":
        span = (old[-1] - old[0]) or max(1.0, abs(old[0]))
        return [old[0] - span] + old + [old[-1] + span]
    if style == "narrow" and len(old) > 3:
        return old[1:-1]
    kind = _pick(rng, ["nonuniform", "repeated", "uniform", "single"])
    ed, _ = gen_edges(rng, kind, tier, small)
    # move the new binning onto the old range
    off = old[0] - ed[0] + (old[-1] - old[0]) * float(rng.uniform(-0.3, 0.6))
    ed = [e + off for e in ed]
    return sorted(ed)


def gen_entries(rng, edge_lists, n, sweep=False):
    E = sorted(set(float(e) for L in edge_lists for e in L))
    lo, hi = E[0], E[-1]
    span = (hi - lo) if hi > lo else max(1.0, abs(lo))
    out = []
    if sweep:
        for e in E:
            out += [float(np.nextafter(e, -np.inf)), e, float(np.nextafter(e, np.inf))]
        out += [-1e300, 1e300]
        out = [out[int(i)] for i in rng.permutation(len(out))][:n]
        return out
    for _ in range(n):
        r = rng.random()
        if r < 0.22:
            v = _pick(rng, E)
        elif r < 0.40:
            v = float(np.nextafter(_pick(rng, E), np.inf if rng.random() < 0.5 else -np.inf))
        elif r < 0.60:
            v = float(rng.uniform(lo, hi))
        elif r < 0.68 and len(E) > 1:
            i = int(rng.integers(0, len(E) - 1))
            v = 0.5 * (E[i] + E[i + 1])
        elif r < 0.78:
            v = lo - span * float(rng.exponential(0.3)) if rng.random() < 0.5 else hi + span * float(rng.exponential(0.3))
        elif r < 0.83:
            v = 1e300 if rng.random() < 0.5 else -1e300
        elif r < 0.92 and abs(lo) < 1e12 and abs(hi) < 1e12:
            v = int(round(float(rng.uniform(lo - 2, hi + 2))))
        elif out:
            v = _pick(rng, out)
        else:
            v = _pick(rng, E)
        out.append(v)
    return out


def partition(rng, entries, kmax=8):
    n = len(entries)
    k = int(rng.integers(1, min(kmax, n + 2) + 1))  # k > n forces empty batches, but not mostly empty ones
    cuts = sorted(int(c) for c in rng.integers(0, n + 1, size=k - 1))
    bounds = [0] + cuts + [n]
    return [entries[a:b] for a, b in zip(bounds, bounds[1:])]


def _fill_op(rng, batch):
    if len(batch) == 1 and rng.random() < 0.6:
        cont = _pick(rng, ["scalar", "np_scalar", "array0d"])
    else:
        cont = _pick(rng, ["list", "list", "tuple", "array"])
    return ["fill", list(batch), cont]


def _read_op(rng, what, discipline):
    if what == "conserve":
        order = ["data", "underflow", "overflow"]
        if discipline == "data-first":
            tail = order[1:]
            if rng.random() < 0.5:
                tail.reverse()
            order = ["data"] + tail
        else:
            order = [order[int(i)] for i in rng.permutation(3)]
        return ["conserve", order]
    return ["read", what]


def _read_block(rng, discipline, first=None, nmax=3):
    reads = []
    if first is not None:
        reads.append(first)
    n = int(_pick(rng, [0, 1, 1, 2, nmax]))
    reads += [_pick(rng, READS) for _ in range(n)]
    block = [_read_op(rng, w, discipline) for w in reads]
    if discipline == "data-first" and any(w in ("underflow", "overflow") for w in reads):
        block.insert(0, ["read", "data"])
    return block


def gen_history(rng, tier, ctor, entries, rebins, discipline, bigram=None):
    """ctor: constructor spec without fill_data; rebins: ordered list of edge lists (the last one is the final binning)."""
    ctor = dict(ctor)
    batches = partition(rng, entries)
    want_mut, want_read = bigram if bigram else (None, None)
    if want_mut == "fill-empty" and not any(len(b) == 0 for b in batches):
        batches.insert(int(rng.integers(0, len(batches) + 1)), [])
    if want_mut == "fill-scalar" and entries and not any(len(b) == 1 for b in batches):
        # split one entry off the largest batch
        j = max(range(len(batches)), key=lambda i: len(batches[i]))
        b = batches[j]
        batches[j : j + 1] = [b[:1], b[1:]]
    ctor_fill = rng.random() < 0.3
    if want_mut == "ctor-fill":
        ctor_fill = True
    elif want_mut is not None:
        ctor_fill = False
    muts = []
    for i, b in enumerate(batches):
        if i == 0 and ctor_fill:
            ctor["fill_data"] = list(b)
            ctor["fill_as"] = _pick(rng, ["list", "tuple", "array"]) if len(b) != 1 else _pick(rng, ["list", "scalar", "array"])
            continue
        op = _fill_op(rng, b)
        if want_mut == "fill-scalar" and len(b) == 1 and op[2] in ("list", "tuple", "array"):
            op[2] = _pick(rng, ["scalar", "np_scalar", "array0d"])
        muts.append(op)
    if want_mut == "fill" and not any(len(m[1]) and m[2] in ("list", "tuple", "array") for m in muts):
        for m in muts:
            if len(m[1]):
                m[2] = "list"
                break
    pos = sorted(int(p) for p in rng.integers(0, len(muts) + 1, size=len(rebins)))
    for off, (p, ed) in enumerate(zip(pos, rebins)):
        muts.insert(p + off, ["rebin", ed if ed == "@h0" else list(ed), _pick(rng, ["list", "list", "array", "tuple"])])
    # choose where the forced (mutator, read) pair is realised
    forced_at = None
    if want_mut in ("ctor", "ctor-fill"):
        forced_at = -1
    elif want_mut is not None:

        def kind_of(m):
            if m[0] == "rebin":
                return "rebin"
            if not len(m[1]):
                return "fill-empty"
            return "fill-scalar" if m[2] in ("scalar", "np_scalar", "array0d") else "fill"

        cands = [i for i, m in enumerate(muts) if kind_of(m) == want_mut]
        if cands:
            forced_at = _pick(rng, cands)
    ops = []
    ops += _read_block(rng, discipline, first=want_read if forced_at == -1 else None)
    for i, m in enumerate(muts):
        ops.append(m)
        ops += _read_block(rng, discipline, first=want_read if forced_at == i else None)
    return {"ctor": ctor, "ops": ops}


def gen_ctor(rng, form, edges, uni, kind):
    c = {"form": form, "edge_kind": kind}
    if form == "uniform":
        c["n_bins"] = uni["n_bins"]
        c["bin_range"] = list(uni["bin_range"])
    else:
        c["edges"] = list(edges)
        c["edges_as"] = _pick(rng, ["list", "list", "tuple", "array"])
    if rng.random() < 0.25:
        c["dtype"] = _pick(rng, ["int", "float"])
    return c


def gen_case(rng, tier, idx, forced=None):
    f = forced or {}
    small = f.get("small", rng.random() < 0.35)
    kind = f.get("edge_kind") or _pick(rng, EDGE_KINDS)
    form = f.get("ctor") or _pick(rng, [x for x in CTOR_FORMS if _compatible(x, kind)])
    edges0, uni = gen_edges(rng, kind, tier, small)
    if form == "inner" and len(edges0) < 3:
        edges0 = [edges0[0], 0.5 * (edges0[0] + edges0[-1]), edges0[-1]] if kind != "integer" else [edges0[0], edges0[0], edges0[-1]]
    discipline = f.get("discipline") or _pick(rng, ["any", "data-first"])
    bigram = f.get("bigram")
    n_reb = int(_pick(rng, [0, 0, 0, 1, 1, 2, 3]))
    if bigram and bigram[0] == "rebin":
        n_reb = max(1, n_reb)
    rebins = []
    cur = edges0
    for _ in range(n_reb):
        cur = derive_edges(rng, cur, tier, small)
        rebins.append(cur)
    nmax = 200
    r = rng.random()
    if small:
        n = int(rng.integers(0, 7))
    elif r < 0.7:
        n = int(rng.integers(1, 40))
    else:
        n = int(rng.integers(40, nmax + 1))
    if bigram and n < 3:
        n = 3  # the forced mutator needs something to fill
    sweep = f.get("sweep", rng.random() < 0.12)
    entries = gen_entries(rng, [edges0] + rebins, nmax if sweep else n, sweep=sweep)
    ctor0 = gen_ctor(rng, form, edges0, uni, kind)
    hists = [gen_history(rng, tier, ctor0, entries, rebins, discipline, bigram)]
    # twins: same multiset, same final binning; other order / partition / reads / constructor form / detours
    final_explicit = rebins[-1] if rebins else (None if form == "uniform" else edges0)
    n_twins = int(f.get("twins", _pick(rng, [0, 1, 1, 2])))
    for _ in range(n_twins):
        style = _pick(rng, ["perm", "perm", "reverse", "sorted", "sorted-desc", "same-order"])
        if style == "perm":
            e2 = [entries[int(i)] for i in rng.permutation(len(entries))]
        elif style == "reverse":
            e2 = entries[::-1]
        elif style == "sorted":
            e2 = sorted(entries)
        elif style == "sorted-desc":
            e2 = sorted(entries, reverse=True)
        else:
            e2 = list(entries)
        detour = rng.random() < 0.4
        final_ref = list(final_explicit) if final_explicit is not None else "@h0"
        if detour:
            # start somewhere else, come back to the final binning by rebin(s)
            k2 = _pick(rng, ["nonuniform", "repeated", "uniform", "single", "integer"])
            f2 = _pick(rng, [x for x in CTOR_FORMS if _compatible(x, k2)])
            ed2, uni2 = gen_edges(rng, k2, tier, small)
            if f2 == "inner" and len(ed2) < 3:
                f2 = "edges"
            c2 = gen_ctor(rng, f2, ed2, uni2, k2)
            reb2 = []
            if rng.random() < 0.4:
                reb2.append(derive_edges(rng, ed2, tier, small))
            reb2.append(final_ref)
        else:
            reb2 = []
            if final_explicit is None:
                if rng.random() < 0.5:
                    c2 = gen_ctor(rng, "uniform", None, uni, kind)
                else:
                    c2 = {"form": "edges_of_h0"}
            else:
                forms = [x for x in ("edges", "edges_full", "inner") if not (x == "inner" and len(final_explicit) < 3)]
                c2 = gen_ctor(rng, _pick(rng, forms), final_explicit, None, None)
                c2.pop("edge_kind", None)
        hists.append(gen_history(rng, tier, c2, e2, reb2, discipline, None))
    return {"property": "C12", "index": idx, "discipline": discipline, "hists": hists}


def stratified_plan():
    """One forced case per (mutator, following read) bigram, cycling through constructor forms x edge kinds."""
    combos = [(fo, k) for fo in CTOR_FORMS for k in EDGE_KINDS if _compatible(fo, k)]
    plan = []
    i = 0
    for m in MUTS:
        for r in READS:
            fo, k = combos[i % len(combos)]
            i += 1
            disc = "any" if (r in ("underflow", "overflow") or i % 2) else "data-first"
            plan.append({"bigram": [m, r], "ctor": fo, "edge_kind": k, "discipline": disc, "small": i % 3 != 0, "twins": i % 2, "sweep": i % 5 == 0})
    # the same bigrams once more with the data-first discipline where it is expressible, so that the stratified
    # block also contains complete (non-diverging) histories for every constructor form
    for j, (fo, k) in enumerate(combos):
        plan.append({"ctor": fo, "edge_kind": k, "discipline": "data-first", "small": j % 2 == 0, "twins": 1 + j % 2, "sweep": j % 3 == 0})
    return plan


def run_shard(ctx):
    plan = stratified_plan()
    idx = 0
    while ctx.more():
        forced = None
        if idx < 2 * len(plan):
            # shards start at different offsets so that a short run still covers the plan jointly
            forced = plan[(idx + ctx.shard * 7) % len(plan)]
        case = gen_case(ctx.rng, ctx.tier, idx, forced)
        idx += 1
        ctx.begin_case(case)
        try:
            nontrivial = run_case(ctx, case)
        except Inconclusive:
            raise
        except Exception:
            ctx.violation(None, "unexpected-exception", {"traceback": fmt_exc()})
            nontrivial = False
        ctx.end_case(nontrivial=nontrivial)


def replay(ctx, case):
    ctx.begin_case(case)
    try:
        run_case(ctx, case)
    except Inconclusive:
        raise
    except Exception:
        ctx.violation(None, "unexpected-exception", {"traceback": fmt_exc()})
    ctx.end_case(nontrivial=True)
