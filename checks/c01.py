"""C01 — the reported cost is the documented -2 ln L of exactly the declared inputs.

Shape: reference-model monitor at the observable.  Every declaration is mirrored into vlib.ref.RefFit
(plain data, no kafe2 imports); after every parameter change `fit.cost_function_value` (and
total_cov_mat / total_error / model for localisation) is compared with the documented formula
evaluated from scratch.

Multi-fits (every fourth case): 2-3 members with own sources and constraints are combined into a MultiFit;
a script declares 0-2 sources shared through MultiFit.add_error / add_matrix_error, moves the parameters,
disables / enables shared sources (through the multi-fit) and member sources (through the multi-fit or the
member), declares further sources and constraints late, and the cost is read after (almost) every step.
Reference: sum of the documented member costs, or - once a source is shared - the joint form over the chi2
members (own blocks + every enabled shared source in the diagonal and off-diagonal blocks of its members,
x part projected with the analytic slopes) + ln det V + all constraint costs + the costs of the other members.
"""
import numpy as np

from vlib import dsl, gen
from vlib.models import DENSITIES, FAMILIES, Model
from vlib.monitor import Tol, fmt_exc
from vlib.ref import COST_ALIASES, NEEDS_ERRORS, POISSON, pd_info

PROPERTY = "C01"
TIERS = {"quick": {"shards": 8, "budget_s": 35}, "thorough": {"shards": 16, "budget_s": 480}}
RULE = (
    "fit type x cost alias (every key of the three STRING_TO_COST_FUNCTION tables) x <=4 uncertainty sources "
    "(simple/matrix, abs/rel, data/model reference, x/y, corr in {0,(0,1),1}, scalar/vector/with zeros, random order, "
    "model-referenced first or only) x <=2 constraints x disable/enable x 3 parameter points; non-trivial = >=1 enabled "
    "source that is correlated, relative, on x or model-referenced, or >=1 constraint; distinct by case hash; "
    "every 4th case: MultiFit of 2-3 members (xy / indexed / histogram / unbinned, every alias without shared sources; with shared sources the sharing members are "
    "xy / indexed of equal size with a covariance-chi2 alias) with own sources (x sources on polynomials of degree <= 2) and constraints, 0-2 sources shared through "
    "MultiFit.add_error / add_matrix_error (simple with correlation / matrix, y or x, all members or a subset), then a script of 5-12 steps over "
    "{parameter point, disable / enable of a shared source through the multi-fit, of a member source through the multi-fit or the member, shared source declared "
    "late, member source declared late (through the member or MultiFit.add_error(fits=<int>)), constraint on the multi-fit or a member, do_fit}; the cost is read "
    "after every step except those marked 'noread' (20 %) and compared with the sum of the member costs / the joint form r^T V^-1 r + ln det V + constraint costs"
)
ASSUMPTIONS = [
    "parameter points are restricted to positive-definite total covariance with cond <= 1e8 (measured on the reference; others discarded and counted)",
    "Poisson-type costs only with admissible data (non-negative integer counts) and positive model values",
    "documented formulas: docstrings of kafe2/fit/_base/cost.py (Gaussian NLL = standard normal pdf; Gauss approximation V~ = V + diag(m))",
    "x-uncertainties are projected with the analytic slope; for models other than polynomials of degree <= 2 the comparison allows the analytic bound of the implementation's central-difference error (h^2/6 max|f3|, h = 0.01 sigma_x) propagated to V, sqrt(diag V) and the cost",
    "multi-fits: documented cost = sum of the member costs + constraints declared on the multi-fit; as soon as a source is shared, the chi2 members enter the joint form "
    "(own covariance blocks, every ENABLED shared source also in the blocks between its members, x part projected with the slopes of the two members, one log-determinant) "
    "and the other members keep their own cost; joint covariance positive definite with cond <= 1e6 (as C10 / C11), other points discarded and counted",
    "multi-fits: shared sources are absolute and data-referenced (relative ones and refusals are C11's workload); members that can carry x sources use polynomials of degree <= 2 "
    "(central differences exact, the common step of the joint slope is immaterial); a shared source is only toggled through the multi-fit; "
]
ANCHORS = [
    ("kafe2.fit._base.cost", "CostFunction.__call__"),
    ("kafe2.fit._base.cost", "CostFunction_Chi2._chi2"),
    ("kafe2.fit._base.cost", "CostFunction_NegLogLikelihood.nll_gaussian"),
    ("kafe2.fit._base.cost", "CostFunction_NegLogLikelihood.nll_poisson"),
    ("kafe2.fit._base.cost", "CostFunction_NegLogLikelihood.nllr_gaussian"),
    ("kafe2.fit._base.cost", "CostFunction_NegLogLikelihood.nllr_poisson"),
    ("kafe2.fit._base.cost", "CostFunction_GaussApproximation.gaussian_approximation_covariance"),
    ("kafe2.fit._base.cost", "CostFunction_GaussApproximation.gaussian_approximation_pointwise_errors"),
    ("kafe2.fit.unbinned.cost", "UnbinnedCostFunction_NegLogLikelihood.nll"),
    ("kafe2.fit._base.fit", "FitBase._on_error_change"),
    ("kafe2.fit._base.fit", "FitBase._init_cost_function"),
    ("kafe2.fit.xy.fit", "XYFit._project_cov_mat"),
    ("kafe2.fit.xy.fit", "XYFit._project_error"),
    ("kafe2.core.constraint", "GaussianSimpleParameterConstraint.cost"),
    ("kafe2.core.constraint", "GaussianMatrixParameterConstraint.cost"),
    ("kafe2.fit.util", "qr_decomposition"),
    ("kafe2.fit.util", "cholesky_decomposition"),
    ("kafe2.fit.util", "log_determinant_qr"),
    ("kafe2.fit.util", "log_determinant_cholesky"),
    ("kafe2.fit.util", "log_determinant_pointwise"),
    ("kafe2.fit.multi.fit", "MultiFit._init_shared_error_nodes"),
    ("kafe2.fit.multi.fit", "MultiFit._add_error_object"),
    ("kafe2.fit.multi.fit", "MultiFit._on_error_change"),
    ("kafe2.fit.multi.fit", "MultiFit._set_error_enabled"),
    ("kafe2.fit.multi.fit", "MultiFit.total_cov_mat"),
    ("kafe2.fit.multi.cost", "MultiCostFunction.cost_sum"),
    ("kafe2.fit.multi.cost", "SharedCostFunction.__init__"),
]

XY_ALIASES = [a for a in COST_ALIASES if a != "gauss_approximation_covariance_fast"]
BASE_ALIASES = list(COST_ALIASES)
UNBINNED_ALIASES = ["nll", "negloglikelihood", "neg_log_likelihood"]


def floors(tier):
    return {
        "comparisons": {"cost_function_value": 800, "total_cov_mat": 400, "total_error": 400, "model": 800, "sensitivity.source-matters": 300, "sensitivity.disabled-omitted": 30,
                        "multi.cost_function_value": 200, "multi.cost_function_value(sum form)": 30, "multi.cost_function_value(shared)": 150,
                        "multi.cost_function_value(shared source toggled after an evaluation)": 60, "multi.cost_function_value(x sources in the joint form)": 30, "multi.total_cov_mat": 100},
        "ops": ["add_error", "add_matrix_error", "disable_error", "enable_error", "add_parameter_constraint", "add_matrix_parameter_constraint", "set_all_parameter_values",
                "multi.set_parameter_values", "multi.add_error.shared", "multi.add_matrix_error.shared", "multi.disable_error", "multi.enable_error", "member.disable_error"],
        "reach": ["%s:%s" % a for a in ANCHORS],
        "sets": {"cost_alias_by_type": len(XY_ALIASES) + 2 * len(BASE_ALIASES) + 3, "source_features": 20, "multi_member_type_cost": 12},
        "strata": ["multi:fits=int-on-a-member-without-x-axis", "model-referenced-first", "model-referenced-only", "x-source", "disabled-source", "matrix-constraint", "other-unit", "other-unit-after-fit",
                   "multi", "multi:shared", "multi:shared-y-simple", "multi:shared-y-matrix", "multi:shared-x", "multi:two-shared", "multi:shared-source-toggled-after-an-evaluation",
                   "multi:shared-source-disabled-before-first-evaluation-enabled-after-one", "multi:shared-source-declared-after-an-evaluation",
                   "multi:member-source-declared-after-a-shared-source", "multi:member-source-toggled-through-multi-fit", "multi:member-source-toggled-through-member"],
        "distinct_nontrivial": 150,
    }


# ------------------------------------------------------------------ generation
def gen_case(rng, tier, idx, shard, nshards):
    # every fourth case of a shard is a multi-fit; the single fits keep their own running index (stratification below)
    if idx % 4 == 3:
        return gen_multi(rng, tier, idx // 4, shard, nshards)
    idx = idx - (idx + 1) // 4
    # stratified enumeration of (type, alias) first, then random
    combos = [("xy", a) for a in XY_ALIASES] + [("indexed", a) for a in BASE_ALIASES] + [("hist", a) for a in BASE_ALIASES] + [("unbinned", a) for a in UNBINNED_ALIASES]
    gi = idx * nshards + shard
    forced_stratum = None
    if gi < 6:
        # the implicit switch from the no-errors chi2 ('chi2' given, no source yet) with a model-referenced source first / only
        ftype, alias = ["xy", "indexed", "hist"][gi % 3], "chi2"
        forced_stratum = gi // 3
    elif gi < 6 + 2 * len(combos):
        ftype, alias = combos[(gi - 6) % len(combos)]
    else:
        ftype, alias = combos[int(rng.integers(0, len(combos)))]
    fid = COST_ALIASES[alias] if ftype != "unbinned" else "unbinned"
    counts = fid in POISSON
    if ftype == "xy":
        fam = str(rng.choice(["poly1", "poly2", "exponential", "gausspeak", "trig", "poly3", "logistic", "sinusoid", "lorentz"]))
        spec = gen.gen_xy_spec(rng, family=fam, cost=alias, counts=counts)
        if counts and rng.random() < 0.5:
            spec["x"] = [float(round(v)) + k for k, v in enumerate(spec["x"])]  # integer x as well
    elif ftype == "indexed":
        fam = str(rng.choice(["poly1", "poly2", "exponential", "trig", "gausspeak"]))
        spec = gen.gen_indexed_spec(rng, family=fam, cost=alias, counts=counts)
    elif ftype == "hist":
        spec = gen.gen_hist_spec(rng, cost=alias)
    else:
        spec = gen.gen_unbinned_spec(rng)
        spec["cost"] = alias
    m = Model.from_spec(spec["model"])
    n = len(spec.get("y") or spec.get("data") or spec["edges"][:-1])
    ops = []
    n_src = 0
    if ftype != "unbinned":
        # error-needing costs always get a y source that makes the total positive definite
        stratum = gi % 7 if forced_stratum is None else forced_stratum
        n_src = int(rng.integers(1, 5)) if fid in NEEDS_ERRORS else int(rng.integers(0, 3))
        yscale = float(np.mean(np.abs(spec.get("y") or spec.get("data") or [10.0])) + 0.5)
        for k in range(n_src):
            force = {}
            if k == 0 and stratum in (0, 1) and fid in NEEDS_ERRORS:
                force = {"reference": "model", "kind": "simple", "axis": "y"}  # model-referenced first (stratum 1: only)
            elif k == 0 and fid in NEEDS_ERRORS and stratum not in (0, 1):
                force = {"axis": "y"}
            op = gen.gen_source(rng, n, ftype, "e%d" % k, yscale=yscale, force=force, allow_x=(k > 0 or fid not in NEEDS_ERRORS))
            ops.append(op)
            if stratum == 1 and fid in NEEDS_ERRORS:
                break
        # disable / enable
        names = [o[1]["name"] for o in ops]
        if len(names) >= 2 and rng.random() < 0.4:
            victim = names[int(rng.integers(1, len(names)))]
            ops.append(["disable_error", victim])
            if rng.random() < 0.4:
                ops.append(["enable_error", victim])
    for _ in range(int(rng.integers(0, 3))):
        ops.append(gen.gen_constraint(rng, m.pnames, m.defaults))
    # constraints and sources in random relative order (sources keep their mutual order only partly)
    if rng.random() < 0.5:
        adds = [o for o in ops if o[0] not in ("disable_error", "enable_error")]
        rest = [o for o in ops if o[0] in ("disable_error", "enable_error")]
        perm = rng.permutation(len(adds))
        if not (adds and adds[0][0].startswith("add_") and ops and ops[0][1].get("reference") == "model"):
            adds = [adds[int(i)] for i in perm]
        ops = adds + rest
    fit_first = bool(rng.random() < 0.08 and ftype in ("xy", "indexed"))
    unit = 1.0
    if ftype in ("xy", "indexed") and not counts and fid != "unbinned" and (gi % 11 == 7 or rng.random() < 0.05):
        # the same problem in another unit of y (data, absolute y uncertainties and the unit-carrying parameters times s): which code path
        # evaluates the cost must not depend on the magnitude of the numbers; half of these cases run a fit first
        from vlib.models import UNIT_PARAMS

        unit = float(rng.choice([1e-5, 1e-4, 1e4]))
        if not any(o[0] == "add_matrix_error" and not o[1].get("relative") and gen.norm_axis(o[1].get("axis")) != "x" for o in ops):
            # correlations declared through a matrix: after scaling its elements are small (or large) numbers, not zeros
            ops.insert(len([o for o in ops if o[0] in ("add_error", "add_matrix_error")]), gen.gen_source(rng, n, ftype, "eM", yscale=yscale, force={"kind": "matrix", "axis": "y", "reference": "data", "relative": False}))
        if rng.random() < 0.6:
            # cost functions that come with a pointwise twin, and correlations declared through the matrix only: the configuration in
            # which the choice between the twins rests on the magnitude of the matrix elements alone
            spec["cost"] = str(rng.choice(["chi2", "chi2_covariance", "gauss_approximation_covariance"]))
            for op in ops:
                if op[0] == "add_error":
                    op[1]["corr"] = 0.0
        key = "y" if "y" in spec else "data"
        spec[key] = [float(v * unit) for v in spec[key]]
        up = set(UNIT_PARAMS[spec["model"]["family"]])
        spec["model"]["defaults"] = [float(d * unit) if nm in up else d for nm, d in zip(m.pnames, spec["model"]["defaults"])]
        m = Model.from_spec(spec["model"])
        for op in ops:
            a = op[1]
            if op[0] not in ("add_error", "add_matrix_error") or a.get("relative") or gen.norm_axis(a.get("axis")) == "x":
                continue
            if op[0] == "add_error":
                a["err"] = [float(v * unit) for v in a["err"]] if isinstance(a["err"], list) else float(a["err"] * unit)
            elif a["matrix_type"] == "cov":
                a["matrix"] = (np.array(a["matrix"], dtype=float) * unit * unit).tolist()
            else:
                a["err_val"] = [float(v * unit) for v in a["err_val"]] if isinstance(a["err_val"], list) else float(a["err_val"] * unit)
        # constraints were drawn around the old defaults: draw them again
        ops = [o for o in ops if o[0] not in ("add_parameter_constraint", "add_matrix_parameter_constraint")]
        for _ in range(int(rng.integers(0, 2))):
            ops.append(gen.gen_constraint(rng, m.pnames, m.defaults))
        fit_first = bool(rng.random() < 0.5)
    points = [gen.perturbed_params(rng, m, 0.12) for _ in range(3)]
    return {"property": "C01", "unit": unit, "spec": spec, "ops": ops, "points": points, "fit_first": fit_first}


# ------------------------------------------------------------------ generation: multi-fits
CHI2_COV = sorted(a for a, f in COST_ALIASES.items() if f == "chi2_cov")
MULTI_MODES = ["sum", "shared-toggled-after-read", "shared-disabled-before-first-read", "two-shared", "shared-x", "member-source-after-shared", "shared-after-read", "mixed"]


def spec_n(spec):
    return len(spec.get("y") or spec.get("data") or spec["edges"][:-1])


def gen_member(rng, ftype, cost, prefix, n=None, x_ok=False, nsrc=None):
    """one member fit: spec + own sources (first one on y, data-referenced; x sources only for polynomials of degree <= 2) + 0-1 own constraint"""
    fid = COST_ALIASES[cost] if ftype != "unbinned" else "unbinned"
    counts = fid in POISSON
    if ftype in ("xy", "indexed"):
        fam = str(rng.choice(["poly1", "poly2"] if (x_ok and ftype == "xy") else ["poly1", "poly2", "exponential", "trig", "gausspeak"]))
        mk = gen.gen_xy_spec if ftype == "xy" else gen.gen_indexed_spec
        spec = mk(rng, family=fam, cost=cost, counts=counts, n=n or int(rng.integers(5, 10)))
    elif ftype == "hist":
        spec = gen.gen_hist_spec(rng, cost=cost, n_bins=int(rng.integers(4, 8)))
    else:
        spec = gen.gen_unbinned_spec(rng, n=int(rng.integers(8, 30)))
        spec["cost"] = cost
    nn = spec_n(spec) if ftype != "unbinned" else 0
    ops = []
    if ftype != "unbinned" and fid not in ("nll_poisson", "nllr_poisson", "chi2_noerr"):
        if nsrc is None:
            nsrc = int(rng.integers(1, 4)) if fid in NEEDS_ERRORS else int(rng.integers(0, 3))
        yscale = float(np.mean(np.abs(spec.get("y") or spec.get("data") or [10.0])) + 0.5)
        for k in range(nsrc):
            force = {"axis": "y", "reference": "data"} if k == 0 else {}
            ops.append(gen.gen_source(rng, nn, ftype, "%se%d" % (prefix, k), yscale=yscale, force=force, allow_x=bool(x_ok and k > 0), allow_model=ftype in ("xy", "indexed")))
    m = Model.from_spec(spec["model"])
    if rng.random() < 0.35:
        ops.append(gen.gen_constraint(rng, m.pnames, m.defaults))
    return {"spec": spec, "setup": ops}


def gen_multi(rng, tier, k, shard, nshards):
    """MultiFit of 2-3 members + a script of declarations / toggles / parameter points; the cost is read after every step that is not
    marked 'noread'.  The first 2 x len(MULTI_MODES) multi-fits of every shard enumerate the modes, afterwards they are drawn."""
    strat = k < 2 * len(MULTI_MODES)
    mode = MULTI_MODES[k % len(MULTI_MODES)] if strat else str(rng.choice(MULTI_MODES))
    sub = int((k // len(MULTI_MODES) + shard) % 2) if strat else int(rng.integers(0, 2))
    nm = 3 if mode == "two-shared" else int(rng.integers(2, 4))
    shared_axes = {"sum": [], "shared-toggled-after-read": ["y"], "shared-disabled-before-first-read": ["y"], "two-shared": ["y", "y"], "shared-x": ["x"] + (["y"] if sub else []),
                   "member-source-after-shared": ["y"], "shared-after-read": ["x" if sub == 0 else "y"],
                   "mixed": [str(rng.choice(["x", "y"], p=[0.3, 0.7])) for _ in range(int(rng.integers(0, 3)))]}[mode]
    late_axis = None
    if mode == "member-source-after-shared":
        late_axis = "x" if sub == 0 else "y"
    elif mode in ("sum", "mixed") and rng.random() < 0.4:
        late_axis = str(rng.choice(["x", "y"]))
    any_x = "x" in shared_axes or late_axis == "x" or mode in ("shared-x", "mixed", "sum")
    own_x = mode == "shared-x" or (mode in ("mixed", "sum") and rng.random() < 0.5)
    # ---- members
    S = []
    if shared_axes:
        S = sorted(int(i) for i in rng.choice(nm, size=nm if mode == "two-shared" else int(rng.integers(2, nm + 1)), replace=False))
    n_s = int(rng.integers(5, 10))
    late_member = int(rng.choice(S)) if (S and late_axis) else (int(rng.integers(0, nm)) if late_axis else None)
    members = []
    for j in range(nm):
        need_xy = (j in S and "x" in shared_axes) or (j == late_member and late_axis == "x")
        if j in S:
            ftype, cost = ("xy" if need_xy else str(rng.choice(["xy", "indexed"], p=[0.6, 0.4]))), str(rng.choice(CHI2_COV))
            nsrc = int(rng.integers(1, 4))
        elif shared_axes:
            # beside the sharing members: any type; Gaussian ones with the covariance chi2 (every chi2 member enters the joint form with its full matrix)
            ftype = "xy" if need_xy else str(rng.choice(["xy", "indexed", "hist", "unbinned"], p=[0.4, 0.3, 0.2, 0.1]))
            if ftype == "unbinned":
                cost = str(rng.choice(UNBINNED_ALIASES))
            elif ftype == "hist":
                cost = str(rng.choice(["nll_poisson", "nllr_poisson", "gauss_approximation", "chi2"], p=[0.4, 0.2, 0.2, 0.2]))
            else:
                cost = str(rng.choice(CHI2_COV)) if rng.random() < 0.45 else str(rng.choice(["nll_gaussian", "nllr_gaussian", "nll_poisson", "nllr_poisson", "gauss_approximation", "gauss_approximation_pointwise"]))
            nsrc = int(rng.integers(1, 3)) if COST_ALIASES.get(cost) == "chi2_cov" else None
        else:
            # no shared source: documented cost = sum of the member costs, every type and alias
            ftype = "xy" if need_xy else str(rng.choice(["xy", "indexed", "hist", "unbinned"], p=[0.4, 0.3, 0.2, 0.1]))
            cost = str(rng.choice({"xy": XY_ALIASES, "indexed": BASE_ALIASES, "hist": BASE_ALIASES, "unbinned": UNBINNED_ALIASES}[ftype]))
            nsrc = None
            if cost == "chi2" and j == late_member and rng.random() < 0.5:
                nsrc = 0  # receives its first source after the multi-fit was built (implicit switch away from the no-errors chi2)
        members.append(gen_member(rng, ftype, cost, "m%d" % j, n=n_s if j in S else None, x_ok=bool(ftype == "xy" and (need_xy or (own_x and any_x))), nsrc=nsrc))
    # ---- parameter names in order of first appearance, start values
    names, vals, mem = [], {}, []
    for j, mb in enumerate(members):
        m = Model.from_spec(mb["spec"]["model"])
        mem.append(list(m.pnames))
        for nme, v in zip(m.pnames, m.defaults):
            if nme not in names:
                names.append(nme)
                vals[nme] = float(v)

    def near():
        pick = names if rng.random() < 0.6 else [names[int(i)] for i in rng.choice(len(names), size=int(rng.integers(1, len(names) + 1)), replace=False)]
        return {n: float(np.round(vals[n] * (1.0 + rng.uniform(-0.12, 0.12)) + rng.uniform(-0.02, 0.02), 6)) for n in pick}

    # ---- declared sources: name -> owner ("shared" or member index), enabled flag
    owner, enabled, first = {}, {}, set()
    for j, mb in enumerate(members):
        srcs = [o[1]["name"] for o in mb["setup"] if o[0] in ("add_error", "add_matrix_error")]
        for i, nme in enumerate(srcs):
            owner[nme], enabled[nme] = j, True
            if i == 0:
                first.add(nme)

    def shared_op(i, axis):
        sub_s = list(S) if (i == 0 or len(S) < 3) else [S[0], S[-1]]
        if axis == "x":
            sub_s = [j for j in sub_s if members[j]["spec"]["type"] == "xy"]
        kind = ["simple", "matrix"][(sub + i) % 2] if strat else str(rng.choice(["simple", "matrix"]))
        force = {"axis": axis, "kind": kind, "relative": False, "reference": "data"}
        if kind == "simple":
            force["corr"] = float(np.round(rng.uniform(0.1, 0.9), 3)) if rng.random() < 0.7 else float(rng.choice([0.0, 1.0]))
        yscale = float(np.mean([np.mean(np.abs(members[j]["spec"].get("y") or members[j]["spec"].get("data"))) for j in sub_s]) + 0.5)
        op = gen.gen_source(rng, n_s, "xy", "sh%d" % i, yscale=yscale, force=force, allow_model=False)
        a = dict(op[1])
        has_xy = any(members[j]["spec"]["type"] == "xy" for j in sub_s)
        a["axis"] = axis if (has_xy or rng.random() < 0.5) else None
        a["fits"] = "all" if (len(sub_s) == nm and rng.random() < 0.3) else (sub_s[::-1] if rng.random() < 0.2 else sub_s)
        return {"op": "shared", "add": [op[0], a]}

    def member_source_op():
        j = late_member
        sp = members[j]["spec"]
        if sp["type"] == "unbinned" or COST_ALIASES.get(sp["cost"]) in ("nll_poisson", "nllr_poisson"):
            return None
        yscale = float(np.mean(np.abs(sp.get("y") or sp.get("data") or [10.0])) + 0.5)
        force = {"reference": "data"}
        if sp["type"] == "xy":
            force["axis"] = late_axis if (late_axis == "y" or Model.from_spec(sp["model"]).family in ("poly1", "poly2")) else "y"
        op = gen.gen_source(rng, spec_n(sp), sp["type"], "m%dlate" % j, yscale=yscale, force=force, allow_model=False)
        return {"op": "member_source", "member": j, "via": str(rng.choice(["member", "multi"])), "add": op}

    def declare(step):
        if step["op"] == "shared":
            owner[step["add"][1]["name"]], enabled[step["add"][1]["name"]] = "shared", True
        elif step["op"] == "member_source":
            owner[step["add"][1]["name"]], enabled[step["add"][1]["name"]] = step["member"], True

    def toggle(name=None, prefer_shared=False):
        pool = sorted(owner)
        if not pool:
            return None
        if name is None:
            w = np.array([(6.0 if prefer_shared else 3.0) if owner[n] == "shared" else (0.4 if n in first else 2.0) for n in pool])
            name = pool[int(rng.choice(len(pool), p=w / w.sum()))]
        enabled[name] = not enabled[name]
        via = "multi" if (owner[name] == "shared" or rng.random() < 0.5) else owner[name]
        return {"op": "toggle", "what": "enable_error" if enabled[name] else "disable_error", "name": name, "via": via}

    def constraint():
        if rng.random() < 0.5:
            return {"op": "constraint", "on": "multi", "add": gen.gen_constraint(rng, names, [vals[n] for n in names])}
        j = int(rng.integers(0, nm))
        return {"op": "constraint", "on": j, "add": gen.gen_constraint(rng, mem[j], [vals[n] for n in mem[j]])}

    def tail(length, pending=(), prefer_shared=False):
        out, pending = [], list(pending)
        slots = sorted(int(i) for i in rng.choice(length, size=min(len(pending), length), replace=False)) if pending else []
        for i in range(length):
            if slots and i == slots[0]:
                slots.pop(0)
                st = pending.pop(0)
                declare(st)
                out.append(st)
                continue
            r = rng.random()
            st = None
            if r < 0.36:
                st = {"op": "set", "values": near()}
            elif r < 0.76:
                st = toggle(prefer_shared=prefer_shared)
            elif r < 0.86:
                st = constraint()
            else:
                st = {"op": "read"}
            if st is not None:
                if st["op"] != "read" and rng.random() < 0.2:
                    st["noread"] = True
                out.append(st)
        return out

    sh = [shared_op(i, ax) for i, ax in enumerate(shared_axes)]
    late = member_source_op() if late_axis else None
    script = []

    def put(st, noread=False):
        if st is None:
            return
        declare(st)
        if noread:
            st["noread"] = True
        script.append(st)

    if mode == "shared-toggled-after-read":
        put(sh[0])
        put({"op": "set", "values": near()})
        put(toggle("sh0"))
        if rng.random() < 0.5:
            put({"op": "set", "values": near()})
        put(toggle("sh0"))
        script += tail(int(rng.integers(2, 6)), prefer_shared=True)
    elif mode == "shared-disabled-before-first-read":
        put(sh[0], noread=True)
        put(toggle("sh0"), noread=True)
        put({"op": "set", "values": near()})
        put(toggle("sh0"))
        script += tail(int(rng.integers(2, 6)), prefer_shared=True)
    elif mode == "two-shared":
        put(sh[0], noread=bool(rng.random() < 0.5))
        script += tail(int(rng.integers(6, 10)), pending=[sh[1]], prefer_shared=True)
    elif mode == "shared-x":
        put(sh[0], noread=True)  # before the first evaluation
        script += tail(int(rng.integers(5, 9)), pending=sh[1:], prefer_shared=True)
    elif mode == "member-source-after-shared":
        put(sh[0], noread=bool(rng.random() < 0.3))
        put({"op": "set", "values": near()})
        put(late)
        if rng.random() < 0.5:
            put({"op": "set", "values": near()})
        script += tail(int(rng.integers(2, 6)))
    elif mode == "shared-after-read":
        put({"op": "set", "values": near()})
        if rng.random() < 0.5:
            put(toggle())
        put(sh[0])
        put({"op": "read"})
        put({"op": "set", "values": near()})
        script += tail(int(rng.integers(2, 6)), prefer_shared=True)
    else:  # sum / mixed
        script += tail(int(rng.integers(6, 11)), pending=sh + ([late] if late else []))
    if mode == "mixed" and rng.random() < 0.5:
        script.append({"op": "do_fit"})
        st = toggle(prefer_shared=True)
        if st is not None:
            script.append(st)
    start = {n: float(np.round(vals[n] * (1.0 + rng.uniform(-0.1, 0.1)) + rng.uniform(-0.02, 0.02), 6)) for n in names}
    return {"property": "C01", "kind": "multi", "mode": mode, "members": members, "start": start, "script": script, "minimizer": "iminuit"}


# ------------------------------------------------------------------ execution + oracle
def classify(case, ref, observable, extra=None):
    """Mechanism keys of open findings: predicate over the declared configuration + explain-check
    (the observed value must equal the reference evaluated under the finding's alternative semantics)."""
    try:
        spec = case["spec"]
        if ref is None or extra is None:
            return None
        if spec["type"] == "hist" and spec.get("density", True) and any(s["enabled"] and s["relative"] and s["reference"] == "model" for s in ref.sources):
            ref.hist_model_ref_unscaled = True
            try:
                alt = extra["alt"]()
            finally:
                ref.hist_model_ref_unscaled = False
            from vlib.monitor import allclose

            if allclose(extra["got"], alt, 1e-9, 1e-12, scale=extra.get("scale")):
                return "C01/hist-model-relative-source-refers-to-density-integral-not-N-times-integral"
            # the alternative covariance is often ill-conditioned (sigma too small by N): the cost computed from it is
            # then numerically unstable, so confirm the mechanism on the covariance matrix itself
            fit = extra.get("fit")
            if fit is not None and observable == "cost_function_value":
                ref.hist_model_ref_unscaled = True
                try:
                    Valt = ref.total_cov()
                finally:
                    ref.hist_model_ref_unscaled = False
                if allclose(np.array(fit.total_cov_mat), Valt, 1e-9, 1e-300, scale=np.abs(Valt).max()):
                    return "C01/hist-model-relative-source-refers-to-density-integral-not-N-times-integral"
    except Exception:
        return None
    return None


def features(ctx, ref, case):
    nontrivial = False
    first = True
    for s in ref.sources:
        feats = [s["kind"], "rel" if s["relative"] else "abs", s["reference"], gen.norm_axis(s.get("axis")) or "-", "on" if s["enabled"] else "off"]
        if s["kind"] == "simple":
            c = s.get("corr", 0)
            feats.append("corr0" if c == 0 else ("corr1" if c == 1 else "corrp"))
            feats.append("scalar" if np.ndim(s["err"]) == 0 else ("zeros" if 0.0 in list(s["err"]) else "vec"))
        else:
            feats.append(s["matrix_type"])
        ctx.add_to_set("source_features", "/".join(feats))
        if s["enabled"] and (s["relative"] or s["reference"] == "model" or gen.norm_axis(s.get("axis")) == "x" or s["kind"] == "matrix" or s.get("corr", 0) > 0):
            nontrivial = True
        if first and s["reference"] == "model":
            ctx.stratum("model-referenced-first")
            if len(ref.sources) == 1:
                ctx.stratum("model-referenced-only")
        first = False
        if gen.norm_axis(s.get("axis")) == "x":
            ctx.stratum("x-source")
        if not s["enabled"]:
            ctx.stratum("disabled-source")
    for c in ref.constraints:
        nontrivial = True
        if c["kind"] == "matrix":
            ctx.stratum("matrix-constraint")
    return nontrivial


def run_case(ctx, case):
    if case.get("kind") == "multi":
        ctx.reseed_legacy()
        return run_multi(ctx, case)
    spec = case["spec"]
    ctx.reseed_legacy()
    fit = dsl.build_fit(spec)
    ref = dsl.new_ref(spec)
    ctx.add_to_set("cost_alias_by_type", "%s:%s" % (spec["type"], spec["cost"]))
    for op in case["ops"]:
        ctx.op(op[0])
        # normalise axis spelling for the reference
        rop = op
        if op[0] in ("add_error", "add_matrix_error") and spec["type"] == "xy":
            rop = [op[0], dict(op[1], axis=gen.norm_axis(op[1]["axis"]))]
        dsl.apply_live(fit, spec, op)
        dsl.apply_ref(ref, spec, rop)
    nontrivial = features(ctx, ref, case)
    if case.get("unit", 1.0) != 1.0:
        ctx.stratum("other-unit")
        if case.get("fit_first"):
            ctx.stratum("other-unit-after-fit")
    fid = ref.fid if spec["type"] != "unbinned" else "unbinned"
    # documented implicit switch: 'chi2' without any declared source is the no-errors chi2
    if spec["cost"] == "chi2" and not ref.sources:
        fid = "chi2_noerr"
    if case.get("fit_first"):
        try:
            fit.do_fit()
            ctx.op("do_fit")
        except Exception:
            ctx.violation(classify(case, ref, "do_fit"), "do_fit.no-exception", {"traceback": fmt_exc()})
            return nontrivial
    xproj_loose = spec["type"] == "xy" and ref.has_x_source() and spec["model"]["family"] not in ("poly0", "poly1", "poly2")
    tol = Tol.LINALG
    for p in case["points"]:
        ctx.op("set_all_parameter_values")
        dsl.apply_live(fit, spec, ["set_all_parameter_values", p])
        dsl.apply_ref(ref, spec, ["set_all_parameter_values", p])
        mvals = ref.model_values()
        if not np.all(np.isfinite(mvals)):
            ctx.discard("model-not-finite")
            continue
        needs_V = fid in NEEDS_ERRORS or fid in ("ga_cov", "ga_pw")
        V = ref.total_cov() if spec["type"] != "unbinned" else None
        if fid in NEEDS_ERRORS:
            ok, cond = pd_info(V)
            if not ok or cond > 1e8:
                ctx.discard("total-cov-not-pd-or-ill-conditioned")
                continue
            if fid in ("chi2_pw", "nll_gauss", "nllr_gauss") and np.any(np.diag(V) <= 0):
                ctx.discard("zero-pointwise-error")
                continue
        if fid in POISSON or fid == "unbinned":
            if np.any(mvals <= 0):
                ctx.discard("model-not-positive")
                continue
        if fid in ("ga_cov", "ga_pw"):
            ok, cond = pd_info(V + np.diag(mvals))
            if not ok or cond > 1e8:
                ctx.discard("ga-cov-not-pd")
                continue
        exp = ref.cost_value(fid=fid if fid != "unbinned" else None)
        tol = Tol.LINALG
        cov_atol = err_atol = 0.0
        if xproj_loose:
            # the implementation projects x uncertainties with a central-difference slope (step 0.01 sigma_x); bound its
            # effect analytically: |delta g| <= h^2/6 max|f3|, propagated to V, sqrt(diag V) and (by re-evaluation of the
            # reference with perturbed slopes) to the cost
            dg = ref.slope_fd_error_bound()
            g = ref.slope()
            Vx = np.abs(ref.axis_cov("x"))
            dV = Vx * (np.outer(np.abs(g), dg) + np.outer(dg, np.abs(g)) + np.outer(dg, dg))
            cov_atol = dV
            err_atol = np.diag(dV) / (2.0 * np.sqrt(np.maximum(np.diag(V), 1e-300)))
            # first-order bound: sum_i |cost(g + dg_i e_i) - cost| (each direction separately), factor 2 for second order
            dev = 0.0
            for i in range(len(g)):
                if dg[i] == 0.0:
                    continue
                e = np.zeros(len(g))
                e[i] = dg[i]
                for sgn in (1.0, -1.0):
                    ref.slope_delta = sgn * e
                    try:
                        dev += 0.5 * abs(ref.cost_value(fid=fid) - exp)
                    except Exception:
                        pass
                    finally:
                        ref.slope_delta = None
            tol = Tol.custom("XPROJ", 1e-9, 1e-12 + 2.0 * dev)
        # scale for the tolerance: sum of |terms|
        scale = abs(exp) + abs(ref.constraint_cost()) + (abs(ref.logdet()) if (fid in ("chi2_cov", "chi2_pw") and V is not None) else 0.0) + 1.0
        try:
            got = float(fit.cost_function_value)
        except Exception:
            ctx.violation(classify(case, ref, "cost_function_value"), "cost_function_value.no-exception", {"traceback": fmt_exc(), "point": p, "fid": fid})
            return nontrivial
        okc = ctx.close(
            "cost_function_value", got, exp, tol=tol, scale=scale, detail={"point": p, "fid": fid},
            key=lambda: classify(case, ref, "cost_function_value", {"got": got, "scale": scale, "fit": fit, "alt": lambda: ref.cost_value(fid=fid if fid != "unbinned" else None)}),
        )
        # localisation observables
        try:
            if spec["type"] == "xy":
                ctx.close("model", np.array(fit.y_model), mvals, tol=Tol.LINALG, key=lambda: classify(case, ref, "model"))
            else:
                ctx.close("model", np.array(fit.model), mvals, tol=Tol.LINALG, key=lambda: classify(case, ref, "model"))
            if spec["type"] != "unbinned" and ref.sources:
                tc = fit.total_cov_mat
                if tc is not None:
                    te = np.array(fit.total_error)
                    ctx.close("total_cov_mat", np.array(tc) - np.clip(np.array(tc) - V, -cov_atol, cov_atol), V, tol=Tol.LINALG, scale=np.abs(V).max() + 1e-300, detail={"point": p, "raw_got": np.array(tc)},
                              key=lambda: classify(case, ref, "total_cov_mat", {"got": np.array(tc), "alt": lambda: ref.total_cov()}))
                    ctx.close("total_error", te - np.clip(te - np.sqrt(np.diag(V)), -err_atol, err_atol), np.sqrt(np.diag(V)), tol=Tol.LINALG, scale=np.sqrt(np.abs(V).max()) + 1e-300, detail={"point": p, "raw_got": te},
                              key=lambda: classify(case, ref, "total_error", {"got": te, "alt": lambda: np.sqrt(np.diag(ref.total_cov()))}))
        except Exception:
            ctx.violation(classify(case, ref, "localisation"), "observables.no-exception", {"traceback": fmt_exc(), "point": p})
            return nontrivial
        if not okc:
            return nontrivial
        # sensitivity: every enabled source of non-zero size changes the reference cost, every disabled one does not enter
        if needs_V:
            for s in ref.sources:
                saved = s["enabled"]
                s["enabled"] = not saved
                try:
                    V2 = ref.total_cov()
                    okpd, _ = pd_info(V2 + (np.diag(mvals) if fid in ("ga_cov", "ga_pw") else 0.0))
                    if okpd or fid not in ("chi2_cov", "ga_cov"):
                        alt = ref.cost_value(fid=fid)
                        if saved:
                            ctx.check("sensitivity.source-matters", True)
                            if abs(alt - exp) > 1e-6 * scale:
                                ctx.note("sources-proven-not-ignored")
                        else:
                            ctx.check("sensitivity.disabled-omitted", True)
                            if abs(alt - exp) > 1e-6 * scale:
                                ctx.note("disabled-sources-proven-omitted")
                except Exception:
                    pass
                finally:
                    s["enabled"] = saved
    return nontrivial


# ------------------------------------------------------------------ multi-fits: execution + oracle
K_MEMBER_X = "C01/multifit-x-source-declared-or-enabled-through-member-after-first-shared-source-is-ignored"
K_STALE_SLOPE = "C01/multifit-x-sources-arriving-through-multifit-are-ignored-until-a-parameter-moves"


def _arr(v):
    return np.array(v, dtype=float) if isinstance(v, (list, tuple)) else v


class MultiWorld:
    """declared state of a multi-fit: member references (vlib.ref.RefFit), shared sources, constraints declared on the multi-fit, parameter values by name"""

    def __init__(self, members, names):
        self.members, self.names = members, names
        self.values = {}
        self.shared = []  # {"src": reference source (the same dict sits in the source list of every sharing member), "fits": [...], "axis": "x"/"y"}
        self.multi_constraints = []
        # bookkeeping for strata / classification
        self.reads = 0
        self.x_through_member = False  # an x source was declared / enabled through a member while sources are shared
        self.sets_since_multi_error_change = 0

    def push(self):
        for mb in self.members:
            mb.ref.p = np.array([self.values[n] for n in mb.ref.model.pnames], dtype=float)

    def pvec(self):
        return np.array([self.values[n] for n in self.names], dtype=float)

    def chi2_members(self):
        from vlib.ref import IS_CHI2

        return [i for i, mb in enumerate(self.members) if mb.fid in IS_CHI2]

    def enabled_x(self):
        return any(s["enabled"] and s.get("axis") == "x" and np.any(np.asarray(s.get("err", 1.0), dtype=float) != 0) for i in self.chi2_members() for s in self.members[i].ref.sources)

    def joint(self, x_part=True):
        """joint covariance / residuals of the chi2 members: own blocks, every enabled shared source also in the blocks between its members;
        x part projected with the analytic slopes of the two members concerned"""
        from vlib.ref import source_cov

        chi = self.chi2_members()
        off, o = {}, 0
        for i in chi:
            off[i] = o
            o += self.members[i].ref.n
        Vy, Vx, g, r = np.zeros((o, o)), np.zeros((o, o)), np.zeros(o), np.zeros(o)
        for i in chi:
            ref = self.members[i].ref
            sl = slice(off[i], off[i] + ref.n)
            Vy[sl, sl] = ref.axis_cov("y")
            if ref.type == "xy":
                Vx[sl, sl] = ref.axis_cov("x")
                g[sl] = ref.slope()
            r[sl] = ref.d - ref.model_values()
        for s in self.shared:
            if not s["src"]["enabled"]:
                continue
            for a in s["fits"]:
                for b in s["fits"]:
                    if a != b:
                        ra, rb = self.members[a].ref, self.members[b].ref
                        (Vx if s["axis"] == "x" else Vy)[off[a] : off[a] + ra.n, off[b] : off[b] + rb.n] += source_cov(s["src"], ra.ref_values(s["src"], ra.p))
        V = Vy + Vx * np.outer(g, g) if x_part else Vy
        return V, r, chi

    def expected(self, x_part=True):
        """(documented cost, scale, details) or (None, reason)"""
        from vlib.ref import constraint_cost

        self.push()
        mcc = float(sum(constraint_cost(c, self.pvec()) for c in self.multi_constraints))
        members = self.members
        if not self.shared:
            if not all(mb.admissible() for mb in members):
                return None, "configuration-not-admissible"
            parts = [mb.cost() for mb in members]
            nodet = [mb.cost(with_logdet=False) for mb in members]
            scale = sum(abs(a) + abs(c - a) for c, a in zip(parts, nodet)) + sum(abs(mb.ref.constraint_cost()) for mb in members) + abs(mcc) + 1.0
            return float(sum(parts)) + mcc, scale, {"form": "sum of the member costs", "member_costs": parts, "multi_constraint_cost": mcc}
        chi = self.chi2_members()
        rest = [i for i in range(len(members)) if i not in chi]
        if not all(members[i].admissible() for i in rest) or not all(np.all(np.isfinite(members[i].ref.model_values())) for i in chi):
            return None, "configuration-not-admissible"
        V, r, chi = self.joint(x_part)
        okV, cond = pd_info(V)
        if not okV or cond > 1e6:
            return None, "joint-covariance-not-pd-or-ill-conditioned"
        chi2 = float(r @ np.linalg.solve(V, r))
        logdet = float(np.linalg.slogdet(V)[1])
        con = float(sum(members[i].ref.constraint_cost() for i in chi))
        others = [members[i].cost() for i in rest]
        onodet = [members[i].cost(with_logdet=False) for i in rest]
        scale = abs(chi2) + abs(logdet) + abs(con) + sum(abs(a) + abs(c - a) for c, a in zip(others, onodet)) + abs(mcc) + 1.0
        d = {"form": "joint", "chi2": chi2, "logdet": logdet, "constraint_cost_of_chi2_members": con, "cost_of_other_members": others, "multi_constraint_cost": mcc, "cond": cond, "V": V}
        return chi2 + logdet + con + float(sum(others)) + mcc, scale, d


def classify_multi(W, multi, got, scale):
    """Open findings of the shared-source code of MultiFit, both about x uncertainties.  Explain-check: the reported cost equals the documented cost
    with the x part of the joint covariance left out; the mechanism is told apart by the live switch of the x part (MultiFit._min_x_error)."""
    try:
        from vlib.monitor import allclose

        if not W.shared or not W.enabled_x():
            return None
        alt = W.expected(x_part=False)
        if got is None or alt[0] is None or not allclose(got, alt[0], 1e-9, 1e-12, scale=scale):
            # without its x part the covariance may be singular (the cost computed from it is numerically meaningless):
            # confirm the mechanism on the combined covariance matrix itself
            W.push()
            Valt = W.joint(x_part=False)[0]
            got_V = np.array(multi.total_cov_mat, dtype=float)
            if got_V.shape != Valt.shape or not allclose(got_V, Valt, 1e-9, 1e-300, scale=float(np.abs(Valt).max())):
                return None
        if getattr(multi, "_min_x_error", 0.0) is None:
            return K_MEMBER_X if W.x_through_member else None
        return K_STALE_SLOPE if W.sets_since_multi_error_change == 0 else None
    except Exception:
        return None


def run_multi(ctx, case):
    from kafe2.fit import MultiFit

    from vlib.fitcase import Member
    from vlib.monitor import OpTimeout, numerical_failure, time_limit
    from vlib.ref import IS_CHI2

    ctx.stratum("multi")
    members = [Member(m["spec"], m["setup"], minimizer=case.get("minimizer")) for m in case["members"]]
    for mb in members:
        ctx.add_to_set("multi_member_type_cost", "%s:%s" % (mb.spec["type"], mb.spec.get("cost")))
    for m in case["members"]:
        for op in m["setup"]:
            ctx.op("member." + op[0])
    multi = MultiFit([mb.fit for mb in members], minimizer=case.get("minimizer"))
    names = []
    for mb in members:
        for n in mb.ref.model.pnames:
            if n not in names:
                names.append(n)
    W = MultiWorld(members, names)
    # same-named parameters hold one common value: declared through the multi-fit before anything is read
    multi.set_parameter_values(**case["start"])
    W.values = dict(case["start"])
    declared_at, toggled_shared, disabled_unread = {}, False, {}

    def nwit():
        return sum(ctx._wit_per_key.values())

    def compare(where):
        exp = W.expected()
        if exp[0] is None:
            ctx.discard(exp[1])
            return True
        exp, scale, d = exp
        if not np.isfinite(exp):
            ctx.discard("reference-cost-not-finite-at-this-point")
            return True
        V = d.pop("V", None)
        n0 = nwit()
        try:
            got = float(multi.cost_function_value)
        except Exception:
            ctx.violation(classify_multi(W, multi, None, 1.0), "multi.cost_function_value.no-exception", {"traceback": fmt_exc(), "where": where})
            return False
        W.reads += 1
        for nme in disabled_unread:
            disabled_unread[nme] = True  # evaluated while disabled
        ctx.close("multi.cost_function_value", got, exp, tol=Tol.LINALG, scale=scale, detail=dict(d, where=where, values=dict(W.values)), key=lambda: classify_multi(W, multi, got, scale))
        if W.shared:
            ctx._count("multi.cost_function_value(shared)")
            if toggled_shared:
                ctx._count("multi.cost_function_value(shared source toggled after an evaluation)")
            if W.enabled_x():
                ctx._count("multi.cost_function_value(x sources in the joint form)")
        else:
            ctx._count("multi.cost_function_value(sum form)")
        if nwit() != n0:
            return False
        # localisation: the combined covariance matrix (all members Gaussian)
        if V is not None and len(W.chi2_members()) == len(members):
            try:
                got_V = np.array(multi.total_cov_mat, dtype=float)
            except Exception:
                ctx.violation(None, "multi.total_cov_mat.no-exception", {"traceback": fmt_exc(), "where": where})
                return False
            ctx.close("multi.total_cov_mat", got_V, V, tol=Tol.LINALG, scale=float(np.abs(V).max()) + 1e-300, detail={"where": where}, key=lambda: classify_multi(W, multi, got, scale))
        # sensitivity of the reference: every shared source changes the documented cost
        for s in W.shared:
            saved = s["src"]["enabled"]
            s["src"]["enabled"] = not saved
            try:
                alt = W.expected()
                if alt[0] is not None and abs(alt[0] - exp) > 1e-6 * scale:
                    ctx.note("shared-sources-proven-not-ignored" if saved else "disabled-shared-sources-proven-omitted")
            except Exception:
                pass
            finally:
                s["src"]["enabled"] = saved
        return nwit() == n0

    for i, st in enumerate(case["script"]):
        k = st["op"]
        where = "after step %d (%s)" % (i, k)
        try:
            if k == "set":
                ctx.op("multi.set_parameter_values")
                multi.set_parameter_values(**st["values"])
                W.values.update(st["values"])
                W.sets_since_multi_error_change += 1
            elif k == "read":
                pass
            elif k == "toggle":
                name, what, via = st["name"], st["what"], st["via"]
                is_shared = any(s["src"]["name"] == name for s in W.shared)
                src = [s for mb in members for s in mb.ref.sources if s["name"] == name][0]
                if via == "multi":
                    ctx.op("multi." + what)
                    getattr(multi, what)(name)
                    W.sets_since_multi_error_change = 0
                    W.x_through_member = False
                    ctx.stratum("multi:shared-source-toggled" if is_shared else "multi:member-source-toggled-through-multi-fit")
                else:
                    ctx.op("member." + what)
                    getattr(members[via].fit, what)(name)
                    ctx.stratum("multi:member-source-toggled-through-member")
                    if W.shared and src.get("axis") == "x" and what == "enable_error" and members[via].fid in IS_CHI2:
                        W.x_through_member = True
                for mb in members:
                    dsl.apply_ref(mb.ref, mb.spec, [what, name])
                if is_shared:
                    if W.reads > declared_at[name]:
                        toggled_shared = True
                        ctx.stratum("multi:shared-source-toggled-after-an-evaluation")
                    if what == "disable_error" and W.reads == declared_at[name]:
                        disabled_unread[name] = False
                    if what == "enable_error" and disabled_unread.pop(name, False):
                        ctx.stratum("multi:shared-source-disabled-before-first-evaluation-enabled-after-one")
                    if src.get("axis") == "x":
                        ctx.stratum("multi:shared-x-source-toggled")
            elif k == "shared":
                sop, a = st["add"]
                ctx.op("multi.%s.shared" % sop)
                fits = list(range(len(members))) if a["fits"] == "all" else [int(j) for j in a["fits"]]
                axis = a["axis"] or "y"
                if sop == "add_error":
                    multi.add_error(err_val=_arr(a["err"]), fits=a["fits"], axis=a["axis"], name=a["name"], correlation=a.get("corr", 0.0), relative=False, reference="data")
                    src = {"kind": "simple", "axis": axis, "err": a["err"], "corr": a.get("corr", 0.0), "relative": False, "reference": "data", "enabled": True, "name": a["name"]}
                else:
                    multi.add_matrix_error(err_matrix=np.array(a["matrix"], dtype=float), matrix_type=a["matrix_type"], fits=a["fits"], axis=a["axis"], name=a["name"], err_val=_arr(a.get("err_val")), relative=False, reference="data")
                    src = {"kind": "matrix", "axis": axis, "matrix": a["matrix"], "matrix_type": a["matrix_type"], "err_val": a.get("err_val"), "relative": False, "reference": "data", "enabled": True, "name": a["name"]}
                for j in fits:
                    members[j].ref.sources.append(src)
                W.shared.append({"src": src, "fits": fits, "axis": axis})
                declared_at[a["name"]] = W.reads
                W.sets_since_multi_error_change = 0
                W.x_through_member = False
                ctx.stratum("multi:shared")
                ctx.stratum("multi:shared-%s-%s" % (axis, src["kind"]))
                if len(W.shared) > 1:
                    ctx.stratum("multi:two-shared")
                if W.reads:
                    ctx.stratum("multi:shared-source-declared-after-an-evaluation")
                if len(fits) < len(members):
                    ctx.stratum("multi:shared-by-a-subset")
            elif k == "member_source":
                j, op = st["member"], st["add"]
                mb = members[j]
                through_multi = st["via"] == "multi"
                if through_multi:
                    ctx.op("multi.%s.fits=int" % op[0])
                    a = op[1]
                    # members without an x axis: 'y' and None both mean "the" uncertainty (documented for IndexedFit)
                    ax = a["axis"] if mb.spec["type"] == "xy" else [None, "y"][len(mb.ref.sources) % 2]
                    if mb.spec["type"] != "xy":
                        ctx.stratum("multi:fits=int-on-a-member-without-x-axis")
                    if op[0] == "add_error":
                        rid = multi.add_error(err_val=_arr(a["err"]), fits=j, axis=ax, name=a["name"], correlation=a.get("corr", 0.0), relative=a.get("relative", False), reference=a.get("reference", "data"))
                    else:
                        rid = multi.add_matrix_error(err_matrix=np.array(a["matrix"], dtype=float), matrix_type=a["matrix_type"], fits=j, axis=ax, name=a["name"], err_val=_arr(a.get("err_val")), relative=a.get("relative", False), reference=a.get("reference", "data"))
                    ctx.check("multi.add_error(fits=int).returns-the-error-id", rid == a["name"], lambda: {"returned": rid, "name": a["name"], "member_type": mb.spec["type"]})
                    from vlib.fitcase import norm_op

                    dsl.apply_ref(mb.ref, mb.spec, norm_op(mb.spec, op))
                else:
                    ctx.op("member.%s.late" % op[0])
                    mb.apply(op)
                ctx.stratum("multi:member-source-declared-after-the-multi-fit-was-built")
                if len(mb.ref.sources) == 1:
                    ctx.stratum("multi:first-source-of-a-member-declared-after-the-multi-fit-was-built")
                if W.shared:
                    ctx.stratum("multi:member-source-declared-after-a-shared-source")
                    if mb.ref.sources[-1].get("axis") == "x" and mb.fid in IS_CHI2:
                        W.x_through_member = True
            elif k == "constraint":
                op = st["add"]
                if st["on"] == "multi":
                    ctx.op("multi." + op[0])
                    dsl.apply_live(multi, {"type": "multi"}, op)
                    a = op[1]
                    if op[0] == "add_parameter_constraint":
                        W.multi_constraints.append({"kind": "simple", "index": names.index(a["name"]), "value": a["value"], "uncertainty": a["uncertainty"], "relative": a.get("relative", False)})
                    else:
                        W.multi_constraints.append({"kind": "matrix", "indices": [names.index(n) for n in a["names"]], "values": a["values"], "matrix": a["matrix"], "matrix_type": a["matrix_type"], "uncertainties": a.get("uncertainties"), "relative": a.get("relative", False)})
                else:
                    ctx.op("member." + op[0])
                    members[st["on"]].apply(op)
                    if W.shared and members[st["on"]].fid in IS_CHI2:
                        ctx.stratum("multi:constraint-on-chi2-member-after-shared")
            elif k == "do_fit":
                if W.expected()[0] is None:
                    ctx.discard("do_fit-skipped-inadmissible")
                    continue
                ctx.op("multi.do_fit")
                try:
                    with time_limit(30.0):
                        multi.do_fit()
                except OpTimeout:
                    ctx.discard("do_fit-did-not-end-within-30s")
                    return True
                except Exception as e:
                    if numerical_failure(e):
                        ctx.discard("do_fit-failed-numerically")
                        return True
                    raise
                for n, v in zip(multi.parameter_names, multi.parameter_values):
                    W.values[n] = float(v)
                W.sets_since_multi_error_change += 1
                ctx.stratum("multi:after-do_fit")
        except Exception:
            ctx.violation(None, "multi.%s.no-exception" % k, {"traceback": fmt_exc(), "step": st, "index": i})
            return True
        if st.get("noread"):
            continue
        if not compare(where):
            break
    for s in W.shared:
        if s["axis"] == "x":
            ctx.stratum("multi:shared-x")
    return True


def run_shard(ctx):
    idx = 0
    while ctx.more():
        case = gen_case(ctx.rng, ctx.tier, idx, ctx.shard, ctx.nshards)
        idx += 1
        ctx.begin_case(case)
        nontrivial = False
        try:
            nontrivial = run_case(ctx, case)
        except Exception:
            ctx.violation(classify(case, None, "exception"), "unexpected-exception", {"traceback": fmt_exc()})
        ctx.end_case(nontrivial=nontrivial)


def replay(ctx, case):
    ctx.begin_case(case)
    try:
        run_case(ctx, case)
    except Exception:
        ctx.violation(classify(case, None, "exception"), "unexpected-exception", {"traceback": fmt_exc()})
    ctx.end_case(nontrivial=True)
