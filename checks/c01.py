"""C01 — the reported cost is the documented -2 ln L of exactly the declared inputs.

Shape: reference-model monitor at the observable.  Every declaration is mirrored into vlib.ref.RefFit
(plain data, no kafe2 imports); after every parameter change `fit.cost_function_value` (and
total_cov_mat / total_error / model for localisation) is compared with the documented formula
evaluated from scratch.
"""
import numpy as np

from vlib import dsl, gen
from vlib.models import DENSITIES, FAMILIES, Model
from vlib.monitor import Tol, fmt_exc
from vlib.ref import COST_ALIASES, NEEDS_ERRORS, POISSON, pd_info

PROPERTY = "C01"
TIERS = {"quick": {"shards": 8, "budget_s": 35}, "thorough": {"shards": 16, "budget_s": 480}}
RULE = (
    "fit type x cost alias (every key of the three STRING_TO_COST_FUNCTION tables) x <=4 uncertainty sources "
    "(simple/matrix, abs/rel, data/model reference, x/y, corr in {0,(0,1),1}, scalar/vector/with zeros, random order, "
    "model-referenced first or only) x <=2 constraints x disable/enable x 3 parameter points; non-trivial = >=1 enabled "
    "source that is correlated, relative, on x or model-referenced, or >=1 constraint; distinct by case hash"
)
ASSUMPTIONS = [
    "parameter points are restricted to positive-definite total covariance with cond <= 1e8 (measured on the reference; others discarded and counted)",
    "Poisson-type costs only with admissible data (non-negative integer counts) and positive model values",
    "documented formulas: docstrings of kafe2/fit/_base/cost.py (Gaussian NLL = standard normal pdf; Gauss approximation V~ = V + diag(m))",
    "x-uncertainties are projected with the analytic slope; for models other than polynomials of degree <= 2 the comparison allows the analytic bound of the implementation's central-difference error (h^2/6 max|f3|, h = 0.01 sigma_x) propagated to V, sqrt(diag V) and the cost",
]
ANCHORS = [
    ("kafe2.fit._base.cost", "CostFunction.__call__"),
    ("kafe2.fit._base.cost", "CostFunction_Chi2._chi2"),
    ("kafe2.fit._base.cost", "CostFunction_NegLogLikelihood.nll_gaussian"),
    ("kafe2.fit._base.cost", "CostFunction_NegLogLikelihood.nll_poisson"),
    ("kafe2.fit._base.cost", "CostFunction_NegLogLikelihood.nllr_gaussian"),
    ("kafe2.fit._base.cost", "CostFunction_NegLogLikelihood.nllr_poisson"),
    ("kafe2.fit._base.cost", "CostFunction_GaussApproximation.gaussian_approximation_covariance"),
    ("kafe2.fit._base.cost", "CostFunction_GaussApproximation.gaussian_approximation_pointwise_errors"),
    ("kafe2.fit.unbinned.cost", "UnbinnedCostFunction_NegLogLikelihood.nll"),
    ("kafe2.fit._base.fit", "FitBase._on_error_change"),
    ("kafe2.fit._base.fit", "FitBase._init_cost_function"),
    ("kafe2.fit.xy.fit", "XYFit._project_cov_mat"),
    ("kafe2.fit.xy.fit", "XYFit._project_error"),
    ("kafe2.core.constraint", "GaussianSimpleParameterConstraint.cost"),
    ("kafe2.core.constraint", "GaussianMatrixParameterConstraint.cost"),
    ("kafe2.fit.util", "qr_decomposition"),
    ("kafe2.fit.util", "cholesky_decomposition"),
    ("kafe2.fit.util", "log_determinant_qr"),
    ("kafe2.fit.util", "log_determinant_cholesky"),
    ("kafe2.fit.util", "log_determinant_pointwise"),
]

XY_ALIASES = [a for a in COST_ALIASES if a != "gauss_approximation_covariance_fast"]
BASE_ALIASES = list(COST_ALIASES)
UNBINNED_ALIASES = ["nll", "negloglikelihood", "neg_log_likelihood"]


def floors(tier):
    return {
        "comparisons": {"cost_function_value": 800, "total_cov_mat": 400, "total_error": 400, "model": 800, "sensitivity.source-matters": 300, "sensitivity.disabled-omitted": 30},
        "ops": ["add_error", "add_matrix_error", "disable_error", "enable_error", "add_parameter_constraint", "add_matrix_parameter_constraint", "set_all_parameter_values"],
        "reach": ["%s:%s" % a for a in ANCHORS],
        "sets": {"cost_alias_by_type": len(XY_ALIASES) + 2 * len(BASE_ALIASES) + 3, "source_features": 20},
        "strata": ["model-referenced-first", "model-referenced-only", "x-source", "disabled-source", "matrix-constraint", "other-unit", "other-unit-after-fit"],
        "distinct_nontrivial": 150,
    }


# ------------------------------------------------------------------ generation
def gen_case(rng, tier, idx, shard, nshards):
    # stratified enumeration of (type, alias) first, then random
    combos = [("xy", a) for a in XY_ALIASES] + [("indexed", a) for a in BASE_ALIASES] + [("hist", a) for a in BASE_ALIASES] + [("unbinned", a) for a in UNBINNED_ALIASES]
    gi = idx * nshards + shard
    forced_stratum = None
    if gi < 6:
        # the implicit switch from the no-errors chi2 ('chi2' given, no source yet) with a model-referenced source first / only
        ftype, alias = ["xy", "indexed", "hist"][gi % 3], "chi2"
        forced_stratum = gi // 3
    elif gi < 6 + 2 * len(combos):
        ftype, alias = combos[(gi - 6) % len(combos)]
    else:
        ftype, alias = combos[int(rng.integers(0, len(combos)))]
    fid = COST_ALIASES[alias] if ftype != "unbinned" else "unbinned"
    counts = fid in POISSON
    if ftype == "xy":
        fam = str(rng.choice(["poly1", "poly2", "exponential", "gausspeak", "trig", "poly3", "logistic", "sinusoid", "lorentz"]))
        spec = gen.gen_xy_spec(rng, family=fam, cost=alias, counts=counts)
        if counts and rng.random() < 0.5:
            spec["x"] = [float(round(v)) + k for k, v in enumerate(spec["x"])]  # integer x as well
    elif ftype == "indexed":
        fam = str(rng.choice(["poly1", "poly2", "exponential", "trig", "gausspeak"]))
        spec = gen.gen_indexed_spec(rng, family=fam, cost=alias, counts=counts)
    elif ftype == "hist":
        spec = gen.gen_hist_spec(rng, cost=alias)
    else:
        spec = gen.gen_unbinned_spec(rng)
        spec["cost"] = alias
    m = Model.from_spec(spec["model"])
    n = len(spec.get("y") or spec.get("data") or spec["edges"][:-1])
    ops = []
    n_src = 0
    if ftype != "unbinned":
        # error-needing costs always get a y source that makes the total positive definite
        stratum = gi % 7 if forced_stratum is None else forced_stratum
        n_src = int(rng.integers(1, 5)) if fid in NEEDS_ERRORS else int(rng.integers(0, 3))
        yscale = float(np.mean(np.abs(spec.get("y") or spec.get("data") or [10.0])) + 0.5)
        for k in range(n_src):
            force = {}
            if k == 0 and stratum in (0, 1) and fid in NEEDS_ERRORS:
                force = {"reference": "model", "kind": "simple", "axis": "y"}  # model-referenced first (stratum 1: only)
            elif k == 0 and fid in NEEDS_ERRORS and stratum not in (0, 1):
                force = {"axis": "y"}
            op = gen.gen_source(rng, n, ftype, "e%d" % k, yscale=yscale, force=force, allow_x=(k > 0 or fid not in NEEDS_ERRORS))
            ops.append(op)
            if stratum == 1 and fid in NEEDS_ERRORS:
                break
        # disable / enable
        names = [o[1]["name"] for o in ops]
        if len(names) >= 2 and rng.random() < 0.4:
            victim = names[int(rng.integers(1, len(names)))]
            ops.append(["disable_error", victim])
            if rng.random() < 0.4:
                ops.append(["enable_error", victim])
    for _ in range(int(rng.integers(0, 3))):
        ops.append(gen.gen_constraint(rng, m.pnames, m.defaults))
    # constraints and sources in random relative order (sources keep their mutual order only partly)
    if rng.random() < 0.5:
        adds = [o for o in ops if o[0] not in ("disable_error", "enable_error")]
        rest = [o for o in ops if o[0] in ("disable_error", "enable_error")]
        perm = rng.permutation(len(adds))
        if not (adds and adds[0][0].startswith("add_") and ops and ops[0][1].get("reference") == "model"):
            adds = [adds[int(i)] for i in perm]
        ops = adds + rest
    fit_first = bool(rng.random() < 0.08 and ftype in ("xy", "indexed"))
    unit = 1.0
    if ftype in ("xy", "indexed") and not counts and fid != "unbinned" and (gi % 11 == 7 or rng.random() < 0.05):
        # the same problem in another unit of y (data, absolute y uncertainties and the unit-carrying parameters times s): which code path
        # evaluates the cost must not depend on the magnitude of the numbers; half of these cases run a fit first
        from vlib.models import UNIT_PARAMS

        unit = float(rng.choice([1e-5, 1e-4, 1e4]))
        if not any(o[0] == "add_matrix_error" and not o[1].get("relative") and gen.norm_axis(o[1].get("axis")) != "x" for o in ops):
            # correlations declared through a matrix: after scaling its elements are small (or large) numbers, not zeros
            ops.insert(len([o for o in ops if o[0] in ("add_error", "add_matrix_error")]), gen.gen_source(rng, n, ftype, "eM", yscale=yscale, force={"kind": "matrix", "axis": "y", "reference": "data", "relative": False}))
        if rng.random() < 0.6:
            # cost functions that come with a pointwise twin, and correlations declared through the matrix only: the configuration in
            # which the choice between the twins rests on the magnitude of the matrix elements alone
            spec["cost"] = str(rng.choice(["chi2", "chi2_covariance", "gauss_approximation_covariance"]))
            for op in ops:
                if op[0] == "add_error":
                    op[1]["corr"] = 0.0
        key = "y" if "y" in spec else "data"
        spec[key] = [float(v * unit) for v in spec[key]]
        up = set(UNIT_PARAMS[spec["model"]["family"]])
        spec["model"]["defaults"] = [float(d * unit) if nm in up else d for nm, d in zip(m.pnames, spec["model"]["defaults"])]
        m = Model.from_spec(spec["model"])
        for op in ops:
            a = op[1]
            if op[0] not in ("add_error", "add_matrix_error") or a.get("relative") or gen.norm_axis(a.get("axis")) == "x":
                continue
            if op[0] == "add_error":
                a["err"] = [float(v * unit) for v in a["err"]] if isinstance(a["err"], list) else float(a["err"] * unit)
            elif a["matrix_type"] == "cov":
                a["matrix"] = (np.array(a["matrix"], dtype=float) * unit * unit).tolist()
            else:
                a["err_val"] = [float(v * unit) for v in a["err_val"]] if isinstance(a["err_val"], list) else float(a["err_val"] * unit)
        # constraints were drawn around the old defaults: draw them again
        ops = [o for o in ops if o[0] not in ("add_parameter_constraint", "add_matrix_parameter_constraint")]
        for _ in range(int(rng.integers(0, 2))):
            ops.append(gen.gen_constraint(rng, m.pnames, m.defaults))
        fit_first = bool(rng.random() < 0.5)
    points = [gen.perturbed_params(rng, m, 0.12) for _ in range(3)]
    return {"property": "C01", "unit": unit, "spec": spec, "ops": ops, "points": points, "fit_first": fit_first}


# ------------------------------------------------------------------ execution + oracle
def classify(case, ref, observable, extra=None):
    """Mechanism keys of open findings: predicate over the declared configuration + explain-check
    (the observed value must equal the reference evaluated under the finding's alternative semantics)."""
    try:
        spec = case["spec"]
        if ref is None or extra is None:
            return None
        if spec["type"] == "hist" and spec.get("density", True) and any(s["enabled"] and s["relative"] and s["reference"] == "model" for s in ref.sources):
            ref.hist_model_ref_unscaled = True
            try:
                alt = extra["alt"]()
            finally:
                ref.hist_model_ref_unscaled = False
            from vlib.monitor import allclose

            if allclose(extra["got"], alt, 1e-9, 1e-12, scale=extra.get("scale")):
                return "C01/hist-model-relative-source-refers-to-density-integral-not-N-times-integral"
            # the alternative covariance is often ill-conditioned (sigma too small by N): the cost computed from it is
            # then numerically unstable, so confirm the mechanism on the covariance matrix itself
            fit = extra.get("fit")
            if fit is not None and observable == "cost_function_value":
                ref.hist_model_ref_unscaled = True
                try:
                    Valt = ref.total_cov()
                finally:
                    ref.hist_model_ref_unscaled = False
                if allclose(np.array(fit.total_cov_mat), Valt, 1e-9, 1e-300, scale=np.abs(Valt).max()):
                    return "C01/hist-model-relative-source-refers-to-density-integral-not-N-times-integral"
    except Exception:
        return None
    return None


def features(ctx, ref, case):
    nontrivial = False
    first = True
    for s in ref.sources:
        feats = [s["kind"], "rel" if s["relative"] else "abs", s["reference"], gen.norm_axis(s.get("axis")) or "-", "on" if s["enabled"] else "off"]
        if s["kind"] == "simple":
            c = s.get("corr", 0)
            feats.append("corr0" if c == 0 else ("corr1" if c == 1 else "corrp"))
            feats.append("scalar" if np.ndim(s["err"]) == 0 else ("zeros" if 0.0 in list(s["err"]) else "vec"))
        else:
            feats.append(s["matrix_type"])
        ctx.add_to_set("source_features", "/".join(feats))
        if s["enabled"] and (s["relative"] or s["reference"] == "model" or gen.norm_axis(s.get("axis")) == "x" or s["kind"] == "matrix" or s.get("corr", 0) > 0):
            nontrivial = True
        if first and s["reference"] == "model":
            ctx.stratum("model-referenced-first")
            if len(ref.sources) == 1:
                ctx.stratum("model-referenced-only")
        first = False
        if gen.norm_axis(s.get("axis")) == "x":
            ctx.stratum("x-source")
        if not s["enabled"]:
            ctx.stratum("disabled-source")
    for c in ref.constraints:
        nontrivial = True
        if c["kind"] == "matrix":
            ctx.stratum("matrix-constraint")
    return nontrivial


def run_case(ctx, case):
    spec = case["spec"]
    ctx.reseed_legacy()
    fit = dsl.build_fit(spec)
    ref = dsl.new_ref(spec)
    ctx.add_to_set("cost_alias_by_type", "%s:%s" % (spec["type"], spec["cost"]))
    for op in case["ops"]:
        ctx.op(op[0])
        # normalise axis spelling for the reference
        rop = op
        if op[0] in ("add_error", "add_matrix_error") and spec["type"] == "xy":
            rop = [op[0], dict(op[1], axis=gen.norm_axis(op[1]["axis"]))]
        dsl.apply_live(fit, spec, op)
        dsl.apply_ref(ref, spec, rop)
    nontrivial = features(ctx, ref, case)
    if case.get("unit", 1.0) != 1.0:
        ctx.stratum("other-unit")
        if case.get("fit_first"):
            ctx.stratum("other-unit-after-fit")
    fid = ref.fid if spec["type"] != "unbinned" else "unbinned"
    # documented implicit switch: 'chi2' without any declared source is the no-errors chi2
    if spec["cost"] == "chi2" and not ref.sources:
        fid = "chi2_noerr"
    if case.get("fit_first"):
        try:
            fit.do_fit()
            ctx.op("do_fit")
        except Exception:
            ctx.violation(classify(case, ref, "do_fit"), "do_fit.no-exception", {"traceback": fmt_exc()})
            return nontrivial
    xproj_loose = spec["type"] == "xy" and ref.has_x_source() and spec["model"]["family"] not in ("poly0", "poly1", "poly2")
    tol = Tol.LINALG
    for p in case["points"]:
        ctx.op("set_all_parameter_values")
        dsl.apply_live(fit, spec, ["set_all_parameter_values", p])
        dsl.apply_ref(ref, spec, ["set_all_parameter_values", p])
        mvals = ref.model_values()
        if not np.all(np.isfinite(mvals)):
            ctx.discard("model-not-finite")
            continue
        needs_V = fid in NEEDS_ERRORS or fid in ("ga_cov", "ga_pw")
        V = ref.total_cov() if spec["type"] != "unbinned" else None
        if fid in NEEDS_ERRORS:
            ok, cond = pd_info(V)
            if not ok or cond > 1e8:
                ctx.discard("total-cov-not-pd-or-ill-conditioned")
                continue
            if fid in ("chi2_pw", "nll_gauss", "nllr_gauss") and np.any(np.diag(V) <= 0):
                ctx.discard("zero-pointwise-error")
                continue
        if fid in POISSON or fid == "unbinned":
            if np.any(mvals <= 0):
                ctx.discard("model-not-positive")
                continue
        if fid in ("ga_cov", "ga_pw"):
            ok, cond = pd_info(V + np.diag(mvals))
            if not ok or cond > 1e8:
                ctx.discard("ga-cov-not-pd")
                continue
        exp = ref.cost_value(fid=fid if fid != "unbinned" else None)
        tol = Tol.LINALG
        cov_atol = err_atol = 0.0
        if xproj_loose:
            # the implementation projects x uncertainties with a central-difference slope (step 0.01 sigma_x); bound its
            # effect analytically: |delta g| <= h^2/6 max|f3|, propagated to V, sqrt(diag V) and (by re-evaluation of the
            # reference with perturbed slopes) to the cost
            dg = ref.slope_fd_error_bound()
            g = ref.slope()
            Vx = np.abs(ref.axis_cov("x"))
            dV = Vx * (np.outer(np.abs(g), dg) + np.outer(dg, np.abs(g)) + np.outer(dg, dg))
            cov_atol = dV
            err_atol = np.diag(dV) / (2.0 * np.sqrt(np.maximum(np.diag(V), 1e-300)))
            # first-order bound: sum_i |cost(g + dg_i e_i) - cost| (each direction separately), factor 2 for second order
            dev = 0.0
            for i in range(len(g)):
                if dg[i] == 0.0:
                    continue
                e = np.zeros(len(g))
                e[i] = dg[i]
                for sgn in (1.0, -1.0):
                    ref.slope_delta = sgn * e
                    try:
                        dev += 0.5 * abs(ref.cost_value(fid=fid) - exp)
                    except Exception:
                        pass
                    finally:
                        ref.slope_delta = None
            tol = Tol.custom("XPROJ", 1e-9, 1e-12 + 2.0 * dev)
        # scale for the tolerance: sum of |terms|
        scale = abs(exp) + abs(ref.constraint_cost()) + (abs(ref.logdet()) if (fid in ("chi2_cov", "chi2_pw") and V is not None) else 0.0) + 1.0
        try:
            got = float(fit.cost_function_value)
        except Exception:
            ctx.violation(classify(case, ref, "cost_function_value"), "cost_function_value.no-exception", {"traceback": fmt_exc(), "point": p, "fid": fid})
            return nontrivial
        okc = ctx.close(
            "cost_function_value", got, exp, tol=tol, scale=scale, detail={"point": p, "fid": fid},
            key=lambda: classify(case, ref, "cost_function_value", {"got": got, "scale": scale, "fit": fit, "alt": lambda: ref.cost_value(fid=fid if fid != "unbinned" else None)}),
        )
        # localisation observables
        try:
            if spec["type"] == "xy":
                ctx.close("model", np.array(fit.y_model), mvals, tol=Tol.LINALG, key=lambda: classify(case, ref, "model"))
            else:
                ctx.close("model", np.array(fit.model), mvals, tol=Tol.LINALG, key=lambda: classify(case, ref, "model"))
            if spec["type"] != "unbinned" and ref.sources:
                tc = fit.total_cov_mat
                if tc is not None:
                    te = np.array(fit.total_error)
                    ctx.close("total_cov_mat", np.array(tc) - np.clip(np.array(tc) - V, -cov_atol, cov_atol), V, tol=Tol.LINALG, scale=np.abs(V).max() + 1e-300, detail={"point": p, "raw_got": np.array(tc)},
                              key=lambda: classify(case, ref, "total_cov_mat", {"got": np.array(tc), "alt": lambda: ref.total_cov()}))
                    ctx.close("total_error", te - np.clip(te - np.sqrt(np.diag(V)), -err_atol, err_atol), np.sqrt(np.diag(V)), tol=Tol.LINALG, scale=np.sqrt(np.abs(V).max()) + 1e-300, detail={"point": p, "raw_got": te},
                              key=lambda: classify(case, ref, "total_error", {"got": te, "alt": lambda: np.sqrt(np.diag(ref.total_cov()))}))
        except Exception:
            ctx.violation(classify(case, ref, "localisation"), "observables.no-exception", {"traceback": fmt_exc(), "point": p})
            return nontrivial
        if not okc:
            return nontrivial
        # sensitivity: every enabled source of non-zero size changes the reference cost, every disabled one does not enter
        if needs_V:
            for s in ref.sources:
                saved = s["enabled"]
                s["enabled"] = not saved
                try:
                    V2 = ref.total_cov()
                    okpd, _ = pd_info(V2 + (np.diag(mvals) if fid in ("ga_cov", "ga_pw") else 0.0))
                    if okpd or fid not in ("chi2_cov", "ga_cov"):
                        alt = ref.cost_value(fid=fid)
                        if saved:
                            ctx.check("sensitivity.source-matters", True)
                            if abs(alt - exp) > 1e-6 * scale:
                                ctx.note("sources-proven-not-ignored")
                        else:
                            ctx.check("sensitivity.disabled-omitted", True)
                            if abs(alt - exp) > 1e-6 * scale:
                                ctx.note("disabled-sources-proven-omitted")
                except Exception:
                    pass
                finally:
                    s["enabled"] = saved
    return nontrivial


def run_shard(ctx):
    idx = 0
    while ctx.more():
        case = gen_case(ctx.rng, ctx.tier, idx, ctx.shard, ctx.nshards)
        idx += 1
        ctx.begin_case(case)
        nontrivial = False
        try:
            nontrivial = run_case(ctx, case)
        except Exception:
            ctx.violation(classify(case, None, "exception"), "unexpected-exception", {"traceback": fmt_exc()})
        ctx.end_case(nontrivial=nontrivial)


def replay(ctx, case):
    ctx.begin_case(case)
    try:
        run_case(ctx, case)
    except Exception:
        ctx.violation(classify(case, None, "exception"), "unexpected-exception", {"traceback": fmt_exc()})
    ctx.end_case(nontrivial=True)
