"""C15 — results are independent of labelling: point order, parameter order, units.

Shape: metamorphic monitor on fitted problems (the problem classes of C05/C06).  No expected number is taken
from a reference implementation: every base problem is fitted by kafe2, an *equivalent* problem is built by one
of three relabellings and fitted by kafe2 as well, and the two sets of results are compared through the
relabelling:

(a) point-perm  the data points are permuted together with their uncertainties (vector errors permuted,
                matrix sources P M P^T)                                   => everything unchanged
(b) par-perm    the model is regenerated with a permuted parameter signature; fixed / limited / constrained
                subsets, start values and step sizes follow BY NAME, matrix constraints are given in another
                name order too                                             => values, errors, covariance /
                correlation matrix, asymmetric errors are the permuted originals, error band unchanged
(c) scaling     y -> s*y: data, absolute y uncertainties (covariance matrices by s^2) and the model output
                (the unit-carrying parameters of the family: defaults, start values, step sizes, limits, constraint
                values / uncertainties) multiplied by s; relative and x uncertainties untouched
                                                                           => chi2 (goodness_of_fit), ndf, chi2
                probability, unit-free parameters unchanged; unit-carrying parameters, their errors (covariance
                rows / columns) times s; cost_function_value shifted by exactly 2 N ln s (the ln det V term)

The reference side (vlib.ref, pure numpy) is used only as a *yardstick*: sigma_ref and cond of the Gauss-Newton
normal matrix (well-posedness, units of the OPTIM tolerances), never as the expected value.
"""
import copy
import itertools

import numpy as np
from scipy import stats

from vlib import dsl, gen
from vlib.fitcase import Member, norm_op
from vlib.models import FAMILIES, Model
from vlib.monitor import OpTimeout, Tol, fmt_exc, time_limit
from vlib.ref import constraint_cov, pd_info

PROPERTY = "C15"
TIERS = {"quick": {"shards": 8, "budget_s": 40}, "thorough": {"shards": 16, "budget_s": 500}}
RULE = (
    "base problem = model family (poly1-4, trig, expbasis | exponential, powerlaw, gausspeak, lorentz, sinusoid, logistic) as XYFit / IndexedFit / "
    "MultiFit of 2 members sharing parameters x 1-3 uncertainty sources (simple / matrix cov / matrix cor, absolute / relative, data / model "
    "reference, any correlation, x sources for xy) x subsets of fixed / limited (active or inactive) / constrained (simple, matrix) parameters x "
    "backend {iminuit, scipy}, data generated from the model, start within 1 sigma_ref of the truth; one case = base problem + 1..5 relabellings of "
    "one kind (point permutation | parameter permutation: all non-identity permutations for N_p <= 3, sampled above | y scaling, s log-uniform in "
    "[1e-4, 1e4]); a 'triple' = (base fit, transformed fit, comparison); non-trivial = the relabelling is not the identity and the problem has >= 2 "
    "free parameters or a fixed / limited / constrained parameter; distinct by case hash"
)
ASSUMPTIONS = [
    "well-posed problems only: total covariance positive definite with cond <= 1e8, reference Gauss-Newton normal matrix over the free parameters with cond <= 1e6 and model "
    "linear to 25 % over one sigma_ref of every free parameter (|f(p + sigma e_i) - f(p) - sigma df/dp_i| <= 0.25 |sigma df/dp_i| in the metric of V) at the truth (generator rejects and "
    "counts others; at the fitted optimum cond <= 1e7 and 50 %, else discarded); start values within 1 sigma_ref of the truth",
    "start values, initial step sizes (given explicitly in half of the cases, otherwise kafe2's own 0.1*|default| of the transformed model), limits, fixed values and "
    "constraint values / uncertainties are transformed with the problem — otherwise the minimiser legitimately walks a different path",
    "tolerances: cost / goodness of fit at common parameter points before fitting LINALG (1e-9 relative to |chi2| + |ln det V| + |2N ln s| + 1); after fitting OPTIM in units of "
    "the reference sigma: |dp| <= 1e-2 sigma (iminuit) / 5e-2 sigma (scipy); errors, correlations, asymmetric errors within 2e-2 relative (covariance entries 4e-2 of "
    "sqrt(C_ii C_jj), error band 3e-2) — for iminuit on a non-parabolic cost (nonlinear model, x or model-relative sources) 5e-2 instead of 2e-2, because Minuit2's HESSE at "
    "strategy 1 refines its steps only until the second derivatives change by < 5 % (MnStrategy HessianG2Tolerance); chi2 and cost within 1e-3 (iminuit) / 5e-3 (scipy); fixed parameters exactly",
    "parameter uncertainties are compared only where they are defined at the 2e-2 level: not if a limited parameter is closer than 3 sigma_ref to one of its bounds (the reported "
    "sigma of a parameter resting on a limit is not defined) and not if the base fit's sqrt(diag(cov)) differs from the Gauss-Newton sigma_ref by more than 15 % (strongly non-parabolic "
    "cost: the second derivative changes by per cents over the 1e-2 sigma the optimum is allowed to move); values, chi2 and cost are compared in all cases (counted in notes)",
    "chi2 = cost - ln det V is not the minimised function when V depends on the parameters (x / model-relative sources): its tolerance is the cost tolerance plus the allowed parameter "
    "shift times the first-order sensitivity sum_i |sigma_i d(ln det V)/dp_i| from the reference (zero for parameter-independent V)",
    "unit-carrying parameters per family (model output is homogeneous of degree 1 in them; verified numerically at start-up): poly: all; trig: a, b, c; expbasis: a, b; "
    "exponential / powerlaw: A; gausspeak / lorentz / sinusoid: A, c; logistic: L",
    "scipy asymmetric errors (generic profile root finding, ~1 s per parameter and fit) are sampled at 6 % (quick) / 40 % (thorough) of the scipy cases with <= 3 free parameters; MINOS always",
]
ANCHORS = [
    ("kafe2.core.minimizers.minimizer_base", "MinimizerBase._remove_zeroes_for_fixed"),
    ("kafe2.core.minimizers.minimizer_base", "MinimizerBase._fill_in_zeroes_for_fixed"),
    ("kafe2.core.minimizers.scipy_optimize_minimizer", "MinimizerScipyOptimize.minimize"),
    ("kafe2.core.minimizers.scipy_optimize_minimizer", "MinimizerScipyOptimize.limit"),
    ("kafe2.core.minimizers.iminuit_minimizer", "MinimizerIMinuit._calculate_asymmetric_parameter_errors"),
    ("kafe2.core.minimizers.iminuit_minimizer", "MinimizerIMinuit._get_iminuit"),
    ("kafe2.fit._base.fit", "FitBase.add_parameter_constraint"),
    ("kafe2.fit._base.fit", "FitBase.add_matrix_parameter_constraint"),
    ("kafe2.fit._base.fit", "FitBase.fix_parameter"),
    ("kafe2.fit._base.fit", "FitBase.limit_parameter"),
    ("kafe2.fit.xy.fit", "XYFit.error_band"),
    ("kafe2.core.fitters.nexus_fitter", "NexusFitter.__init__"),
    ("kafe2.fit.multi.fit", "MultiFit._get_parameter_indices"),
    ("kafe2.fit.multi.fit", "MultiFit.do_fit"),
]

KINDS = ("point-perm", "par-perm", "scaling")
BACKENDS = ("iminuit", "scipy")
SUBSETS = ("fixed", "limited", "constrained")
STRATA = [(k, b, s) for k in KINDS for b in BACKENDS for s in SUBSETS]

UNIT_NAMES = {"c0", "c1", "c2", "c3", "c4", "a", "b", "c", "A", "L"}  # same meaning in every family that has the name
LIN_FAMS = ["poly1", "poly2", "poly3", "poly4", "trig", "expbasis"]
NONLIN_FAMS = ["exponential", "powerlaw", "gausspeak", "lorentz", "sinusoid", "logistic"]
MULTI_PAIRS = [
    ("poly1", "poly2"),
    ("poly1", "poly1"),
    ("trig", "expbasis"),
    ("exponential", "exponential"),
    ("exponential", "powerlaw"),
    ("gausspeak", "lorentz"),
    ("poly2", "exponential"),
    ("sinusoid", "trig"),
]

# mechanism keys of genuine findings (see known_findings.json / the report of this check)
KEY_ND_HESSIAN = "C15/scipy-hessian-absolute-step"
KEY_SCIPY_MIN = "C15/scipy-minimizer-stops-short-when-rescaled"
KEY_SCIPY_XTOL = "C15/scipy-asymmetric-errors-absolute-xtol"
KEY_MIGRAD_ERR = "C15/iminuit-parameter-errors-cached-before-hesse"


def floors(tier):
    q = tier == "quick"
    return {
        "comparisons": {
            "prefit.cost_function_value": 300 if q else 5000,
            "prefit.goodness_of_fit": 300 if q else 5000,
            "initial_step_sizes": 150 if q else 3000,
            "parameter_values": 150 if q else 3000,
            "fixed_untouched": 30 if q else 500,
            "parameter_errors": 100 if q else 2000,
            "parameter_cov_mat": 100 if q else 2000,
            "parameter_cor_mat": 100 if q else 2000,
            "state-round-trip": 60 if q else 1200,
            "goodness_of_fit": 150 if q else 3000,
            "cost_function_value": 150 if q else 3000,
            "ndf": 150 if q else 3000,
            "chi2_probability": 150 if q else 3000,
            "asymmetric_parameter_errors": 50 if q else 1000,
            "error_band": 50 if q else 1000,
        },
        "ops": ["do_fit", "triple"] + ["triple:%s" % k for k in KINDS],
        "reach": ["%s:%s" % a for a in ANCHORS],
        "strata": ["|".join(s) for s in STRATA] + ["xy", "indexed", "multi", "linear", "nonlinear", "x-errors", "model-relative", "matrix-source", "active-limit", "constraint-matrix", "asym|iminuit", "state-round-trip|names-not-in-alphabetical-order"]
        + ([] if q else ["asym|scipy"]),
        "sets": {"family": 10, "par-perm-order": 8},
        "distinct_nontrivial": 60 if q else 3000,
    }


# ------------------------------------------------------------------ small helpers
def unit_factor(name, s):
    return s if name in UNIT_NAMES else 1.0


def self_test():
    """the unit-carrying parameters of every family really scale the model output (guards the harness itself)"""
    x = np.array([0.7, 1.9, 3.3, 4.1])
    for fam in LIN_FAMS + NONLIN_FAMS:
        m = Model(fam)
        p = np.array(m.defaults)
        q = np.array([v * unit_factor(n, 37.5) for n, v in zip(m.pnames, p)])
        assert np.allclose(m.f(x, q), 37.5 * m.f(x, p), rtol=1e-12), fam
        assert any(n not in UNIT_NAMES for n in m.pnames) or m.linear, fam


def _r(v, nd=6):
    return float(np.format_float_scientific(float(v), precision=nd, unique=False))


def global_names(members):
    names = []
    for mb in members:
        for n in Model.from_spec(mb["spec"]["model"]).pnames:
            if n not in names:
                names.append(n)
    return names


# ------------------------------------------------------------------ reference yardstick (pure numpy)
def make_refs(problem):
    refs = []
    for mb in problem["members"]:
        r = dsl.new_ref(mb["spec"])
        for op in mb["setup"]:
            dsl.apply_ref(r, mb["spec"], norm_op(mb["spec"], op))
        refs.append(r)
    return refs


def yardstick(refs, names, constraints, fixed, pdict):
    """Gauss-Newton covariance over the free parameters at pdict (name -> value).
    Returns dict(ok, cond, sigma {name: sigma_ref}, condV)"""
    free = [n for n in names if n not in fixed]
    H = np.zeros((len(free), len(free)))
    condV = 1.0
    for r in refs:
        p = np.array([pdict[n] for n in r.model.pnames], dtype=float)
        mv = r.model_values(p)
        if not np.all(np.isfinite(mv)):
            return {"ok": False, "why": "model-not-finite"}
        V = r.total_cov(p)
        ok, c = pd_info(V)
        if not ok or c > 1e8:
            return {"ok": False, "why": "V-not-pd-or-ill-conditioned"}
        condV = max(condV, c)
        J = r.model.dfdp(r.x, p).T  # N x npar(member)
        if not np.all(np.isfinite(J)):
            return {"ok": False, "why": "model-not-finite"}
        A = np.zeros((r.n, len(free)))
        for j, pn in enumerate(r.model.pnames):
            if pn in free:
                A[:, free.index(pn)] += J[:, j]
        H += A.T @ np.linalg.solve(V, A)
    for cop in constraints:
        a = cop[1]
        if cop[0] == "add_parameter_constraint":
            if a["name"] in free:
                unc = a["uncertainty"] * a["value"] if a.get("relative") else a["uncertainty"]
                i = free.index(a["name"])
                H[i, i] += 1.0 / unc**2
        else:
            C = constraint_cov({"values": a["values"], "matrix": a["matrix"], "matrix_type": a["matrix_type"], "uncertainties": a.get("uncertainties"), "relative": a.get("relative", False)})
            Ci = np.linalg.inv(C)
            for i, ni in enumerate(a["names"]):
                for j, nj in enumerate(a["names"]):
                    if ni in free and nj in free:
                        H[free.index(ni), free.index(nj)] += Ci[i, j]
    ok, cond = pd_info(H)
    if not ok:
        return {"ok": False, "why": "normal-matrix-not-pd"}
    C = np.linalg.inv(H)
    sig = {n: float(np.sqrt(C[i, i])) for i, n in enumerate(free)}
    # nonlinearity of the model over one sigma: |f(p + sigma_i e_i) - f(p) - sigma_i df/dp_i| relative to |sigma_i df/dp_i| (in the metric of V)
    nl = 0.0
    for r in refs:
        p = np.array([pdict[n] for n in r.model.pnames], dtype=float)
        if r.model.linear:
            continue
        V = r.total_cov(p)
        L = np.linalg.cholesky(V)
        f0 = r.model_values(p)
        J = r.model.dfdp(r.x, p)
        for j, pn in enumerate(r.model.pnames):
            if pn not in free:
                continue
            lin = np.linalg.solve(L, sig[pn] * J[j])
            nlin = float(np.sqrt(lin @ lin))
            for sign in (1.0, -1.0):
                q = p.copy()
                q[j] += sign * sig[pn]
                with np.errstate(all="ignore"):
                    d = r.model_values(q) - f0 - sign * sig[pn] * J[j]
                if not np.all(np.isfinite(d)):
                    nl = np.inf
                    continue
                w = np.linalg.solve(L, d)
                nl = max(nl, float(np.sqrt(w @ w)) / max(nlin, 1e-300))
    return {"ok": True, "cond": cond, "sigma": sig, "condV": condV, "nonlinearity": nl, "free": free, "cov": C}


# ------------------------------------------------------------------ generation
def gen_member(rng, tier, ftype, fam, truth, prefix, want):
    m = Model(fam)
    npar = len(m.pnames)
    nmax = 13 if tier == "quick" else 31
    n = int(rng.integers(max(npar + 2, 5), nmax))
    x = gen.gen_x(rng, n, kind="increasing" if fam == "powerlaw" else None)
    if fam == "powerlaw":
        x = [abs(v) + 0.2 for v in x]
    ptrue = [truth[pn] for pn in m.pnames]
    f = m.f(np.array(x), ptrue)
    yscale = float(np.mean(np.abs(f)) + 0.5)
    y = f + rng.normal(size=n) * 0.1 * yscale
    y = [float(np.round(v, 5)) for v in y]
    # keep data away from zero where relative-to-data sources are used (sigma = rel * |y| must not vanish)
    spec = {"type": ftype, "model": m.spec(), "cost": "chi2", "x": x, "minimizer": None, "dea": "nonlinear"}
    spec["y" if ftype == "xy" else "data"] = y
    ops = []
    nsrc = int(rng.integers(1, 4))
    for k in range(nsrc):
        if k == 0:
            force = {"axis": "y", "reference": "data", "kind": "simple", "relative": False, "shape": str(rng.choice(["scalar", "vec", "constvec"]))}
            op = gen.gen_source(rng, n, ftype, "%se%d" % (prefix, k), yscale=yscale, force=force)
        else:
            force = {}
            if want.get("x") and ftype == "xy" and k == 1:
                force["axis"] = "x"
            if want.get("model") and k == 1 and not force:
                force.update(reference="model", relative=True, kind="simple", axis="y")
            if want.get("matrix") and k == 1 and not force:
                force.update(kind="matrix", axis="y")
            op = gen.gen_source(rng, n, ftype, "%se%d" % (prefix, k), yscale=yscale, xscale=0.1, force=force, allow_model=True, allow_x=(ftype == "xy"))
        ops.append(op)
    return {"spec": spec, "setup": ops}


def gen_problem(rng, tier, kind, minimizer, subset, want):
    """One well-posed base problem (or None). `subset`: one of SUBSETS or None — the stratum that must be present."""
    if kind == "multi":
        fams = list(MULTI_PAIRS[int(rng.integers(0, len(MULTI_PAIRS)))])
        ftypes = [str(rng.choice(["xy", "indexed"], p=[0.7, 0.3])) for _ in fams]
    else:
        lin = rng.random() < 0.45
        pool, w = (LIN_FAMS, [0.25, 0.3, 0.15, 0.05, 0.15, 0.1]) if lin else (NONLIN_FAMS, [0.25, 0.15, 0.15, 0.15, 0.15, 0.15])
        fams = [str(rng.choice(pool, p=w))]
        ftypes = [kind]
    truth = {}
    for fam in fams:
        m = Model(fam)
        for pn, v in zip(m.pnames, gen.perturbed_params(rng, m, 0.1)):
            truth.setdefault(pn, v)
    members = [gen_member(rng, tier, ft, fam, truth, "m%d" % j if kind == "multi" else "", want if j == 0 else {}) for j, (ft, fam) in enumerate(zip(ftypes, fams))]
    names = global_names(members)
    tvals = [truth[n] for n in names]
    problem = {"kind": kind, "minimizer": minimizer, "members": members, "constraints": [], "fixed": {}, "limits": {}, "start": {}, "step": None}
    # which subsets
    has = {s: (s == subset) or (rng.random() < 0.4) for s in SUBSETS}
    if len(names) < 2:
        has["fixed"] = False
    if has["constrained"]:
        for i in range(int(rng.choice([1, 1, 2]))):
            fk = "matrix" if (want.get("cmatrix") and i == 0 and len(names) >= 2) else None
            problem["constraints"].append(gen.gen_constraint(rng, names, tvals, force_kind=fk))
    if has["fixed"]:
        k = int(rng.integers(1, len(names)))  # 1 .. N_p - 1 (never all)
        for i in sorted(int(i) for i in rng.choice(len(names), size=k, replace=False)):
            problem["fixed"][names[i]] = None  # value filled in below (needs sigma)
    refs = make_refs(problem)
    y0 = yardstick(refs, names, problem["constraints"], {}, truth)
    if not y0["ok"]:
        return None, y0["why"]
    sig_all = y0["sigma"]
    for n in list(problem["fixed"]):
        problem["fixed"][n] = _r(truth[n] + rng.uniform(-1, 1) * sig_all[n])
    pd = dict(truth)
    pd.update(problem["fixed"])
    yd = yardstick(refs, names, problem["constraints"], problem["fixed"], pd)
    if not yd["ok"]:
        return None, yd["why"]
    if yd["cond"] > 1e6:
        return None, "normal-matrix-cond-gt-1e6"
    if yd["nonlinearity"] > 0.25:
        return None, "model-nonlinear-over-one-sigma"
    sig = yd["sigma"]
    free = [n for n in names if n not in problem["fixed"]]
    if has["limited"]:
        k = int(rng.integers(1, len(free) + 1))
        active_any = False
        for i in sorted(int(i) for i in rng.choice(len(free), size=min(k, 2), replace=False)):
            n = free[i]
            active = bool(rng.random() < (0.6 if (want.get("active") and not active_any) else 0.35))
            if active:
                active_any = True
                # one bound cuts off the optimum by 0.5 .. 2 sigma, the other one is far away
                d = rng.uniform(0.5, 2.0) * sig[n]
                if rng.random() < 0.5:
                    lo, hi = truth[n] + d, truth[n] + d + rng.uniform(5, 12) * sig[n]
                else:
                    lo, hi = truth[n] - d - rng.uniform(5, 12) * sig[n], truth[n] - d
            else:
                lo, hi = truth[n] - rng.uniform(6, 15) * sig[n], truth[n] + rng.uniform(6, 15) * sig[n]
            # keep scale parameters away from sign changes / singular points of the model
            if n in ("s", "g", "w", "k", "n") and lo * hi <= 0:
                lo, hi = (max(lo, 0.2 * truth[n]), hi) if truth[n] > 0 else (lo, min(hi, 0.2 * truth[n]))
            mode = rng.random()
            if mode < 0.2 and not active:
                lo = None  # one-sided
            elif mode < 0.4 and not active:
                hi = None
            problem["limits"][n] = [None if lo is None else _r(lo), None if hi is None else _r(hi)]

    def clip(n, v):
        if n in problem["limits"]:
            lo, hi = problem["limits"][n]
            w = 0.05 * sig[n]
            if lo is not None and v < lo + w:
                v = lo + w
            if hi is not None and v > hi - w:
                v = hi - w
        return v

    for n in free:
        problem["start"][n] = _r(clip(n, truth[n] + rng.uniform(-1, 1) * sig[n]))
    if rng.random() < 0.5:
        problem["step"] = {n: _r((0.1 * abs(truth[n]) if n in problem["fixed"] else sig[n]) * rng.uniform(0.3, 3.0)) for n in names}
    pts = []
    for _ in range(2):
        pts.append({n: _r(clip(n, truth[n] + rng.uniform(-2, 2) * sig[n])) for n in free})
    # the start point and the probe points must be admissible as well
    for pt in pts + [problem["start"]]:
        pdx = dict(pd)
        pdx.update(pt)
        if not yardstick(refs, names, problem["constraints"], problem["fixed"], pdx)["ok"]:
            return None, "probe-point-not-admissible"
    meta = {"truth": {n: _r(truth[n], 8) for n in names}, "cond": float(yd["cond"]), "cost_points": pts}
    return (problem, meta), None


def all_orders(n):
    return [list(p) for p in itertools.permutations(range(n)) if list(p) != list(range(n))]


def gen_case(rng, tier, idx, shard, nshards):
    gi = idx * nshards + shard
    nstr = len(STRATA)
    discards = {}
    for attempt in range(40):
        if gi < 3 * nstr:
            tkind, minimizer, subset = STRATA[gi % nstr]
            kind = ["xy", "indexed", "multi", "xy"][(gi // nstr + gi) % 4]
        else:
            tkind = str(rng.choice(KINDS))
            minimizer = str(rng.choice(BACKENDS))
            subset = [None, "fixed", "limited", "constrained"][int(rng.integers(0, 4))]
            kind = str(rng.choice(["xy", "indexed", "multi"], p=[0.5, 0.2, 0.3]))
        want = {"x": rng.random() < 0.35, "model": rng.random() < 0.3, "matrix": rng.random() < 0.5, "cmatrix": rng.random() < 0.5, "active": rng.random() < 0.6}
        got, why = gen_problem(rng, tier, kind, minimizer, subset, want)
        if got is None:
            discards[why] = discards.get(why, 0) + 1
            continue
        problem, meta = got
        names = global_names(problem["members"])
        if tkind == "par-perm" and len(names) < 2:
            continue
        variants = []
        if tkind == "point-perm":
            nv = 1 if rng.random() < 0.7 else 2
            for v in range(nv):
                perms = []
                for mb in problem["members"]:
                    n = len(mb["spec"]["x"])
                    p = [int(i) for i in rng.permutation(n)] if (v == 0 or rng.random() < 0.5) else list(range(n - 1, -1, -1))
                    if p == list(range(n)):
                        p = p[1:] + p[:1]
                    perms.append(p)
                variants.append({"perms": perms})
        elif tkind == "par-perm":
            nv = None
            orders_per_member = []
            for mb in problem["members"]:
                npar = len(Model.from_spec(mb["spec"]["model"]).pnames)
                orders_per_member.append(npar)
            if kind != "multi":
                npar = orders_per_member[0]
                if npar <= 3:
                    olist = all_orders(npar)
                else:
                    olist = []
                    while len(olist) < 2:
                        o = [int(i) for i in rng.permutation(npar)]
                        if o != list(range(npar)) and o not in olist:
                            olist.append(o)
                variants = [{"orders": [o]} for o in olist]
            else:
                for v in range(2):
                    os_ = []
                    for npar in orders_per_member:
                        o = [int(i) for i in rng.permutation(npar)]
                        os_.append(o)
                    if all(o == list(range(len(o))) for o in os_):
                        os_[0] = os_[0][1:] + os_[0][:1]
                    variants.append({"orders": os_})
            for v in variants:
                v["constraint_name_order"] = str(rng.choice(["reversed", "rotated", "same"], p=[0.5, 0.3, 0.2]))
        else:
            nv = 1 if rng.random() < 0.6 else 2
            for v in range(nv):
                s = float(10.0 ** rng.uniform(-4, 4))
                if gi < 3 * nstr and v == 0:
                    s = [3.7e-4, 250.0, 8.1e3, 2.2e-2][gi % 4] * float(rng.uniform(0.8, 1.25))
                variants.append({"s": _r(s, 5)})
        nfree = len(names) - len(problem["fixed"])
        asym = bool(minimizer == "iminuit" or (nfree <= 3 and rng.random() < (0.06 if tier == "quick" else 0.4)))
        return {"property": "C15", "transform": tkind, "base": problem, "meta": meta, "variants": variants, "asym": asym, "gen_discards": discards}
    return {"property": "C15", "transform": None, "gen_discards": discards}


# ------------------------------------------------------------------ the three relabellings (pure functions on the problem dict)
def _perm_source(op, P):
    a = dict(op[1])
    if op[0] == "add_error":
        if isinstance(a["err"], (list, tuple)):
            a["err"] = [a["err"][i] for i in P]
    else:
        M = np.array(a["matrix"], dtype=float)
        a["matrix"] = M[np.ix_(P, P)].tolist()
        if isinstance(a.get("err_val"), (list, tuple)):
            a["err_val"] = [a["err_val"][i] for i in P]
    return [op[0], a]


def transform_point_perm(problem, variant):
    q = copy.deepcopy(problem)
    for mb, P in zip(q["members"], variant["perms"]):
        sp = mb["spec"]
        sp["x"] = [sp["x"][i] for i in P]
        key = "y" if sp["type"] == "xy" else "data"
        sp[key] = [sp[key][i] for i in P]
        mb["setup"] = [_perm_source(op, P) for op in mb["setup"]]
    return q, {}


def _reorder_matrix_constraint(a, how):
    k = len(a["names"])
    if how == "same":
        return dict(a)
    q = list(range(k - 1, -1, -1)) if how == "reversed" else list(range(1, k)) + [0]
    b = dict(a)
    b["names"] = [a["names"][i] for i in q]
    b["values"] = [a["values"][i] for i in q]
    b["matrix"] = np.array(a["matrix"], dtype=float)[np.ix_(q, q)].tolist()
    if a.get("uncertainties") is not None:
        b["uncertainties"] = [a["uncertainties"][i] for i in q]
    return b


def transform_par_perm(problem, variant):
    q = copy.deepcopy(problem)
    for mb, o in zip(q["members"], variant["orders"]):
        old = Model.from_spec(mb["spec"]["model"])
        order = [old.order[i] for i in o]
        # defaults of the base model follow their parameters by name
        dflt = {n: d for n, d in zip(old.pnames, old.defaults)}
        new = Model(old.family, order=order, name=old.name)
        new = Model(old.family, order=order, name=old.name, defaults=[dflt[n] for n in new.pnames])
        mb["spec"]["model"] = new.spec()
    q["constraints"] = [[c[0], _reorder_matrix_constraint(c[1], variant.get("constraint_name_order", "same"))] if c[0] == "add_matrix_parameter_constraint" else c for c in q["constraints"]]
    return q, {}


def _scale_source(op, ftype, s):
    a = dict(op[1])
    axis = gen.norm_axis(a.get("axis")) if ftype == "xy" else "y"
    if axis == "x" or a.get("relative"):
        return [op[0], a]
    if op[0] == "add_error":
        a["err"] = [v * s for v in a["err"]] if isinstance(a["err"], (list, tuple)) else a["err"] * s
    elif a["matrix_type"] == "cov":
        a["matrix"] = (np.array(a["matrix"], dtype=float) * s**2).tolist()
    else:
        ev = a["err_val"]
        a["err_val"] = [v * s for v in ev] if isinstance(ev, (list, tuple)) else ev * s
    return [op[0], a]


def _scale_constraint(cop, s):
    a = dict(cop[1])
    if cop[0] == "add_parameter_constraint":
        f = unit_factor(a["name"], s)
        a["value"] = a["value"] * f
        if not a.get("relative"):
            a["uncertainty"] = a["uncertainty"] * f
        return [cop[0], a]
    f = np.array([unit_factor(n, s) for n in a["names"]])
    a["values"] = [v * fi for v, fi in zip(a["values"], f)]
    if not a.get("relative"):
        if a["matrix_type"] == "cov":
            a["matrix"] = (np.array(a["matrix"], dtype=float) * np.outer(f, f)).tolist()
        else:
            a["uncertainties"] = [u * fi for u, fi in zip(a["uncertainties"], f)]
    return [cop[0], a]


def transform_scaling(problem, variant):
    s = float(variant["s"])
    q = copy.deepcopy(problem)
    for mb in q["members"]:
        sp = mb["spec"]
        key = "y" if sp["type"] == "xy" else "data"
        sp[key] = [v * s for v in sp[key]]
        old = Model.from_spec(sp["model"])
        sp["model"] = Model(old.family, order=old.order, name=old.name, defaults=[d * unit_factor(n, s) for n, d in zip(old.pnames, old.defaults)]).spec()
        mb["setup"] = [_scale_source(op, sp["type"], s) for op in mb["setup"]]
    q["constraints"] = [_scale_constraint(c, s) for c in q["constraints"]]
    q["fixed"] = {n: v * unit_factor(n, s) for n, v in q["fixed"].items()}
    q["limits"] = {n: [None if b is None else b * unit_factor(n, s) for b in lim] for n, lim in q["limits"].items()}
    q["start"] = {n: v * unit_factor(n, s) for n, v in q["start"].items()}
    if q["step"] is not None:
        q["step"] = {n: v * unit_factor(n, s) for n, v in q["step"].items()}
    return q, {"s": s}


TRANSFORMS = {"point-perm": transform_point_perm, "par-perm": transform_par_perm, "scaling": transform_scaling}


# ------------------------------------------------------------------ building a problem as a live kafe2 fit
class Built:
    def __init__(self, problem, with_ref):
        from kafe2.fit import MultiFit

        self.problem = problem
        mini = problem["minimizer"]
        if with_ref:
            self.members = [Member(m["spec"], m["setup"], minimizer=mini) for m in problem["members"]]
            self.member_fits = [mb.fit for mb in self.members]
            self.refs = [mb.ref for mb in self.members]
        else:
            self.member_fits = []
            for m in problem["members"]:
                spec = dict(m["spec"], minimizer=mini)
                f = dsl.build_fit(spec)
                for op in m["setup"]:
                    dsl.apply_live(f, spec, op)
                self.member_fits.append(f)
        self.fit = MultiFit(self.member_fits, minimizer=mini) if problem["kind"] == "multi" else self.member_fits[0]
        fit = self.fit
        self.names = list(fit.parameter_names)
        for cop in problem["constraints"]:
            a = cop[1]
            if cop[0] == "add_parameter_constraint":
                fit.add_parameter_constraint(name=a["name"], value=a["value"], uncertainty=a["uncertainty"], relative=a.get("relative", False))
            else:
                fit.add_matrix_parameter_constraint(names=a["names"], values=a["values"], matrix=a["matrix"], matrix_type=a["matrix_type"], uncertainties=a.get("uncertainties"), relative=a.get("relative", False))
        if problem["step"] is not None:
            fit.parameter_errors = [problem["step"][n] for n in self.names]
        self.n_data = int(sum(len(m["spec"]["x"]) for m in problem["members"]))

    def configure(self):
        fit, problem = self.fit, self.problem
        for n, (lo, hi) in problem["limits"].items():
            fit.limit_parameter(n, lo, hi)
        if problem["start"]:
            fit.set_parameter_values(**problem["start"])
        for n, v in problem["fixed"].items():
            fit.fix_parameter(n, v)

    def vec(self, d, default=np.nan):
        return np.array([d.get(n, default) for n in self.names], dtype=float)


def read_results(b, asym, band_x):
    fit = b.fit
    out = {"names": list(b.names)}
    out["values"] = np.array(fit.parameter_values, dtype=float)
    cm = fit.parameter_cov_mat
    out["cov"] = None if cm is None else np.array(cm, dtype=float)
    out["errors"] = np.array(fit.parameter_errors, dtype=float)
    cr = fit.parameter_cor_mat
    out["cor"] = None if cr is None else np.array(cr, dtype=float)
    out["gof"] = fit.goodness_of_fit
    out["cost"] = float(fit.cost_function_value)
    out["ndf"] = int(fit.ndf)
    out["prob"] = fit.chi2_probability
    out["values_by_name"] = dict(zip(b.names, out["values"]))
    out["bands"] = []
    if band_x is not None:
        try:
            out["bands"] = read_bands(b, band_x, out["cov"])
        except Exception:
            # error_band needs finite parameter errors (numerical derivative steps): treated like an unavailable covariance matrix
            out["bands"] = []
            out["bands_raised"] = fmt_exc().strip().splitlines()[-1][:120]
    if asym:
        with time_limit(120):
            ae = fit.asymmetric_parameter_errors
        out["asym"] = None if ae is None else np.array(ae, dtype=float)
    return out


def read_bands(b, band_x, cov):
    bands = []
    for f, xs in zip(b.member_fits, band_x):
        if xs is None or cov is None:
            bands.append(None)
        else:
            bands.append(np.array(f.error_band(np.array(xs, dtype=float)), dtype=float))
    return bands


# ------------------------------------------------------------------ classifiers of known mechanisms (predicates over the witness)
def fd_cov(b, cov_guess):
    """Covariance matrix from central second differences of kafe2's *own* cost function of the fit `b`, with steps of 0.1 and 0.05
    conditional sigma of every parameter (taken from `cov_guess`; Richardson-extrapolated) — what an error matrix that does not
    depend on the units of the parameters looks like.  Used only to decide *why* an uncertainty comparison failed."""
    fitter = b.fit._fitter
    names = b.names
    fixed = set(fitter.fixed_parameters)
    free = [i for i, n in enumerate(names) if n not in fixed]
    p0 = np.array(b.fit.parameter_values, dtype=float)
    f = fitter._fcn_wrapper
    Ci = np.linalg.inv(np.asarray(cov_guess, dtype=float)[np.ix_(free, free)])
    k = len(free)
    f0 = f(*p0)

    def hess(step):
        h = np.zeros(len(names))
        h[free] = step / np.sqrt(np.diag(Ci))
        H = np.zeros((k, k))
        for a, i in enumerate(free):
            for c, j in enumerate(free):
                if c < a:
                    continue
                if i == j:
                    pp, pm = p0.copy(), p0.copy()
                    pp[i] += h[i]
                    pm[i] -= h[i]
                    H[a, a] = (f(*pp) - 2 * f0 + f(*pm)) / h[i] ** 2
                else:
                    v = 0.0
                    for si, sj in ((1, 1), (1, -1), (-1, 1), (-1, -1)):
                        q = p0.copy()
                        q[i] += si * h[i]
                        q[j] += sj * h[j]
                        v += si * sj * f(*q)
                    H[a, c] = H[c, a] = v / (4 * h[i] * h[j])
        return H

    try:
        H = (4.0 * hess(0.05) - hess(0.1)) / 3.0
    finally:
        f(*p0)
    C = np.zeros((len(names), len(names)))
    C[np.ix_(free, free)] = 2.0 * np.linalg.inv(H)
    return C


def _ndev(A, B):
    """largest deviation of two covariance matrices in units of sqrt(B_ii B_jj)"""
    if A is None or B is None:
        return np.inf
    d = np.sqrt(np.abs(np.diag(B)))
    nrm = np.where(np.outer(d, d) > 0, np.outer(d, d), 1.0)
    with np.errstate(invalid="ignore"):
        x = np.abs(np.asarray(A, dtype=float) - B) / nrm
    return float(np.max(np.where(np.isnan(x), np.inf, x)))


def classify_cov(info):
    """Failing uncertainty observable (errors / covariance / correlation / error band, or a covariance matrix available for only
    one of the two problems).
    KEY_ND_HESSIAN: transformation = scaling AND backend = scipy AND both reported matrices have their zero rows / columns exactly at
    the fixed parameters (no index slip) AND the finite-difference covariance matrices (steps proportional to sigma) of the cost
    functions of the two fits agree with each other through the relabelling AND at least one of the two *reported* matrices disagrees
    with the finite-difference matrix of its own fit — i.e. the problems are equivalent, only the absolute steps of the numerical
    Hessian did not fit one of the two unit systems."""
    if info["minimizer"] != "scipy" or info["kind"] != "scaling":
        return None
    try:
        base, tb = info["base_built"], info["built"]
        for bt, rep in ((base, info["reported_b"]), (tb, info["reported_t"])):
            if rep is None:
                continue
            fixed = set(bt.fit._fitter.fixed_parameters)
            for i, n in enumerate(bt.names):
                row_zero = bool(np.all(np.asarray(rep)[i] == 0)) and bool(np.all(np.asarray(rep)[:, i] == 0))
                if row_zero != (n in fixed):
                    return None
        idx = [base.names.index(n) for n in tb.names]
        fac = info["fac"]
        guess_b = info["cov_ref_b"]
        guess_t = guess_b[np.ix_(idx, idx)] * np.outer(fac, fac)
        Fb = fd_cov(base, guess_b)
        Ft = fd_cov(tb, guess_t)
        Fb_t = Fb[np.ix_(idx, idx)] * np.outer(fac, fac)
        if not (np.all(np.isfinite(Fb)) and np.all(np.isfinite(Ft))) or _ndev(Ft, Fb_t) > 0.1:
            return None
        tol = info["cov_tol"]
        if _ndev(info["reported_t"], Ft) > tol or _ndev(info["reported_b"], Fb) > tol:
            return KEY_ND_HESSIAN
    except Exception:
        return None
    return None


def classify_errors(info, got_errors, got_cov, exp_cov, etol):
    """Failing parameter_errors.
    KEY_MIGRAD_ERR: backend = iminuit AND the covariance matrices of the two fits agree AND the reported errors of one of the two
    fits are not the square roots of the diagonal of its own covariance matrix (the errors were cached before HESSE ran)."""
    if info["minimizer"] == "iminuit" and got_cov is not None:
        d = np.sqrt(np.abs(np.diag(exp_cov)))
        nrm = np.where(np.outer(d, d) > 0, np.outer(d, d), 1.0)
        cov_ok = bool(np.all(np.abs(got_cov - exp_cov) / nrm <= 2 * etol))
        incons = 0.0
        for e, C in ((got_errors, got_cov), (info["base_errors"], info["base_cov"])):
            sd = np.sqrt(np.abs(np.diag(C)))
            m = sd > 0
            if m.any():
                incons = max(incons, float(np.max(np.abs(np.asarray(e)[m] / sd[m] - 1.0))))
        if cov_ok and incons > 0.5 * etol:
            return KEY_MIGRAD_ERR
    return classify_cov(info)


def classify_optimum(info, tres, bres, to_t, to_b, shift, ctol):
    """Failing parameter_values / goodness_of_fit / cost_function_value / chi2_probability.
    KEY_SCIPY_MIN: transformation = scaling AND backend = scipy AND one of the two fits stopped short of the minimum of its
    *own* cost function: the cost of the transformed fit at the (scaled) base optimum is measurably lower (> 1e-5, three orders
    above the pre-fit agreement of the two cost functions) than at its reported optimum, or vice versa."""
    if info["minimizer"] != "scipy":
        return None
    if info["kind"] != "scaling":
        # permutations: the two fits minimise the same function of the same numbers; if repeating do_fit() on the fit that reports the
        # higher cost lowers it measurably, that fit had stopped short - the signature of the open scipy-adapter finding
        try:
            hi = info["built"] if tres["cost"] > bres["cost"] else info["base_built"]
            c_before = float(hi.fit.cost_function_value)
            hi.fit.do_fit()
            if float(hi.fit.cost_function_value) < c_before - (ctol + 1e-8 * abs(c_before)):
                return "C06/scipy-backend-accepts-unconverged-result"
        except Exception:
            return None
        return None
    try:
        ft = info["built"].fit._fitter._fcn_wrapper
        fb = info["base_built"].fit._fitter._fcn_wrapper
        ct_at_exp = float(ft(*to_t(bres["values"])))
        ft(*tres["values"])
        cb_at_tr = float(fb(*to_b(tres["values"])))
        fb(*bres["values"])
        eps = 1e-5 + 1e-8 * (abs(tres["cost"]) + abs(bres["cost"]))  # 10^3 x the agreement of the two cost functions before fitting
        if np.isfinite(ct_at_exp) and ct_at_exp < tres["cost"] - eps:
            return KEY_SCIPY_MIN
        if np.isfinite(cb_at_tr) and cb_at_tr < bres["cost"] - eps:
            return KEY_SCIPY_MIN
    except Exception:
        return None
    return None


def true_profile_rise(fit, i, delta):
    """rise of the fit's own cost function above its optimum with parameter i pinned at optimum + delta, re-minimised over the other
    free parameters by an independent derivative-free search (Nelder-Mead, simplex of the size of the reported uncertainties)"""
    from scipy import optimize

    fcn = fit._fitter._fcn_wrapper
    names = list(fit.parameter_names)
    p0 = np.array(fit.parameter_values, dtype=float)
    err = np.array(fit.parameter_errors, dtype=float)
    fixed = set(fit._fitter.fixed_parameters)
    others = [k for k, n in enumerate(names) if k != i and n not in fixed and np.isfinite(err[k]) and err[k] > 0]
    c0 = float(fcn(*p0))

    def g(u):
        p = p0.copy()
        p[i] = p0[i] + delta
        p[others] = u
        v = float(fcn(*p))
        return v if np.isfinite(v) else 1e300

    try:
        if others:
            x0 = p0[others]
            simplex = np.vstack([x0] + [x0 + np.eye(len(others))[k] * err[others][k] for k in range(len(others))])
            res = optimize.minimize(g, x0, method="Nelder-Mead", options={"initial_simplex": simplex, "xatol": 1e-6 * float(np.min(err[others])), "fatol": 1e-8, "maxiter": 4000})
            best = float(res.fun)
        else:
            best = g(np.zeros(0))
    finally:
        fcn(*p0)  # write the optimum back into the graph
    return best - c0


def asym_inner_minimisation_stopped_short(tb, names_t, ae, bad_rows, info, base=None, base_asym=None, bad_entries=None):
    """explain-check for the open finding KEY_SCIPY_MIN in the asymmetric-error search: transformation = scaling AND backend = scipy AND
    for every failing entry (parameter, side) the true profile of one of the two fits (its own cost function, re-minimised over the
    other free parameters by an independent derivative-free search, with the parameter pinned at optimum + reported error) has risen
    by clearly less than 1 (< 0.95): that fit's search cut the profile where scipy's re-minimisation of the other parameters had
    stopped short (profile too high), not where the true profile reaches 1.  A scaling error in kafe2's own search would put the
    reported error of the transformed fit beyond or short of the crossing by the same factor on every parameter and both sides."""
    if info["kind"] != "scaling" or info["minimizer"] != "scipy" or not bad_rows:
        return None
    try:
        entries = bad_entries or [(i, 1) for i in bad_rows[:1]]
        for i, side in entries[:4]:
            short = False
            r_t = true_profile_rise(tb.fit, i, float(ae[i][side]))
            if np.isfinite(r_t) and r_t < 0.95:
                short = True
            elif base is not None and base_asym is not None and names_t[i] in base.names:
                ib = base.names.index(names_t[i])
                r_b = true_profile_rise(base.fit, ib, float(np.asarray(base_asym, dtype=float)[ib][side]))
                short = bool(np.isfinite(r_b) and r_b < 0.95)
            if not short:
                return None
        return KEY_SCIPY_MIN
    except Exception:
        return None


def classify_asym(info):
    """scipy's generic profile root finding stops at |dx| < tolerance = 1e-6 in *absolute* parameter units.
    KEY_SCIPY_XTOL: transformation = scaling AND backend = scipy AND every failing entry belongs to a parameter whose sigma is
    < 1e-3 in the units of one of the two problems (i.e. xtol > 1e-3 sigma) AND the symmetric errors agreed."""
    if info["kind"] != "scaling" or info["minimizer"] != "scipy":
        return None
    bad = info["bad_rows"]
    if len(bad) and all(0 < min(info["sigma_b"][i], info["sigma_t"][i]) < 1e-3 for i in bad):
        return KEY_SCIPY_XTOL
    return None


# ------------------------------------------------------------------ comparison of one triple
def _permute_expected(base_names, tr_names, vec=None, mat=None):
    idx = [base_names.index(n) for n in tr_names]
    if vec is not None:
        return np.asarray(vec)[idx]
    return np.asarray(mat)[np.ix_(idx, idx)]


def compare_triple(ctx, case, vi, base, bres, sig_b, guards):
    tkind = case["transform"]
    problem = case["base"]
    mini = problem["minimizer"]
    variant = case["variants"][vi]
    tproblem, tinfo = TRANSFORMS[tkind](problem, variant)
    s = tinfo.get("s", 1.0)
    tag = {"variant": vi, "transform": tkind, "minimizer": mini}
    if tkind == "scaling":
        tag["s"] = s
    try:
        tb = Built(tproblem, with_ref=False)
    except Exception:
        ctx.violation(None, "transformed.build.no-exception", dict(tag, traceback=fmt_exc()))
        return
    names_b, names_t = base.names, tb.names
    if not ctx.check("parameter_names.same-set", sorted(names_b) == sorted(names_t), lambda: dict(tag, got=names_t, expected=names_b)):
        return
    if tkind == "par-perm":
        ctx.add_to_set("par-perm-order", "%s->%s" % (",".join(names_b), ",".join(names_t)))
    fac = np.array([unit_factor(n, s) for n in names_t])
    fac_b = np.array([unit_factor(n, s) for n in names_b])
    N = base.n_data
    shift = 2.0 * N * np.log(s)

    def to_t(vec_b):
        return _permute_expected(names_b, names_t, vec=vec_b) * (fac if np.ndim(vec_b) == 1 else fac[:, None])

    def to_b(vec_t):
        return _permute_expected(names_t, names_b, vec=vec_t) / fac_b

    def mat_to_t(mat_b):
        return _permute_expected(names_b, names_t, mat=mat_b) * np.outer(fac, fac)

    # ---- initial step sizes (0.1 |default| of the transformed model, or the transformed explicit ones)
    es_t = np.array(tb.fit.parameter_errors, dtype=float)
    ctx.close("initial_step_sizes", es_t, to_t(base.initial_steps), tol=Tol.custom("ULP4", 1e-12, 0.0), detail=tag)

    # ---- before fitting: cost / chi2 / ndf / probability at common parameter points (the last one is the start point)
    tb.configure()
    ok = True
    for k, (pt, ref_b) in enumerate(zip(case["meta"]["cost_points"] + [problem["start"]], base.prefit)):
        tb.fit.set_parameter_values(**{n: v * unit_factor(n, s) for n, v in pt.items()})
        c_t = float(tb.fit.cost_function_value)
        g_t = tb.fit.goodness_of_fit
        c_b, g_b = ref_b["cost"], ref_b["gof"]
        scale = abs(g_b) + abs(c_b - g_b) + abs(shift) + 1.0
        ok &= ctx.close("prefit.cost_function_value", c_t, c_b + shift, tol=Tol.LINALG, scale=scale, detail=dict(tag, point=k, shift_2N_ln_s=shift))
        ok &= ctx.close("prefit.goodness_of_fit", g_t, g_b, tol=Tol.LINALG, scale=scale, detail=dict(tag, point=k))
        if k == 0:
            ok &= ctx.eq("prefit.ndf", int(tb.fit.ndf), ref_b["ndf"], detail=tag)
            p_t, p_b = tb.fit.chi2_probability, ref_b["prob"]
            if p_b is not None and p_t is not None:
                ok &= ctx.close("prefit.chi2_probability", p_t, p_b, tol=Tol.custom("PROB", 1e-6, 1e-12), detail=tag)
    if not ok:
        return  # first divergence ends this triple

    # ---- fit the transformed problem
    ctx.op("do_fit")
    try:
        with time_limit(120):
            tb.fit.do_fit()
    except OpTimeout:
        ctx.violation(None, "transformed.do_fit.terminates", tag)
        return
    except Exception:
        ctx.violation(None, "transformed.do_fit.no-exception", dict(tag, traceback=fmt_exc()))
        return
    try:
        tres = read_results(tb, asym=False, band_x=None)
    except Exception:
        ctx.violation(None, "transformed.read.no-exception", dict(tag, traceback=fmt_exc()))
        return

    if not np.isfinite(tres["cost"]) or not np.isfinite(bres["cost"]) or min(tres["cost"], bres["cost"]) < -1e9:
        # one of the two minimisations ran away into a region where the cost is unbounded below (log-determinant of a collapsing
        # parameter-dependent covariance): an ill-posed problem has no optimum the relabelled fit could be compared with
        ctx.discard("cost-unbounded-below-minimisation-ran-away")
        return
    ptol, ctol = (1e-2, 1e-3) if mini == "iminuit" else (5e-2, 5e-3)
    # Minuit2's HESSE with strategy 1 (kafe2's setting) iterates its step sizes only until the second derivatives change by less
    # than 5 % (MnStrategy: HessianG2Tolerance = 0.05, at most 3 cycles): exact for a parabolic cost, +-2.5 % in sigma otherwise
    etol = 2e-2 if (mini == "scipy" or guards["parabolic"]) else 5e-2
    if mini == "iminuit" and not guards["parabolic"]:
        # ... and a relative error eps in a diagonal element of the Hessian moves the variance by eps / (1 - rho_k^2) (rho_k: global
        # correlation coefficient; same yardstick as C07): sigma tolerance 0.5 * 5 % * max_k C_kk (C^-1)_kk, capped at 15 %
        # (thorough tier: cubic polynomial with x errors, rho^2 ~ 0.99, uncertainties 3.5-6.4 % apart after scaling by 52)
        try:
            _cr = np.array(guards["cov_ref"], dtype=float)
            _amp = float(np.max(np.diag(_cr) * np.diag(np.linalg.inv(_cr))))
            if np.isfinite(_amp):
                etol = max(etol, min(0.15, 0.025 * _amp))
        except Exception:
            pass
    free_t = [i for i, n in enumerate(names_t) if n not in problem["fixed"]]
    fix_t = [i for i, n in enumerate(names_t) if n in problem["fixed"]]
    sig_t = np.array([sig_b.get(n, 0.0) for n in names_t]) * fac
    sig_safe = np.where(sig_t > 0, sig_t, 1.0)
    wk = "%s|%s" % (tkind, mini)
    cov_ref_b = np.zeros((len(names_b), len(names_b)))
    fi = [names_b.index(n) for n in guards["free_ref"]]
    cov_ref_b[np.ix_(fi, fi)] = guards["cov_ref"]
    info = {"kind": tkind, "minimizer": mini, "built": tb, "base_built": base, "fac": fac, "cov_ref_b": cov_ref_b, "reported_b": bres["cov"], "reported_t": tres["cov"], "cov_tol": 2 * etol}
    cache = {}

    def worst(name, v):
        k = "%s|%s" % (name, wk)
        if np.isfinite(v):
            ctx.worst[k] = max(ctx.worst.get(k, 0.0), float(v))

    def key_opt():
        if "o" not in cache:
            cache["o"] = classify_optimum(info, tres, bres, to_t, to_b, shift, ctol)
        return cache["o"]

    # values (fixed parameters exactly)
    exp_v = to_t(bres["values"])
    dev = np.abs(tres["values"] - exp_v) / sig_safe
    dev = np.where(np.isnan(dev), np.inf, dev)
    okv = ctx.check(
        "parameter_values",
        bool(np.all(dev[free_t] <= ptol)),
        lambda: dict(tag, names=names_t, got=tres["values"], expected=exp_v, sigma_ref=sig_t, deviation_in_sigma=dev, tolerance_sigma=ptol),
        key=key_opt,
    )
    if okv and free_t:
        worst("dp_sigma", float(np.max(dev[free_t])))
    if fix_t:
        ctx.eq("fixed_untouched", tres["values"][fix_t], np.array([tproblem["fixed"][names_t[i]] for i in fix_t], dtype=float), detail=tag)
    # chi2 is not the minimised function when V depends on the parameters: a shift of ptol sigma moves it in first order by
    # ptol * sum_i |sigma_i d(ln det V)/dp_i| (yardstick from the reference, 0 for parameter-independent V)
    gtol = ctol + ptol * guards["gof_sensitivity"]
    okg = ctx.check(
        "goodness_of_fit",
        tres["gof"] is not None and abs(tres["gof"] - bres["gof"]) <= gtol,
        lambda: dict(tag, got=tres["gof"], expected=bres["gof"], tolerance=gtol, tolerance_cost=ctol, first_order_sensitivity_per_sigma=guards["gof_sensitivity"]),
        key=key_opt,
    )
    if okg:
        worst("dchi2", abs(tres["gof"] - bres["gof"]))
    okc = ctx.check(
        "cost_function_value",
        abs(tres["cost"] - (bres["cost"] + shift)) <= ctol,
        lambda: dict(tag, got=tres["cost"], expected=bres["cost"] + shift, base=bres["cost"], shift_2N_ln_s=shift, tolerance=ctol),
        key=key_opt,
    )
    if okc:
        worst("dcost", abs(tres["cost"] - (bres["cost"] + shift)))
    ctx.eq("ndf", tres["ndf"], bres["ndf"], detail=tag)
    if bres["prob"] is not None and bres["ndf"] > 0:
        g = max(bres["gof"], 0.0)
        ptl = abs(stats.chi2.sf(max(g - gtol, 0.0), bres["ndf"]) - stats.chi2.sf(g + gtol, bres["ndf"])) + 1e-9
        ctx.check("chi2_probability", tres["prob"] is not None and abs(tres["prob"] - bres["prob"]) <= ptl, lambda: dict(tag, got=tres["prob"], expected=bres["prob"], tolerance=ptl), key=key_opt)
    if not (okv and okg and okc):
        return

    # ---- uncertainties
    if guards["skip_uncertainties"] == "base-covariance-not-available":
        # not available for the base problem: then it must not be available for the relabelled problem either
        tC = tres["cov"]
        t_ok = tC is not None and np.all(np.isfinite(tC)) and np.all(np.isfinite(tres["errors"])) and np.all(np.diag(tC)[free_t] > 0)
        if t_ok:

            def key_swapped():
                return classify_cov(info)

            ctx.check(
                "parameter_cov_mat.available-in-both",
                False,
                lambda: dict(tag, names=names_t, base_errors=bres["errors"], base_cov=bres["cov"], base_error_band=bres.get("bands_raised"), transformed_errors=tres["errors"], transformed_cov=tC),
                key=key_swapped,
            )
        else:
            ctx.note("uncertainties-not-compared:covariance-not-available-in-both")
        return
    if guards["skip_uncertainties"]:
        ctx.note("uncertainties-not-compared:" + guards["skip_uncertainties"])
        return
    exp_C = mat_to_t(bres["cov"])
    exp_e = to_t(bres["errors"])
    exp_sd = np.sqrt(np.abs(np.diag(exp_C)))
    e_safe = np.where(exp_sd > 0, exp_sd, 1.0)
    info.update(sigma_t=e_safe, sigma_b=_permute_expected(names_b, names_t, vec=np.sqrt(np.abs(np.diag(bres["cov"])))), exp_cov=exp_C, base_errors=bres["errors"], base_cov=bres["cov"])

    def key_cov():
        if "c" not in cache:
            cache["c"] = classify_cov(info)
        return cache["c"]

    if tres["cov"] is None:
        ctx.check("parameter_cov_mat", False, dict(tag, got=None), key=key_cov)
        return
    nrm = np.outer(e_safe, e_safe)
    with np.errstate(invalid="ignore"):
        dC = np.abs(tres["cov"] - exp_C) / nrm
    dC = np.where(np.isnan(dC), np.inf, dC)
    okC = ctx.check(
        "parameter_cov_mat", bool(np.all(dC <= 2 * etol)), lambda: dict(tag, names=names_t, got=tres["cov"], expected=exp_C, max_normalised_deviation=float(dC.max()), tolerance=2 * etol), key=key_cov
    )
    if okC:
        worst("dcov_norm", float(dC.max()))
    with np.errstate(invalid="ignore"):
        de = np.abs(tres["errors"] - exp_e) / np.where(exp_e > 0, exp_e, 1.0)
    de = np.where(np.isnan(de), np.inf, de)
    oke = ctx.check(
        "parameter_errors",
        bool(np.all(de <= etol)),
        lambda: dict(tag, names=names_t, got=tres["errors"], expected=exp_e, relative_deviation=de, tolerance=etol, sqrt_diag_cov_got=np.sqrt(np.abs(np.diag(tres["cov"]))), sqrt_diag_cov_expected=exp_sd),
        key=lambda: classify_errors(info, tres["errors"], tres["cov"], exp_C, etol),
    )
    if oke:
        worst("derr_rel", float(np.max(de)))
    if bres["cor"] is not None:
        exp_R = _permute_expected(names_b, names_t, mat=bres["cor"])
        if tres["cor"] is None:
            ctx.check("parameter_cor_mat", False, dict(tag, got=None), key=key_cov)
        else:
            with np.errstate(invalid="ignore"):
                dR = np.abs(tres["cor"] - exp_R)
            dR = np.where(np.isnan(dR), np.inf, dR)
            ctx.check("parameter_cor_mat", bool(np.all(dR <= etol)), lambda: dict(tag, names=names_t, got=tres["cor"], expected=exp_R, tolerance=etol), key=key_cov)
    if not okC:
        return
    # error band: sqrt(g^T C g), g = df/dp at the optimum
    if any(bb is not None for bb in bres["bands"]):
        try:
            tbands = read_bands(tb, base.band_x, tres["cov"])
        except Exception:
            ctx.violation(key_cov(), "transformed.error_band.no-exception", dict(tag, traceback=fmt_exc()))
            return
        for j, (bb, tbnd) in enumerate(zip(bres["bands"], tbands)):
            if bb is None or tbnd is None:
                continue
            exp_b = bb * s
            okb = bool(np.all(np.isfinite(tbnd))) and bool(np.all(np.abs(tbnd - exp_b) <= 1.5 * etol * np.abs(exp_b) + 1e-12 * s))
            ctx.check("error_band", okb, lambda: dict(tag, member=j, x=base.band_x[j], got=tbnd, expected=exp_b, tolerance_rel=1.5 * etol), key=key_cov)
    if not oke:
        return

    # ---- the fitted state written with save_state and read by a freshly built fit of the same (transformed) problem: values and
    # uncertainties must come back under the names they belong to, whatever the order or spelling of the names
    if problem["kind"] != "multi":
        import os
        import shutil
        import tempfile

        tdir = tempfile.mkdtemp(prefix="verif-c15-")
        try:
            ctx.op("save_state/load_state")
            path = os.path.join(tdir, "state.yml")
            tb.fit.save_state(path)
            twin = Built(tproblem, with_ref=False)
            twin.configure()
            twin.fit.load_state(path)
            gv = np.array(twin.fit.parameter_values, dtype=float)
            ge = np.array(twin.fit.parameter_errors, dtype=float)
            okn = list(twin.fit.parameter_names) == list(names_t)
            okv = okn and bool(np.allclose(gv, tres["values"], rtol=1e-12, atol=0.0, equal_nan=True))
            oke2 = okn and bool(np.allclose(ge, tres["errors"], rtol=1e-9, atol=0.0, equal_nan=True))
            ctx.check("state-round-trip", okv and oke2, lambda: dict(tag, names=names_t, names_after=list(twin.fit.parameter_names), values=tres["values"], values_after=gv, errors=tres["errors"], errors_after=ge, sorted_names=sorted(names_t) == list(names_t)))
            if sorted(names_t) != list(names_t):
                ctx.stratum("state-round-trip", "names-not-in-alphabetical-order")
        except Exception:
            ctx.violation(None, "state-round-trip.no-exception", dict(tag, traceback=fmt_exc()))
            return
        finally:
            shutil.rmtree(tdir, ignore_errors=True)

    # ---- asymmetric errors (read last: the query itself may move the fit slightly, C08)
    if case.get("asym") and bres.get("asym") is not None:
        try:
            with time_limit(120):
                ae = tb.fit.asymmetric_parameter_errors
        except OpTimeout:
            ctx.violation(None, "transformed.asymmetric_parameter_errors.terminates", tag)
            return
        except Exception:
            ctx.violation(classify_asym(dict(info, bad_rows=list(free_t))), "transformed.asymmetric_parameter_errors.no-exception", dict(tag, traceback=fmt_exc()))
            return
        if ae is None:
            ctx.check("asymmetric_parameter_errors", False, dict(tag, got=None, expected=bres["asym"]))
            return
        ae = np.array(ae, dtype=float)
        exp_a = to_t(bres["asym"])
        # what is invariant are the crossing points (reported optimum + asymmetric error) of the profile with min + 1; the reported
        # optimum itself may differ by ptol sigma between the two fits (compared above), which moves both errors by that amount in
        # opposite directions: that displacement is taken out here instead of being counted twice
        disp = np.where(np.isfinite(tres["values"] - exp_v), tres["values"] - exp_v, 0.0)
        with np.errstate(invalid="ignore"):
            da = np.abs(ae + disp[:, None] - exp_a) / e_safe[:, None]
        da = np.where(np.isnan(da), np.inf, da)
        atol = max(ptol, etol)
        bad_rows = [i for i in range(len(names_t)) if np.any(da[i] > atol)]
        oka = ctx.check(
            "asymmetric_parameter_errors",
            not bad_rows,
            lambda: dict(tag, names=names_t, got=ae, expected=exp_a, optimum_displacement=disp, deviation_of_crossing_points_in_sigma=da, tolerance_sigma=atol, sigma_transformed=e_safe),
            key=lambda: classify_asym(dict(info, bad_rows=bad_rows)) or asym_inner_minimisation_stopped_short(tb, names_t, ae, bad_rows, info, base=base, base_asym=bres["asym"], bad_entries=[(i, sd) for i in bad_rows for sd in (0, 1) if da[i][sd] > atol]),
        )
        if oka:
            worst("dasym_sigma", float(da.max()))
        ctx.stratum("asym", mini)


# ------------------------------------------------------------------ one case
def run_case(ctx, case):
    ctx.reseed_legacy()
    for why, n in (case.get("gen_discards") or {}).items():
        for _ in range(n):
            ctx.discard("generator:" + why)
    if case.get("transform") is None:
        ctx.discard("generator:no-well-posed-problem-found")
        return False
    tkind = case["transform"]
    problem = case["base"]
    mini = problem["minimizer"]
    base = Built(problem, with_ref=True)
    names = base.names
    base.initial_steps = np.array(base.fit.parameter_errors, dtype=float)
    base.configure()
    # well-posedness on the reference (re-checked here so that a replay file alone decides)
    pd = dict(case["meta"]["truth"])
    pd.update(problem["fixed"])
    yd = yardstick(base.refs, names, problem["constraints"], problem["fixed"], pd)
    if not yd["ok"] or yd["cond"] > 1e6 or yd["nonlinearity"] > 0.25:
        ctx.discard("ill-posed:" + (yd.get("why") or ("normal-matrix-cond-gt-1e6" if yd["cond"] > 1e6 else "model-nonlinear-over-one-sigma")))
        return False
    # probe points before the fit
    base.prefit = []
    for pt in case["meta"]["cost_points"] + [problem["start"]]:
        base.fit.set_parameter_values(**pt)
        base.prefit.append({"cost": float(base.fit.cost_function_value), "gof": base.fit.goodness_of_fit, "ndf": int(base.fit.ndf), "prob": base.fit.chi2_probability})
    if not all(np.isfinite(r["cost"]) and r["gof"] is not None and np.isfinite(r["gof"]) for r in base.prefit):
        ctx.discard("base-cost-not-finite")
        return False
    ctx.op("do_fit")
    try:
        with time_limit(120):
            base.fit.do_fit()
    except (Exception, OpTimeout):
        ctx.discard("base-fit-raised")
        ctx.note("base-fit-raised:" + fmt_exc().strip().splitlines()[-1][:80])
        return False
    # x values for the error band: a few points inside the data range, common to all variants
    base.band_x = []
    for m in problem["members"]:
        if m["spec"]["type"] == "xy":
            xs = np.array(m["spec"]["x"], dtype=float)
            base.band_x.append([float(v) for v in np.linspace(xs.min(), xs.max(), 5) + 0.013])
        else:
            base.band_x.append(None)
    try:
        bres = read_results(base, asym=bool(case.get("asym")), band_x=base.band_x)
    except OpTimeout:
        ctx.discard("base-asymmetric-errors-timeout")
        return False
    except Exception:
        ctx.discard("base-read-raised")
        ctx.note("base-read-raised:" + fmt_exc().strip().splitlines()[-1][:80])
        return False
    if bres["gof"] is None or not np.isfinite(bres["gof"]) or not np.all(np.isfinite(bres["values"])):
        ctx.discard("base-result-not-finite")
        return False
    # yardstick at the base optimum
    pdo = dict(zip(names, bres["values"]))
    yo = yardstick(base.refs, names, problem["constraints"], problem["fixed"], pdo)
    if not yo["ok"] or yo["cond"] > 1e7 or yo["nonlinearity"] > 0.5:
        ctx.discard("ill-posed-at-optimum")
        return False
    sig_b = yo["sigma"]
    guards = {"skip_uncertainties": None, "gof_sensitivity": 0.0, "cov_ref": yo["cov"], "free_ref": yo["free"]}
    guards["parabolic"] = all(r.model.linear and not r.has_x_source() and not any(s_["reference"] == "model" for s_ in r.sources) for r in base.refs)
    # first-order sensitivity of chi2 (= cost - ln det V) to the position of the optimum, per sigma (yardstick only)
    for r in base.refs:
        if not (r.has_x_source() or any(s_["reference"] == "model" and s_["enabled"] for s_ in r.sources)):
            continue
        for n in names:
            if n in problem["fixed"] or n not in r.model.pnames:
                continue
            h = 1e-3 * sig_b[n]
            lp, lm = [], []
            for sign, acc in ((1.0, lp), (-1.0, lm)):
                q = dict(pdo)
                q[n] = pdo[n] + sign * h
                acc.append(r.logdet(np.array([q[k] for k in r.model.pnames], dtype=float)))
            d = (lp[0] - lm[0]) / (2 * h)
            if np.isfinite(d):
                guards["gof_sensitivity"] += abs(d) * sig_b[n]
    near_limit = False
    active = False
    for n, (lo, hi) in problem["limits"].items():
        v = pdo[n]
        for bnd in (lo, hi):
            if bnd is not None and abs(v - bnd) <= 3.0 * sig_b[n]:
                near_limit = True
            if bnd is not None and abs(v - bnd) <= 1e-3 * sig_b[n]:
                active = True
    # strata (recorded only for problems that were really fitted)
    subsets = [sname for sname, present in (("fixed", bool(problem["fixed"])), ("limited", bool(problem["limits"])), ("constrained", bool(problem["constraints"]))) if present]
    for sname in subsets:
        ctx.stratum(tkind, mini, sname)
    ctx.stratum(problem["kind"])
    if active:
        ctx.stratum("active-limit")
    lin = True
    for m, r in zip(problem["members"], base.refs):
        fam = m["spec"]["model"]["family"]
        ctx.add_to_set("family", fam)
        lin &= FAMILIES[fam][4]
        if r.has_x_source():
            ctx.stratum("x-errors")
        if any(s_["reference"] == "model" for s_ in r.sources):
            ctx.stratum("model-relative")
        if any(s_["kind"] == "matrix" for s_ in r.sources):
            ctx.stratum("matrix-source")
    ctx.stratum("linear" if lin else "nonlinear")
    if any(c[0] == "add_matrix_parameter_constraint" for c in problem["constraints"]):
        ctx.stratum("constraint-matrix")
    nfree = len(names) - len(problem["fixed"])
    nontrivial = nfree >= 2 or bool(subsets)
    # when are the reported uncertainties comparable at the 2e-2 level?
    free_i = [i for i, n in enumerate(names) if n not in problem["fixed"]]
    if bres["cov"] is None or not np.all(np.isfinite(bres["cov"])) or not np.all(np.isfinite(bres["errors"])) or np.any(np.diag(bres["cov"])[free_i] <= 0) or bres.get("bands_raised"):
        guards["skip_uncertainties"] = "base-covariance-not-available"
    elif near_limit:
        guards["skip_uncertainties"] = "parameter-within-3-sigma-of-a-limit"
    else:
        sd = np.sqrt(np.diag(bres["cov"]))[free_i]
        sr = np.array([sig_b[names[i]] for i in free_i])
        if np.any(np.abs(sd / sr - 1.0) > 0.15):
            guards["skip_uncertainties"] = "strongly-non-parabolic:sigma-differs-from-gauss-newton-sigma-by-more-than-15-percent"
    for vi in range(len(case["variants"])):
        ctx.op("triple")
        ctx.op("triple:%s" % tkind)
        n0 = sum(ctx._wit_per_key.values())
        compare_triple(ctx, case, vi, base, bres, sig_b, guards)
        if sum(ctx._wit_per_key.values()) != n0:
            break
    return nontrivial


_tested = [False]


def run_shard(ctx):
    if not _tested[0]:
        self_test()
        _tested[0] = True
    idx = 0
    while ctx.more():
        case = gen_case(ctx.rng, ctx.tier, idx, ctx.shard, ctx.nshards)
        idx += 1
        ctx.begin_case(case)
        nontrivial = False
        try:
            nontrivial = run_case(ctx, case)
        except Exception:
            ctx.violation(None, "unexpected-exception", {"traceback": fmt_exc()})
        ctx.end_case(nontrivial=nontrivial)


def replay(ctx, case):
    ctx.begin_case(case)
    try:
        run_case(ctx, case)
    except Exception:
        ctx.violation(None, "unexpected-exception", {"traceback": fmt_exc()})
    ctx.end_case(nontrivial=True)
