"""C10 — degrees of freedom, goodness of fit, chi2 probability follow the documented formulas.

Shape: formula monitor over configurations and fix/release/constraint histories.  After every op of a
random history over {fix, release, add simple constraint, add matrix constraint, set values, do_fit}
on every fit type and on multi-fits (constraints added to the multi-fit or to members) the monitor
re-derives ndf, goodness of fit, chi2 probability and result-dict entries from the declared state.
Multi-fits: members with permuted signature orders (the index of a parameter in a member differs from its index
in the multi-fit) and, in half of the cases, uncertainty sources shared through MultiFit.add_error /
add_matrix_error at a random position of the history (reference: joint r^T V^-1 r with the shared matrix in the
diagonal and off-diagonal blocks of the sharing members + every declared constraint cost).
"""
import numpy as np
from scipy import stats

from vlib import dsl, gen
from vlib.models import Model
from vlib.monitor import Tol, fmt_exc, numerical_failure
from vlib.ref import COST_ALIASES, IS_CHI2, NEEDS_ERRORS, POISSON, constraint_cost, constraint_ndf, pd_info, source_cov

PROPERTY = "C10"
TIERS = {"quick": {"shards": 8, "budget_s": 35}, "thorough": {"shards": 16, "budget_s": 480}}
RULE = (
    "fit type (xy/indexed/hist/unbinned/multi of 2-3 members with random parameter-name overlap) x cost x sources x random history "
    "(<=10 ops quick / <=25 thorough) over fix/release/simple+matrix constraints (on the fit, the multi-fit or a member)/set values/do_fit; "
    "every observable re-derived after every op; non-trivial = history contains a fix or release, a constraint, or is a multi-fit; distinct by case hash; "
    "multi-fits: signature order of every member permuted with p = 0.5; half of them with 1-2 absolute y sources (simple / matrix) shared by 2..all covariance-chi2 "
    "xy / indexed members of equal size, added through the multi-fit at a random position of the history (before / after fix, member constraints, do_fit)"
)
ASSUMPTIONS = [
    "documented: ndf = N_data + N_constraint_measurements - N_parameters + N_fixed; gof = cost - cost(model := data) without determinant term; "
    "chi2 probability = chi2.sf(cost - ln det V, ndf) for chi2-type costs, None otherwise",
    "UnbinnedFit.goodness_of_fit is documented None and asserted as such",
    "configurations restricted to positive-definite total covariance (cond <= 1e8); chi2 probability compared with absolute tolerance 1e-10 (the code evaluates 1 - cdf)",
    "multi-fits with shared sources: chi2-type members use the covariance chi2 ('chi2') and own at least one source; joint covariance cond <= 1e6 (as C11); "
    "shared sources are absolute, data-referenced, on the y axis (relative / x sources and their refusals are C11's workload)",
]
ANCHORS = [
    ("kafe2.fit._base.fit", "FitBase.ndf"),
    ("kafe2.fit._base.fit", "FitBase.goodness_of_fit"),
    ("kafe2.fit._base.fit", "FitBase.chi2_probability"),
    ("kafe2.fit._base.cost", "CostFunction.goodness_of_fit"),
    ("kafe2.fit._base.cost", "CostFunction.chi2_probability"),
    ("kafe2.fit._base.cost", "CostFunction_GaussApproximation.goodness_of_fit"),
    ("kafe2.fit._base.model", "ParametricModelBaseMixin.ndf"),
    ("kafe2.fit.multi.fit", "MultiFit.ndf"),
    ("kafe2.fit.multi.fit", "MultiFit.goodness_of_fit"),
    ("kafe2.fit.multi.fit", "MultiFit.chi2_probability"),
    ("kafe2.core.constraint", "GaussianMatrixParameterConstraint.extra_ndf"),
    ("kafe2.core.constraint", "GaussianSimpleParameterConstraint.extra_ndf"),
    ("kafe2.fit.multi.fit", "MultiFit._init_shared_error_nodes"),
    ("kafe2.fit.multi.cost", "SharedCostFunction.__init__"),
]

COSTS = ["chi2", "chi2_pointwise", "chi2_fast", "nll_gaussian", "nllr_gaussian", "nll_poisson", "nllr_poisson", "gauss_approximation", "gauss_approximation_pointwise", "chi2_no_errors"]


def floors(tier):
    return {
        "comparisons": {"ndf": 1500, "goodness_of_fit": 1200, "chi2_probability": 1200, "gof/ndf": 1200, "multi.ndf": 150, "multi.goodness_of_fit": 150, "multi.chi2_probability": 150,
                        "multi.goodness_of_fit(shared)": 60, "multi.goodness_of_fit(shared, member constraint at another index)": 15, "multi.chi2_probability(shared)": 20},
        "ops": ["fix_parameter", "release_parameter", "add_parameter_constraint", "add_matrix_parameter_constraint", "set_parameter_values", "do_fit", "member.add_parameter_constraint", "member.add_matrix_parameter_constraint", "multi.add_error.shared", "multi.add_matrix_error.shared", "read.error_band", "read.derivative_by_parameters", "read.eval_model_function", "read.eval_model_function_density", "read.model_property", "read.report"],
        "reach": ["%s:%s" % a for a in ANCHORS],
        "sets": {"type_cost": 25},
        "strata": ["multi:member-sources-declared-after-creation", "multi:first-source-of-a-member-declared-after-creation", "multi", "unbinned", "hist", "xy", "indexed", "release-after-fix", "fix-again", "constraint-after-fit",
                   "multi:permuted-order", "multi:shared", "multi:shared+member-constraint", "multi:shared+member-constraint-at-another-index", "multi:shared-after-fix", "multi:member-constraint-before-shared",
                   "multi:member-constraint-after-shared", "multi:shared+do_fit"],
        "distinct_nontrivial": 150,
    }


# ------------------------------------------------------------------ generation
def gen_single(rng, ftype, cost, prefix="", n=None, as_many_points_as_parameters=False):
    fid = COST_ALIASES.get(cost)
    counts = fid in POISSON
    if ftype == "xy":
        fam = str(rng.choice(["poly1", "poly2", "exponential", "trig", "poly3"]))
        if as_many_points_as_parameters:
            n = len(Model(fam).pnames)  # ndf = 0 until a parameter is fixed or constrained
        spec = gen.gen_xy_spec(rng, family=fam, cost=cost, counts=counts, n=n or int(rng.integers(5, 11)))
    elif ftype == "indexed":
        fam = str(rng.choice(["poly1", "poly2", "exponential", "trig"]))
        if as_many_points_as_parameters:
            n = len(Model(fam).pnames)
        spec = gen.gen_indexed_spec(rng, family=fam, cost=cost, counts=counts, n=n or int(rng.integers(5, 11)))
    elif ftype == "hist":
        spec = gen.gen_hist_spec(rng, cost=cost, n_bins=int(rng.integers(6, 10)))
    else:
        spec = gen.gen_unbinned_spec(rng)
    n = len(spec.get("y") or spec.get("data") or spec["edges"][:-1])
    ops = []
    if ftype != "unbinned" and fid != "chi2_noerr":
        nsrc = int(rng.integers(1, 3)) if fid in NEEDS_ERRORS else int(rng.integers(0, 2))
        yscale = float(np.mean(np.abs(spec.get("y") or spec.get("data") or [10.0])) + 0.5)
        for k in range(nsrc):
            force = {"axis": "y", "reference": "data"} if k == 0 else {"reference": "data"}
            ops.append(gen.gen_source(rng, n, ftype, "%se%d" % (prefix, k), yscale=yscale, force=force, allow_model=False, allow_x=False))
    return spec, ops


def gen_history(rng, pnames, pvals, length, members=None, reads=None):
    """ops over the alphabet; `members`: list of (index, pnames) for multi-fits (constraints may go to members)."""
    ops = []
    fixed = set()
    for _ in range(length):
        r = rng.random()
        free = [n for n in pnames if n not in fixed]
        if r < 0.2 and (len(free) > 1 or fixed):
            # now and then a parameter that is fixed already is fixed again, to another value (a manual scan does exactly this)
            again = bool(fixed) and (len(free) <= 1 or rng.random() < 0.35)
            pool = sorted(fixed) if again else free
            n = pool[int(rng.integers(0, len(pool)))]
            v = None if rng.random() < 0.5 else float(np.round(pvals[pnames.index(n)] * rng.uniform(0.9, 1.1) + 0.01, 5))
            ops.append(["fix_parameter", n, v])
            fixed.add(n)
        elif r < 0.35 and fixed:
            n = sorted(fixed)[int(rng.integers(0, len(fixed)))]
            ops.append(["release_parameter", n])
            fixed.discard(n)
        elif r < 0.6:
            if members and rng.random() < 0.5:
                mi, mp = members[int(rng.integers(0, len(members)))]
                c = gen.gen_constraint(rng, mp, [pvals[pnames.index(q)] for q in mp])
                ops.append(["member", mi, c])
            else:
                ops.append(gen.gen_constraint(rng, pnames, pvals))
        elif r < 0.78:
            k = int(rng.integers(1, len(pnames) + 1))
            idx = rng.choice(len(pnames), size=k, replace=False)
            vals = {pnames[int(i)]: float(np.round(pvals[int(i)] * rng.uniform(0.85, 1.15) + rng.uniform(-0.02, 0.02), 5)) for i in idx if pnames[int(i)] not in fixed}
            if vals:
                ops.append(["set_parameter_values", vals])
        elif r < 0.88 and reads:
            # a pure query between two readings of ndf / gof: evaluating the model (or its derivatives, or its band) on a grid of
            # another length than the data must not change what "number of data points" means afterwards
            ops.append(["read", str(rng.choice(reads)), int(rng.choice([1, 2, 3, 5, 17, 50]))])
        else:
            ops.append(["do_fit"])
    return ops


READS = {
    "xy": ["error_band", "derivative_by_parameters", "eval_model_function", "model_property", "report"],
    "indexed": ["model_property", "report"],
    "hist": ["eval_model_function_density", "model_property", "report"],
    "unbinned": ["eval_model_function", "model_property", "report"],
}


def do_read(ctx, fit, ftype, what, k, did_fit):
    """pure queries; returns False when the query itself failed numerically (history ends)"""
    import io

    if what == "error_band" and not did_fit:
        what = "derivative_by_parameters"
    ctx.op("read." + what)
    try:
        if ftype == "xy":
            x = np.array(fit.x_data, dtype=float)
            grid = np.linspace(float(x.min()) - 0.3, float(x.max()) + 0.3, k)
        elif ftype == "hist":
            lo, hi = fit.data_container.bin_range
            grid = np.linspace(lo, hi, k)
        elif ftype == "unbinned":
            d = np.array(fit.data, dtype=float)
            grid = np.linspace(float(d.min()), float(d.max()), k)
        if what == "error_band":
            fit.error_band(grid)
        elif what == "derivative_by_parameters":
            fit.eval_model_function_derivative_by_parameters(x=grid)
        elif what == "eval_model_function":
            fit.eval_model_function(x=grid)
        elif what == "eval_model_function_density":
            fit.eval_model_function_density(grid)
        elif what == "model_property":
            fit.model
        elif what == "report":
            fit.report(io.StringIO())
    except Exception as e:
        if numerical_failure(e):
            ctx.discard("read-failed-numerically")
            return False
        ctx.note("read.%s raised %s" % (what, type(e).__name__))
    return True


def gen_case(rng, tier, idx, shard, nshards):
    gi = idx * nshards + shard
    kinds = ["xy", "indexed", "hist", "unbinned", "multi"]
    kind = kinds[gi % 5] if gi < 60 else str(rng.choice(kinds, p=[0.25, 0.2, 0.2, 0.1, 0.25]))
    hl = int(rng.integers(3, 11 if tier == "quick" else 26))
    if kind != "multi":
        cost = "nll" if kind == "unbinned" else (COSTS[(gi // 5) % len(COSTS)] if gi < 60 else str(rng.choice(COSTS)))
        spec, ops = gen_single(rng, kind, cost, as_many_points_as_parameters=(kind in ("xy", "indexed") and gi % 25 in (10, 11)))
        m = Model.from_spec(spec["model"])
        hist = gen_history(rng, m.pnames, m.defaults, hl, reads=READS[kind])
        return {"property": "C10", "kind": kind, "spec": spec, "setup": ops, "history": hist, "minimizer": str(rng.choice(["iminuit", "scipy"]))}
    return gen_multi(rng, tier, gi, hl)


def permute_signature(rng, spec):
    """the same model with its parameters declared in another order (defaults move with their names)"""
    ms = spec["model"]
    k = len(ms["order"])
    perm = [int(i) for i in rng.permutation(k)]
    spec["model"] = dict(ms, order=[ms["order"][i] for i in perm], defaults=[ms["defaults"][i] for i in perm])


def index_differs(names, mem, chi2_flags):
    """(member, parameter) pairs of chi2 members whose index in the member differs from the index in the multi-fit"""
    return [(j, q) for (j, mp), c in zip(mem, chi2_flags) if c for q in mp if mp.index(q) != names.index(q)]


def gen_multi(rng, tier, gi, hl):
    # multi-fit: 2-3 members, chi2-type or mixed costs; stratified part: every second multi-fit has shared sources
    stratified = gi < 60
    shared_mode = bool((gi // 5) % 2 == 0) if stratified else bool(rng.random() < 0.5)
    for _attempt in range(50):
        nm = int(rng.integers(2, 4))
        S = []
        if shared_mode:
            S = sorted(int(i) for i in rng.choice(nm, size=int(rng.integers(2, nm + 1)), replace=False))
        n_s = int(rng.integers(5, 11))
        members = []
        for j in range(nm):
            if j in S:
                ftype, cost = str(rng.choice(["xy", "indexed"], p=[0.6, 0.4])), "chi2"
            else:
                ftype = str(rng.choice(["xy", "indexed", "hist", "unbinned"], p=[0.45, 0.3, 0.15, 0.1]))
                cost = "nll" if ftype == "unbinned" else str(rng.choice(["chi2", "chi2", "chi2_pointwise", "nll_gaussian", "nll_poisson"]))
                if shared_mode and cost == "chi2_pointwise":
                    cost = "chi2"  # every chi2-type member enters the shared cost function with its full covariance matrix
            spec, ops = gen_single(rng, ftype, cost, prefix="m%d" % j, n=n_s if j in S else None)
            if rng.random() < 0.5:
                permute_signature(rng, spec)
            members.append({"spec": spec, "setup": ops})
        names, vals = [], []
        mem = []
        for j, mb in enumerate(members):
            m = Model.from_spec(mb["spec"]["model"])
            mem.append((j, list(m.pnames)))
            for n, v in zip(m.pnames, m.defaults):
                if n not in names:
                    names.append(n)
                    vals.append(v)
        chi2_flags = [COST_ALIASES.get(mb["spec"].get("cost")) == "chi2_cov" for mb in members]
        differs = index_differs(names, mem, chi2_flags)
        if not (stratified and shared_mode) or differs:
            break
    hist = gen_history(rng, names, vals, hl, members=mem)
    if not shared_mode and ((gi // 5) % 4 == 1 if stratified else rng.random() < 0.4):
        # one chi2 member is built WITHOUT its uncertainty sources (implicit no-errors cost at the time the multi-fit is created); they
        # are declared afterwards, through the member or through MultiFit.add_error(fits=<int>): from then on its cost carries ln det V
        cand = [j for j, mb in enumerate(members) if COST_ALIASES.get(mb["spec"].get("cost")) == "chi2_cov" and mb["spec"]["type"] in ("xy", "indexed") and any(o[0] in ("add_error", "add_matrix_error") for o in mb["setup"])]
        if cand:
            j = cand[int(rng.integers(0, len(cand)))]
            late = [o for o in members[j]["setup"] if o[0] in ("add_error", "add_matrix_error")]
            members[j]["setup"] = [o for o in members[j]["setup"] if o[0] not in ("add_error", "add_matrix_error", "disable_error", "enable_error")]
            pos = int(rng.integers(0, min(2, len(hist)) + 1))
            for k, o in enumerate(late):
                hist.insert(pos + k, ["member_source", j, o, str(rng.choice(["member", "multi"]))])
    if shared_mode:
        # a constraint on a chi2 member for a parameter that sits at another index in the multi-fit
        if differs and (stratified or rng.random() < 0.5):
            j, q = differs[int(rng.integers(0, len(differs)))]
            mp = mem[j][1]
            kind = "simple" if rng.random() < 0.6 else "matrix"
            c = gen.gen_constraint(rng, [q], [vals[names.index(q)]], force_kind="simple") if kind == "simple" else gen.gen_constraint(rng, mp, [vals[names.index(t)] for t in mp], force_kind="matrix" if len(mp) >= 2 else "simple")
            hist.insert(int(rng.integers(0, len(hist) + 1)), ["member", j, c])
        yscale = float(np.mean([np.mean(np.abs(members[i]["spec"].get("y") or members[i]["spec"].get("data"))) for i in S]) + 0.5)
        for k in range(2 if rng.random() < 0.3 else 1):
            sub = list(S) if (k == 0 or len(S) < 3) else [S[0], S[-1]]
            force = {"axis": "y", "kind": str(rng.choice(["simple", "matrix"])), "relative": False, "reference": "data"}
            if force["kind"] == "simple" and rng.random() < 0.5:
                force["corr"] = float(np.round(rng.uniform(0.1, 0.9), 3))
            op = gen.gen_source(rng, n_s, "xy", "sh%d" % k, yscale=yscale, force=force, allow_model=False)
            a = dict(op[1])
            has_xy = any(members[i]["spec"]["type"] == "xy" for i in sub)
            a["axis"] = "y" if (has_xy or rng.random() < 0.5) else None
            a["fits"] = "all" if (len(sub) == nm and rng.random() < 0.3) else (sub[::-1] if rng.random() < 0.2 else sub)
            hist.insert(int(rng.integers(0, len(hist) + 1)), ["shared", [op[0], a]])
        if not any(o[0] == "do_fit" for o in hist[[o[0] for o in hist].index("shared") :]):
            hist.append(["do_fit"])
    return {"property": "C10", "kind": "multi", "members": members, "history": hist, "minimizer": str(rng.choice(["iminuit", "scipy"]))}


# ------------------------------------------------------------------ reference for one member
class Member:
    def __init__(self, spec, setup, minimizer):
        self.spec = dict(spec, minimizer=minimizer)
        self.fit = dsl.build_fit(self.spec)
        self.ref = dsl.new_ref(self.spec)
        for op in setup:
            rop = op
            if op[0] in ("add_error", "add_matrix_error") and spec["type"] == "xy":
                rop = [op[0], dict(op[1], axis=gen.norm_axis(op[1]["axis"]))]
            dsl.apply_live(self.fit, self.spec, op)
            dsl.apply_ref(self.ref, self.spec, rop)
        self.fid = self.ref.fid if spec["type"] != "unbinned" else "unbinned"
        if spec["cost"] == "chi2" and not self.ref.sources:
            self.fid = "chi2_noerr"

    def admissible(self):
        r = self.ref
        mv = r.model_values()
        if not np.all(np.isfinite(mv)):
            return False
        if self.fid in NEEDS_ERRORS or self.fid in ("ga_cov", "ga_pw"):
            V = r.total_cov() + (np.diag(mv) if self.fid in ("ga_cov", "ga_pw") else 0.0)
            ok, cond = pd_info(V)
            if not ok or cond > 1e8:
                return False
        if (self.fid in POISSON or self.fid == "unbinned") and np.any(mv <= 0):
            return False
        return True

    def exp_gof(self):
        if self.fid == "unbinned":
            return None
        return self.ref.gof(fid=self.fid)

    def exp_cost_nodet(self):
        return self.ref.cost_value(fid=self.fid if self.fid != "unbinned" else None, with_logdet=False)

    def is_chi2(self):
        return self.fid in IS_CHI2


def check_single(ctx, mb, where, classify):
    fit, ref = mb.fit, mb.ref
    exp_ndf = ref.ndf()
    ctx.eq("ndf", int(fit.ndf), int(exp_ndf), key=lambda: classify("ndf"), detail={"where": where})
    if not mb.admissible():
        ctx.discard("configuration-not-admissible")
        return
    eg = mb.exp_gof()
    got_gof = fit.goodness_of_fit
    if eg is None:
        ctx.check("goodness_of_fit", got_gof is None, {"got": got_gof, "expected": None, "where": where}, key=lambda: classify("goodness_of_fit"))
    else:
        scale = abs(eg) + abs(ref.constraint_cost()) + 1.0
        ctx.close("goodness_of_fit", got_gof, eg, tol=Tol.LINALG, scale=scale, key=lambda: classify("goodness_of_fit"), detail={"where": where, "fid": mb.fid})
    got_p = fit.chi2_probability
    if mb.is_chi2():
        c = mb.exp_cost_nodet()
        ep = float(stats.chi2.sf(c, exp_ndf)) if exp_ndf > 0 else None
        if ep is not None and got_p is not None and np.isfinite(got_p):
            ctx.close("chi2_probability", got_p, ep, tol=Tol.custom("PROB", 1e-7, 1e-10), key=lambda: classify("chi2_probability"), detail={"where": where, "cost_without_det": c, "ndf": exp_ndf})
    else:
        ctx.check("chi2_probability", got_p is None, {"got": got_p, "expected": None, "where": where}, key=lambda: classify("chi2_probability"))
    try:
        rd = fit.get_result_dict()
    except Exception as e:
        # the numerical Hessian at a degenerate optimum has no answer (nan-symmetry assertion, singular matrix): not a statement about ndf / gof
        if numerical_failure(e):
            ctx.discard("result-dict-numerical-hessian-failed")
            return False  # the aborted Hessian computation leaves the fit displaced (C08's business): the history ends here
        raise
    if eg is None:
        ctx.check("gof/ndf", rd["gof/ndf"] is None, {"got": rd["gof/ndf"], "where": where})
    elif exp_ndf != 0:
        ctx.close("gof/ndf", rd["gof/ndf"], eg / exp_ndf, tol=Tol.LINALG, scale=(abs(eg) + abs(ref.constraint_cost()) + 1.0) / abs(exp_ndf), key=lambda: classify("gof/ndf"), detail={"where": where})
    else:
        # no degrees of freedom: the ratio is not defined
        ctx.check("gof/ndf", rd["gof/ndf"] is None, {"got": rd["gof/ndf"], "expected": None, "ndf": 0, "where": where})
    ctx.eq("result_dict.ndf", int(rd["ndf"]), int(exp_ndf), detail={"where": where})


def sync_params_from_fit(mb):
    mb.ref.p = np.array([float(v) for v in mb.fit.parameter_values], dtype=float)
    for n in list(mb.ref.fixed):
        mb.ref.fixed[n] = mb.ref.p[mb.ref.model.pnames.index(n)]


def run_single(ctx, case):
    mb = Member(case["spec"], case["setup"], case["minimizer"])
    spec = mb.spec
    ctx.stratum(case["kind"])
    ctx.add_to_set("type_cost", "%s:%s" % (spec["type"], spec.get("cost")))
    nontrivial = False
    did_fit = False
    hist_so_far = []

    def classify(obs):
        return None

    check_single(ctx, mb, "initial", classify)
    for i, op in enumerate(case["history"]):
        ctx.op(op[0])
        hist_so_far.append(op[0])
        if op[0] == "release_parameter":
            ctx.stratum("release-after-fix")
        if op[0] == "fix_parameter" and op[1] in mb.ref.fixed:
            ctx.stratum("fix-again")
        if op[0].startswith("add_") and did_fit:
            ctx.stratum("constraint-after-fit")
        if op[0] in ("fix_parameter", "release_parameter", "add_parameter_constraint", "add_matrix_parameter_constraint"):
            nontrivial = True
        if op[0] == "do_fit":
            if not mb.admissible():
                ctx.discard("do_fit-skipped-inadmissible")
                continue
            try:
                mb.fit.do_fit()
            except Exception as e:
                if numerical_failure(e):
                    ctx.discard("do_fit-failed-numerically")
                    return nontrivial
                ctx.violation(None, "do_fit.no-exception", {"traceback": fmt_exc(), "op_index": i})
                return nontrivial
            did_fit = True
            sync_params_from_fit(mb)
        elif op[0] == "read":
            if not do_read(ctx, mb.fit, case["kind"], op[1], op[2], did_fit):
                break
        else:
            dsl.apply_live(mb.fit, spec, op)
            dsl.apply_ref(mb.ref, spec, op)
        n0 = sum(ctx._wit_per_key.values())
        if check_single(ctx, mb, "after op %d %s" % (i, op[0]), classify) is False:
            break
        if sum(ctx._wit_per_key.values()) != n0:
            break
    return nontrivial


# ------------------------------------------------------------------ multi-fit
def run_multi(ctx, case):
    from kafe2.fit import MultiFit

    ctx.stratum("multi")
    members = [Member(m["spec"], m["setup"], case["minimizer"]) for m in case["members"]]
    for mb in members:
        ctx.add_to_set("type_cost", "multi-member:%s:%s" % (mb.spec["type"], mb.spec.get("cost")))
    multi = MultiFit([mb.fit for mb in members], minimizer=case["minimizer"])
    names = list(multi.parameter_names)
    state = {"values": {}, "fixed": {}, "multi_constraints": [], "shared": [], "member_constraint_elsewhere": False}
    if any(mb.ref.model.order != sorted(mb.ref.model.order) for mb in members):
        ctx.stratum("multi:permuted-order")
    for mb in members:
        for n, v in zip(mb.ref.model.pnames, mb.ref.p):
            state["values"].setdefault(n, float(v))
    # same-named parameters hold one common value: the one the multi-fit reports
    for n, v in zip(names, multi.parameter_values):
        state["values"][n] = float(v)

    def push_values():
        for mb in members:
            mb.ref.p = np.array([state["values"][n] for n in mb.ref.model.pnames], dtype=float)

    push_values()

    def check_multi(where):
        push_values()
        n_data = sum(mb.ref.n for mb in members)
        n_con = sum(constraint_ndf(c) for mb in members for c in mb.ref.constraints) + sum(constraint_ndf(c) for c in state["multi_constraints"])
        exp_ndf = n_data + n_con - len(names) + len(state["fixed"])
        ctx.eq("multi.ndf", multi.ndf, exp_ndf, detail={"where": where, "n_data": n_data, "n_constraint_measurements": n_con, "n_par": len(names), "n_fixed": len(state["fixed"])}, key=lambda: classify_multi("ndf", n_con))
        if not all(mb.admissible() for mb in members):
            ctx.discard("configuration-not-admissible")
            return
        pvec = np.array([state["values"][n] for n in names], dtype=float)
        mcc = float(sum(constraint_cost(c, pvec) for c in state["multi_constraints"]))
        if state["shared"]:
            return check_multi_shared(where, exp_ndf, n_con, mcc)
        gofs = [mb.exp_gof() for mb in members]
        got = multi.goodness_of_fit
        if any(g is None for g in gofs):
            ctx.check("multi.goodness_of_fit", got is None, {"got": got, "expected": None, "where": where})
        else:
            eg = float(sum(gofs)) + mcc
            ctx.close("multi.goodness_of_fit", got, eg, tol=Tol.LINALG, scale=sum(abs(g) for g in gofs) + abs(mcc) + 1.0, detail={"where": where, "member_gofs": gofs, "multi_constraint_cost": mcc}, key=lambda: classify_multi("gof", mcc))
        gp = multi.chi2_probability
        if all(mb.is_chi2() for mb in members):
            c = float(sum(mb.exp_cost_nodet() for mb in members)) + mcc
            if exp_ndf > 0 and gp is not None and np.isfinite(gp):
                ctx.close("multi.chi2_probability", gp, float(stats.chi2.sf(c, exp_ndf)), tol=Tol.custom("PROB", 1e-7, 1e-10), detail={"where": where, "cost_without_det": c, "ndf": exp_ndf}, key=lambda: classify_multi("prob", n_con))
        else:
            ctx.check("multi.chi2_probability", gp is None, {"got": gp, "expected": None, "where": where})

    def joint():
        """joint covariance and residuals of the chi2 members: own blocks + the shared matrix in every block between sharing members"""
        chi = [i for i, mb in enumerate(members) if mb.is_chi2()]
        off, o = {}, 0
        for i in chi:
            off[i] = o
            o += members[i].ref.n
        V, r = np.zeros((o, o)), np.zeros(o)
        for i in chi:
            ref = members[i].ref
            sl = slice(off[i], off[i] + ref.n)
            V[sl, sl] = ref.total_cov()  # contains the shared sources: they are declared sources of every sharing member
            r[sl] = ref.d - ref.model_values()
        for sh in state["shared"]:
            for a in sh["fits"]:
                for b in sh["fits"]:
                    if a != b:
                        ra, rb = members[a].ref, members[b].ref
                        V[off[a] : off[a] + ra.n, off[b] : off[b] + rb.n] += source_cov(sh["src"], ra.ref_values(sh["src"], ra.p))
        return V, r, chi

    def check_multi_shared(where, exp_ndf, n_con, mcc):
        V, r, chi = joint()
        okV, cond = pd_info(V)
        if not okV or cond > 1e6:
            ctx.discard("joint-covariance-not-pd-or-ill-conditioned")
            return
        chi2 = float(r @ np.linalg.solve(V, r))
        con_chi = float(sum(members[i].ref.constraint_cost() for i in chi))
        others = [members[i].exp_gof() for i in range(len(members)) if i not in chi]
        got = multi.goodness_of_fit
        d = {"where": where, "joint_chi2": chi2, "constraint_cost_of_chi2_members": con_chi, "gof_of_other_members": others, "multi_constraint_cost": mcc, "cond": cond,
             "multi_names": names, "member_names": [mb.ref.model.pnames for mb in members]}
        if any(g is None for g in others):
            ctx.check("multi.goodness_of_fit", got is None, dict(d, got=got, expected=None))
        else:
            eg = chi2 + con_chi + float(sum(others)) + mcc
            ctx.close("multi.goodness_of_fit", got, eg, tol=Tol.LINALG, scale=abs(chi2) + abs(con_chi) + sum(abs(g) for g in others) + abs(mcc) + 1.0, detail=d)
            ctx._count("multi.goodness_of_fit(shared)")
            if state["member_constraint_elsewhere"]:
                ctx._count("multi.goodness_of_fit(shared, member constraint at another index)")
        gp = multi.chi2_probability
        if len(chi) == len(members):
            c = chi2 + con_chi + mcc
            if exp_ndf > 0 and gp is not None and np.isfinite(gp):
                ctx.close("multi.chi2_probability", gp, float(stats.chi2.sf(c, exp_ndf)), tol=Tol.custom("PROB", 1e-7, 1e-10), detail={"where": where, "cost_without_det": c, "ndf": exp_ndf, "shared": True})
                ctx._count("multi.chi2_probability(shared)")
        else:
            ctx.check("multi.chi2_probability", gp is None, {"got": gp, "expected": None, "where": where})

    def note_member_constraints():
        """strata: constraints of chi2 members, and whether one of them refers to a parameter whose index differs between member and multi-fit"""
        if not state["shared"]:
            return
        for mb in members:
            if not mb.is_chi2():
                continue
            for c in mb.ref.constraints:
                ctx.stratum("multi:shared+member-constraint")
                idx = [c["index"]] if c["kind"] == "simple" else list(c["indices"])
                if any(names.index(mb.ref.model.pnames[i]) != i for i in idx):
                    ctx.stratum("multi:shared+member-constraint-at-another-index")
                    state["member_constraint_elsewhere"] = True

    def classify_multi(obs, x):
        return None

    nontrivial = True
    did_fit = False
    check_multi("initial")
    for i, op in enumerate(case["history"]):
        k = op[0]
        n0 = sum(ctx._wit_per_key.values())
        if k == "member_source":
            mi, sop, via = op[1], op[2], op[3]
            mb = members[mi]
            ctx.op("member.%s.after-multi-fit-creation" % sop[0])
            ctx.stratum("multi:member-sources-declared-after-creation")
            if len(mb.ref.sources) == 0:
                ctx.stratum("multi:first-source-of-a-member-declared-after-creation")
            if via == "multi" and sop[0] == "add_error" and mb.spec["type"] == "xy":
                a = sop[1]
                e = a["err"]
                multi.add_error(err_val=np.array(e, dtype=float) if isinstance(e, list) else e, fits=mi, axis=a["axis"], name=a["name"], correlation=a.get("corr", 0.0), relative=a.get("relative", False), reference=a.get("reference", "data"))
                from vlib.fitcase import norm_op

                dsl.apply_ref(mb.ref, mb.spec, norm_op(mb.spec, sop))
            else:
                from vlib.fitcase import norm_op

                dsl.apply_live(mb.fit, mb.spec, sop)
                dsl.apply_ref(mb.ref, mb.spec, norm_op(mb.spec, sop))
            if mb.fid == "chi2_noerr" and mb.ref.sources:
                mb.fid = mb.ref.fid  # the implicit no-errors chi2 ends with the first declared source (documented behaviour of cost_function="chi2")
        elif k == "member":
            mi, cop = op[1], op[2]
            ctx.op("member." + cop[0])
            mb = members[mi]
            dsl.apply_live(mb.fit, mb.spec, cop)
            dsl.apply_ref(mb.ref, mb.spec, cop)
            if mb.is_chi2():
                ctx.stratum("multi:member-constraint-after-shared" if state["shared"] else "multi:member-constraint-before-shared")
            note_member_constraints()
        elif k == "shared":
            sop = op[1]
            a = sop[1]
            ctx.op("multi.%s.shared" % sop[0])
            fits = list(range(len(members))) if a["fits"] == "all" else [int(j) for j in a["fits"]]
            if sop[0] == "add_error":
                multi.add_error(err_val=np.array(a["err"], dtype=float) if isinstance(a["err"], list) else a["err"], fits=a["fits"], axis=a["axis"], name=a["name"], correlation=a.get("corr", 0.0), relative=False, reference="data")
                src = {"kind": "simple", "axis": "y", "err": a["err"], "corr": a.get("corr", 0.0), "relative": False, "reference": "data", "enabled": True, "name": a["name"]}
            else:
                ev = a.get("err_val")
                multi.add_matrix_error(err_matrix=np.array(a["matrix"], dtype=float), matrix_type=a["matrix_type"], fits=a["fits"], axis=a["axis"], name=a["name"], err_val=np.array(ev, dtype=float) if isinstance(ev, list) else ev, relative=False, reference="data")
                src = {"kind": "matrix", "axis": "y", "matrix": a["matrix"], "matrix_type": a["matrix_type"], "err_val": ev, "relative": False, "reference": "data", "enabled": True, "name": a["name"]}
            for j in fits:
                members[j].ref.sources.append(src)
            state["shared"].append({"src": src, "fits": fits})
            ctx.stratum("multi:shared")
            if state["fixed"]:
                ctx.stratum("multi:shared-after-fix")
            note_member_constraints()
        elif k == "do_fit":
            ctx.op(k)
            push_values()
            if not all(mb.admissible() for mb in members):
                ctx.discard("do_fit-skipped-inadmissible")
                continue
            if state["shared"]:
                okV, cond = pd_info(joint()[0])
                if not okV or cond > 1e6:
                    ctx.discard("do_fit-skipped-joint-covariance-ill-conditioned")
                    continue
            try:
                multi.do_fit()
            except Exception as e:
                if numerical_failure(e):
                    ctx.discard("do_fit-failed-numerically")
                    return nontrivial
                ctx.violation(None, "multi.do_fit.no-exception", {"traceback": fmt_exc(), "op_index": i})
                return nontrivial
            did_fit = True
            if state["shared"]:
                ctx.stratum("multi:shared+do_fit")
            for n, v in zip(names, multi.parameter_values):
                state["values"][n] = float(v)
        else:
            ctx.op(k)
            if k.startswith("add_") and did_fit:
                ctx.stratum("constraint-after-fit")
            if k == "release_parameter":
                ctx.stratum("release-after-fix")
            if k == "fix_parameter" and op[1] in state["fixed"]:
                ctx.stratum("fix-again")
            if k == "add_parameter_constraint":
                a = op[1]
                multi.add_parameter_constraint(name=a["name"], value=a["value"], uncertainty=a["uncertainty"], relative=a.get("relative", False))
                state["multi_constraints"].append({"kind": "simple", "index": names.index(a["name"]), "value": a["value"], "uncertainty": a["uncertainty"], "relative": a.get("relative", False)})
            elif k == "add_matrix_parameter_constraint":
                a = op[1]
                multi.add_matrix_parameter_constraint(names=a["names"], values=a["values"], matrix=a["matrix"], matrix_type=a["matrix_type"], uncertainties=a.get("uncertainties"), relative=a.get("relative", False))
                state["multi_constraints"].append({"kind": "matrix", "indices": [names.index(n) for n in a["names"]], "values": a["values"], "matrix": a["matrix"], "matrix_type": a["matrix_type"], "uncertainties": a.get("uncertainties"), "relative": a.get("relative", False)})
            elif k == "set_parameter_values":
                multi.set_parameter_values(**op[1])
                state["values"].update(op[1])
            elif k == "fix_parameter":
                multi.fix_parameter(op[1], op[2])
                if op[2] is not None:
                    state["values"][op[1]] = op[2]
                state["fixed"][op[1]] = True
            elif k == "release_parameter":
                multi.release_parameter(op[1])
                state["fixed"].pop(op[1], None)
        check_multi("after op %d %s" % (i, k if k != "member" else "member." + op[2][0]))
        if sum(ctx._wit_per_key.values()) != n0:
            break
    return nontrivial


def run_case(ctx, case):
    ctx.reseed_legacy()
    if case["kind"] == "multi":
        return run_multi(ctx, case)
    return run_single(ctx, case)


def run_shard(ctx):
    idx = 0
    while ctx.more():
        case = gen_case(ctx.rng, ctx.tier, idx, ctx.shard, ctx.nshards)
        idx += 1
        ctx.begin_case(case)
        nontrivial = False
        try:
            nontrivial = run_case(ctx, case)
        except Exception:
            ctx.violation(None, "unexpected-exception", {"traceback": fmt_exc()})
        ctx.end_case(nontrivial=nontrivial)


def replay(ctx, case):
    ctx.begin_case(case)
    try:
        run_case(ctx, case)
    except Exception:
        ctx.violation(None, "unexpected-exception", {"traceback": fmt_exc()})
    ctx.end_case(nontrivial=True)
