"""C17 — every number shown to the user is a faithful rounding of the fit state.

Shape: parse-back monitor.

Part A (strings).  Random (value, error, n_significant_digits, plain|LaTeX, symmetric|asymmetric, fixed) are given
to the real ``ParameterFormatter.get_formatted``; the returned string is parsed back (``V +/- E``, ``$V \\pm E$``,
``a\\times10^{b}``, ``V + U (up) - D (down)``, ``${V}^{+U}_{-D}$``, ``(fixed)``) and compared with exact ``decimal``
arithmetic against the three clauses of the statement:

  1. displayed E == true error rounded to n significant digits (either neighbour if within 1e-12 relative of a tie);
  2. |V_displayed - value| <= half a unit of E's last displayed digit;
  3. if |value| >= error: the last displayed digit of V is at or below E's last displayed digit;
  +  fixed parameters carry the ``(fixed)`` marker (and free ones do not).

The same generator drives ``CostFunctionFormatter.get_formatted`` and ``kafe2.tools.get_compact_representation``
(the table written into saved files) directly; there every displayed number must be within half a unit of *its own*
last displayed digit of the number handed in.

Part B (reports).  Small XYFit / IndexedFit / HistFit problems (1-3 parameters, python-function and string models,
fixed parameters, constraints, limits, asymmetric errors, both minimizers) and MultiFits of two such fits with a shared
parameter are driven through a short history (fit / set values / fix / release / new data); at every observation point ``fit.report(stream)``, the preface comment
of ``fit.to_file(tmp)``, ``fit.get_result_dict()`` and the model-function formatter are parsed and every name, value,
uncertainty, correlation, cost, ndf, cost/ndf and chi2 probability is compared with what the fit object holds at that
moment (text: half a unit of its own last displayed digit; dictionary: EXACT).
"""
import decimal
import io
import os
import re
import shutil
import tempfile
from decimal import Decimal

import numpy as np

from vlib.monitor import OpTimeout, fmt_exc, time_limit

PROPERTY = "C17"
TIERS = {"quick": {"shards": 8, "budget_s": 25}, "thorough": {"shards": 16, "budget_s": 300}}
RULE = (
    "one case = one formatted string (ParameterFormatter / CostFunctionFormatter / compact table) or one fitted problem "
    "with a short history whose reports are parsed back. Values and errors: mantissa class in {carry 9.95..9.99999, tie "
    "x.x5, log-uniform, round, short} x decimal exponent -12..11, either sign and exact zero, error exponent tied to or "
    "independent of the value's; n_significant_digits in {1,2,3}; plain|LaTeX; symmetric|asymmetric (equal / different "
    "magnitude / one side zero)|fixed|no error; round_value_to_error in {True, False} x symmetric|asymmetric. A string case is non-trivial when a value and "
    "at least one uncertainty were parsed and all applicable clauses evaluated; a report case when a fit was performed "
    "and report, preface and result dictionary were all parsed and compared. Report cases ask for asymmetric uncertainties either before the "
    "report (settled), at fit time, or only through the report call itself (lazy). MultiFit report cases: two member fits (xy+xy, xy+indexed, "
    "hist+hist) with a shared parameter, non-linear models whose MINOS uncertainties differ from the parabolic ones at the two displayed "
    "digits (counted as stratum asym-visible) and a linear control; report and result dictionary are compared (a MultiFit has no file "
    "representation). Distinct by hash of the case."
)
ASSUMPTIONS = [
    "half-unit comparisons are exact decimal comparisons of the displayed digits with the exact binary value of the held float; "
    "a slack of 1e-12 relative to the held number is granted at exact ties (statement: either neighbour of a tie)",
    "for asymmetric strings each displayed uncertainty must be the true one rounded at a digit at or below its n-th significant "
    "digit (never coarser); 'the uncertainty's last displayed digit' is that of the smaller of the two uncertainties (of the coarser "
    "display if both are equal); clause 3 applies when |value| >= the larger one; uncertainties of exactly zero are outside the quantifier",
    "genuine defects are classified by predicates over the witness (n_sig, displayed digit positions, exact-tie test, six displayed digits, "
    "exception type + zero/None in the held state), never by seed or case hash; see key() in check_pm, double_rounding_key, compact_exception_key",
    "if the held state changes between the snapshots taken before and after a display call (an inspection moved the fit: property C08), or "
    "cannot be read at all, or is not finite, the observation is discarded and counted, not judged",
    "round_value_to_error=False is an explicit opt-out of clause 2/3: there the value is only required to be within half a unit of its own last digit",
    "in the textual report a number is required to be present only when the fit holds it (chi2 probability not None, errors valid)",
    "display names of parameters are left at their defaults, so displayed names must equal fit.parameter_names",
]
ANCHORS = [
    ("kafe2.fit._base.format", "ParameterFormatter.get_formatted"),
    ("kafe2.fit._base.format", "ScalarFormatter.__init__"),
    ("kafe2.fit._base.format", "ScalarFormatter.__call__"),
    ("kafe2.fit._base.format", "CostFunctionFormatter.get_formatted"),
    ("kafe2.fit._base.format", "ModelFunctionFormatter.get_formatted"),
    ("kafe2.fit._base.fit", "FitBase.report"),
    ("kafe2.fit._base.fit", "FitBase._report_fit_results"),
    ("kafe2.fit._base.fit", "FitBase._update_parameter_formatters"),
    ("kafe2.fit._base.fit", "FitBase.get_result_dict"),
    ("kafe2.tools", "get_compact_representation"),
    ("kafe2.tools", "print_dict_as_table"),
    ("kafe2.fit.representation.fit.yaml_drepr", "FitYamlWriter._get_preface_comment"),
]

MODES = ["sym", "asym", "fixed", "noerr", "norte", "norte-asym"]  # norte = round_value_to_error=False
ASYM_MODES = ("asym", "norte-asym")
NORTE_MODES = ("norte", "norte-asym")
MANT = ["carry", "tie", "logu", "round", "short"]
REPORTS_PER_SHARD = {"quick": 6, "thorough": 190}


def floors(tier):
    q = tier == "quick"
    return {
        "comparisons": {
            "string.error-rounded": 20000 if q else 500000,
            "string.value-within-half-unit": 20000 if q else 600000,
            "string.value-shown-to-error-digit": 8000 if q else 300000,
            "string.fixed-marker": 30000 if q else 800000,
            "string.fixed-value": 2000 if q else 60000,
            "string.asym-error-rounded": 10000 if q else 500000,
            "cost-string.number": 3000 if q else 100000,
            "compact.value": 3000 if q else 100000,
            "compact.error": 2000 if q else 100000,
            "compact.correlation": 2000 if q else 100000,
            "compact.asym-error": 1000 if q else 50000,
            "report.names": 60 if q else 2000,
            "report.parameter-line": 90 if q else 3000,
            "report.correlation": 100 if q else 3000,
            "report.par.asym-error-rounded": 25 if q else 800,
            "report.cost": 40 if q else 1500,
            "report.ndf": 30 if q else 1000,
            "report.cost-per-ndf": 30 if q else 1000,
            "report.chi2-probability": 15 if q else 500,
            "preface.names": 30 if q else 1000,
            "preface.value": 60 if q else 2000,
            "preface.error": 40 if q else 1500,
            "preface.correlation": 20 if q else 700,
            "preface.cost": 30 if q else 1000,
            "preface.ndf": 30 if q else 1000,
            "preface.cost-per-ndf": 30 if q else 1000,
            "result-dict.exact": 400 if q else 10000,
            "model-string.value": 60 if q else 1500,
        },
        "ops": ["fmt", "cost", "compact", "report-case", "multi-report-case", "do_fit", "observe", "report", "to_file", "get_result_dict", "set_values", "fix", "release", "new_data"],
        "reach": ["%s:%s" % a for a in ANCHORS],
        "strata": ["fmt|%s|n%d|%s" % (m, n, l) for m in MODES for n in (1, 2, 3) for l in ("plain", "latex")]
        + ["mant|%s|%s" % (a, b) for a in MANT + ["zero"] for b in MANT]
        + ["fit|xy", "fit|indexed", "fit|hist", "model|python", "model|string", "report|asym", "report|sym", "report|fixed", "report|constraint", "report|limit", "report|unfitted", "report|scipy", "report|iminuit"]
        + ["report|asym-lazy", "report|asym-settled", "report|asym-visible", "fit|multi", "multi|nonlinear", "multi|asym-lazy", "multi|asym-at-fit", "multi|asym-settled", "multi|sym", "multi|asym-visible|lazy", "multi|asym-visible|not-lazy"],
        "sets": {"report-combos": 20 if q else 60, "multi-report-combos": 6 if q else 30},
        "distinct_nontrivial": 40000 if q else 1000000,
    }


# ------------------------------------------------------------------ exact decimal helpers
DC = decimal.Context(prec=600, rounding=decimal.ROUND_HALF_EVEN, Emin=-999999, Emax=999999)
DC.traps[decimal.Inexact] = False
TIE = Decimal("1e-12")
ONE = Decimal(1)


def D(x):
    """Exact decimal value of a float (or int)."""
    return Decimal(float(x)) if not isinstance(x, Decimal) else x


def unit(q):
    return ONE.scaleb(q)


def half_unit(q):
    return Decimal(5).scaleb(q - 1)


def round_sig_set(d, n):
    """Set of acceptable roundings of d>0 to n significant digits (both neighbours at ties within 1e-12 relative).
    Returns (set of Decimal, position of the n-th significant digit of the nominal rounding)."""
    c = decimal.Context(prec=n, rounding=decimal.ROUND_HALF_EVEN, Emin=-999999, Emax=999999)
    r = c.create_decimal(d)
    acc = {r, c.create_decimal(DC.multiply(d, ONE - TIE)), c.create_decimal(DC.multiply(d, ONE + TIE))}
    return acc, r.adjusted() - n + 1


def tie_carry_error(d, n, E):
    """Classifier: the uncertainty d is (within 1e-12 relative) at a rounding tie between 99..9 and 10^k at n significant
    digits and the displayed uncertainty E is the lower neighbour 99..9."""
    if d <= 0:
        return False
    lo = decimal.Context(prec=n, rounding=decimal.ROUND_FLOOR, Emin=-999999, Emax=999999).create_decimal(d)
    hi = decimal.Context(prec=n, rounding=decimal.ROUND_CEILING, Emin=-999999, Emax=999999).create_decimal(d)
    if lo == hi or hi.normalize().as_tuple().digits != (1,):
        return False
    mid = DC.divide(DC.add(lo, hi), Decimal(2))
    return abs(DC.subtract(d, mid)) <= DC.multiply(d, TIE) and E.d == lo


def round_at_set(d, q):
    """Acceptable roundings of d (any sign) at decimal position q."""
    u = unit(q)
    out = set()
    for f in (ONE, ONE - TIE, ONE + TIE):
        out.add(DC.multiply(d, f).quantize(u, rounding=decimal.ROUND_HALF_EVEN, context=DC))
    return out


def num_eq_any(x, accept):
    return any(x == a for a in accept)  # Decimal == is numeric (1.0 == 1.00)


def within_half(disp, q, held):
    """|disp - held| <= half a unit of position q (+ tie slack relative to held)."""
    h = D(held)
    return abs(DC.subtract(disp, h)) <= DC.add(half_unit(q), DC.multiply(abs(h), TIE))


# ------------------------------------------------------------------ number tokens
_PLAIN = r"[-+]?(?:\d+\.?\d*|\.\d+)(?:[eE][-+]?\d+)?"
_LATEX = r"[-+]?(?:\d+\.?\d*|\.\d+)(?:[eE][-+]?\d+|\\times10\^\{[-+]?\d*\})?"
_TIMES = re.compile(r"\\times10\^\{([-+]?\d*)\}")


class Num:
    """A displayed number: exact decimal value, position of its last displayed digit, original text."""

    __slots__ = ("d", "q", "s")

    def __init__(self, s):
        t = _TIMES.sub(lambda m: "e" + (m.group(1) or "0"), s)
        dd = Decimal(t)  # raises decimal.InvalidOperation for non-numbers
        if not dd.is_finite():
            raise ValueError("not finite: %r" % s)
        self.d = dd
        self.q = dd.as_tuple().exponent
        self.s = s

    def j(self):
        return {"text": self.s, "last_digit": self.q}


_RE = {}


def _rx(latex):
    if latex not in _RE:
        n = "(%s)" % (_LATEX if latex else _PLAIN)
        if latex:
            _RE[latex] = [
                ("sym", re.compile(r"^\$%s \\pm %s\$$" % (n, n))),
                ("asym", re.compile(r"^\$\{%s\}\^\{\+%s\}_\{-%s\}\$$" % (n, n, n))),
                ("fixed", re.compile(r"^\$%s\$ \(fixed\)$" % n)),
                ("plain", re.compile(r"^\$%s\$$" % n)),
            ]
        else:
            _RE[latex] = [
                ("sym", re.compile(r"^%s \+/- %s$" % (n, n))),
                ("asym", re.compile(r"^%s \+ %s \(up\) - %s \(down\)$" % (n, n, n))),
                ("fixed", re.compile(r"^%s \(fixed\)$" % n)),
                ("plain", re.compile(r"^%s$" % n)),
            ]
    return _RE[latex]


def parse_pm(body, latex):
    """Parse the part of a parameter string after the optional 'name = '. Returns (kind, [Num...]) or None."""
    for kind, rx in _rx(latex):
        m = rx.match(body)
        if m:
            try:
                return kind, [Num(g) for g in m.groups()]
            except Exception:
                return None
    return None


# ------------------------------------------------------------------ the oracle for one 'value +/- uncertainty' string
def check_pm(ctx, parsed, value, error, asym, n, fixed, with_errors=True, rte=True, latex=False, want_asym=False, pre="string", extra=None):
    """Apply the clauses of the statement to a parsed parameter string.  Returns True if value and >= 1 uncertainty were compared."""
    kind, nums = parsed
    det = {"value": value, "error": error, "asymmetric_error": asym, "n_significant_digits": n, "displayed": [x.j() for x in nums], "form": kind}
    if extra:
        det.update(extra)
    ok = ctx.check(pre + ".fixed-marker", (kind == "fixed") == bool(fixed), dict(det, expected_fixed=bool(fixed)))
    if not ok:
        return False
    V = nums[0]
    if kind == "fixed":
        ctx.check(pre + ".fixed-value", within_half(V.d, V.q, value), det)
        return False
    if kind == "plain":
        # legitimate only when there is no uncertainty to show
        has_err = with_errors and ((not want_asym and error not in (None, 0)) or (want_asym and asym is not None and any(a != 0 for a in asym)))
        if not ctx.check(pre + ".form", not has_err, dict(det, why="uncertainty held but not displayed")):
            return False
        ctx.check(pre + ".noerr-value", within_half(V.d, V.q, value), det)
        return False
    if not ctx.check(pre + ".form", (kind == "asym") == bool(want_asym), dict(det, why="symmetric/asymmetric form does not match the request")):
        return False
    dv = D(value)
    if kind == "sym":
        E = nums[1]
        de = D(error)
        acc, _pos = round_sig_set(de, n)
        if not ctx.check(pre + ".error-rounded", num_eq_any(E.d, acc), lambda: dict(det, expected_error=[str(a) for a in sorted(acc)])):
            return True
        qE = E.q
        big = abs(dv) >= de
        e_ref, E_ref = de, E
    else:
        U, Dn = nums[1], nums[2]
        for disp, true, nm in ((U, asym[1], "up"), (Dn, asym[0], "down")):
            dt = abs(D(true))
            if dt == 0:
                good = disp.d == 0
                acc = {Decimal(0)}
            else:
                accn, pos = round_sig_set(dt, n)
                if disp.q >= pos:
                    acc = accn
                else:
                    acc = round_at_set(dt, disp.q)
                good = num_eq_any(disp.d, acc)
            if not ctx.check(pre + ".asym-error-rounded", good, lambda: dict(det, side=nm, expected_error=[str(a) for a in sorted(acc)])):
                return True
        au, ad = abs(D(asym[1])), abs(D(asym[0]))
        if au == ad:
            E_ref = U if U.q >= Dn.q else Dn  # equal uncertainties: the coarser display is the reference
        else:
            E_ref = U if au < ad else Dn  # the smaller uncertainty sets the precision
        qE = E_ref.q
        e_ref = min(abs(D(asym[1])), abs(D(asym[0])))
        big = abs(dv) >= max(abs(D(asym[0])), abs(D(asym[1])))
    if not rte:
        ctx.check(pre + ".norte-value", within_half(V.d, V.q, value), det)
        return True

    def key():
        if tie_carry_error(e_ref, n, E_ref):
            return "C17/error-tie-at-decade-inconsistent-precision"
        if n == 1 and V.q > qE and V.d != 0:
            # value shown with exactly one significant digit less than needed to reach the uncertainty's last digit
            # (LaTeX scientific notation may strip further trailing zeros)
            have = len(V.d.as_tuple().digits)
            stripped = latex and "\\times" in V.s
            for r in round_at_set(dv, qE):  # both neighbours if the value sits on a tie at the uncertainty's digit
                need = r.adjusted() - qE + 1
                if r != 0 and need >= 2 and (have == need - 1 or (stripped and have < need - 1)) and num_eq_any(abs(V.d), round_sig_set(abs(dv), need - 1)[0]):
                    return "C17/nsig1-value-one-digit-short"
        if latex and "\\times" in V.s and V.q > qE and within_half(V.d, qE, value):
            return "C17/latex-sci-notation-strips-trailing-zeros"
        return None

    if not ctx.check(pre + ".value-within-half-unit", within_half(V.d, qE, value), lambda: dict(det, error_last_digit=qE, value_last_digit=V.q), key=key):
        return True
    if big:
        ctx.check(pre + ".value-shown-to-error-digit", V.q <= qE, lambda: dict(det, error_last_digit=qE, value_last_digit=V.q), key=key)
    return True


# ------------------------------------------------------------------ generators (Part A)
def gen_pos(rng, cls=None, exp=None):
    """A positive float built from a decimal mantissa string and a decimal exponent."""
    if cls is None:
        cls = MANT[int(rng.choice(5, p=[0.3, 0.2, 0.25, 0.1, 0.15]))]
    if exp is None:
        exp = int(rng.integers(-12, 12))
    if cls == "carry":
        if rng.random() < 0.4:
            m = str(rng.choice(["9.5", "9.95", "9.995", "9.9995", "9.96", "9.996", "9.9996", "9.94", "9.994", "9.9949", "9.99999", "9.949999", "9.950001"]))
        else:
            m = "%.6f" % rng.uniform(9.94, 9.999999)
    elif cls == "tie":
        k = int(rng.integers(0, 4))
        m = "%d.%s5" % (int(rng.integers(1, 10)), "".join(str(int(d)) for d in rng.integers(0, 10, size=k)))
    elif cls == "logu":
        m = repr(float(10 ** rng.uniform(0, 1)))
    elif cls == "round":
        m = str(rng.choice(["1", "1.0", "2", "5", "1.5", "2.5", "9", "9.9", "9.99", "1.0000001", "0.99999999", "3.0", "1.05", "1.005"]))
    else:
        k = int(rng.integers(0, 4))
        m = "%d.%s" % (int(rng.integers(1, 10)), "".join(str(int(d)) for d in rng.integers(0, 10, size=k)))
    return float("%se%d" % (m, exp)), cls, exp


NAMES = ["a", "b", "x0", "tau", "A_0", "phi", "sigma", "par_long_name"]


def gen_fmt_case(rng, idx, forced=None):
    mode = forced[0] if forced else MODES[int(rng.choice(6, p=[0.42, 0.27, 0.08, 0.07, 0.08, 0.08]))]
    n = forced[1] if forced else int(rng.integers(1, 4))
    latex = forced[2] if forced else bool(rng.random() < 0.5)
    vcls = forced[3] if forced and len(forced) > 3 else None
    ecls = forced[4] if forced and len(forced) > 4 else None
    if vcls == "zero" or (vcls is None and rng.random() < 0.04):
        value, vc, vexp = 0.0, "zero", int(rng.integers(-12, 12))
    else:
        value, vc, vexp = gen_pos(rng, vcls)
        if rng.random() < 0.4:
            value = -value
    if rng.random() < 0.6:
        eexp = int(np.clip(vexp + int(rng.integers(-5, 4)), -12, 11))
    else:
        eexp = None
    error, ec, eexp = gen_pos(rng, ecls, eexp)
    case = {"kind": "fmt", "mode": mode, "n": n, "latex": latex, "value": value, "error": error, "asym": None, "with_name": None, "classes": [vc, ec]}
    if rng.random() < 0.3:
        case["with_name"] = str(rng.choice(NAMES))
    if mode in ASYM_MODES:
        r = rng.random()
        up, _c, _e = gen_pos(rng, None, eexp)
        if r < 0.35:
            down = gen_pos(rng, None, eexp)[0]
        elif r < 0.5:
            down = up
        else:
            down = gen_pos(rng, None, int(np.clip(eexp + int(rng.choice([-3, -2, -1, 1, 2, 3])), -12, 11)))[0]
        if rng.random() < 0.85:
            down = -down
        case["asym"] = [down, up]
        case["asym_container"] = "ndarray" if rng.random() < 0.7 else "tuple"
        if rng.random() < 0.02:
            case["error"] = None  # the constructor documents error=None as valid
        elif rng.random() < 0.04:
            # the cost function never rises by one on one side (MINOS: infinite uncertainty there)
            case["inf_side"] = str(rng.choice(["up", "down", "both"]))
    elif mode == "noerr":
        case["noerr"] = str(rng.choice(["with_errors=False", "error=None", "error=0"]))
        if case["noerr"] == "error=None":
            case["error"] = None
        elif case["noerr"] == "error=0":
            case["error"] = 0.0
    return case


def run_fmt_inf(ctx, case, a):
    """asymmetric display with an infinite uncertainty on one or both sides: the infinite side reads 'inf', the other side and the
    value are still faithful roundings (value: at most half a unit of its last displayed digit; finite uncertainty: n significant digits)"""
    from kafe2.fit._base.format import ParameterFormatter

    side, n, latex, value = case["inf_side"], case["n"], case["latex"], case["value"]
    a = np.array(a, dtype=float)
    if side in ("up", "both"):
        a[1] = np.inf
    if side in ("down", "both"):
        a[0] = -np.inf
    ctx.op("fmt.infinite-asymmetric-uncertainty")
    ctx.stratum("fmt", "infinite-asymmetric-uncertainty", side)
    pf = ParameterFormatter("p", value=value, error=case["error"] if case["error"] is not None else 1.0, asymmetric_error=a)
    kw = dict(with_name=False, n_significant_digits=n, format_as_latex=latex, asymmetric_error=True)
    if case["mode"] in NORTE_MODES:
        kw["round_value_to_error"] = False
    try:
        s = pf.get_formatted(**kw)
    except Exception as e:
        ctx.check("string.no-exception", False, {"exception": e, "traceback": fmt_exc(), "kwargs": kw, "asymmetric_error": a})
        return False
    ctx.check("string.no-exception", True)
    m = re.match(r"^\$\{(.+)\}\^\{\+(.+)\}_\{-(.+)\}\$$", s) if latex else re.match(r"^(\S+) \+ (\S+) \(up\) - (\S+) \(down\)$", s)
    if not ctx.check("string.parsed", m is not None, {"string": s, "why": "not the documented asymmetric form"}):
        return False
    toks = {"value": m.group(1), "up": m.group(2), "down": m.group(3)}
    det = {"string": s, "value": value, "asymmetric_error": a, "n_significant_digits": n}
    ok = True
    for nm, held in (("up", a[1]), ("down", a[0])):
        if not np.isfinite(held):
            ok = ctx.check("string.infinite-side", toks[nm] == "inf", dict(det, side=nm, displayed=toks[nm])) and ok
        else:
            try:
                disp = Num(toks[nm])
                acc, _pos = round_sig_set(abs(D(float(held))), n)
                ok = ctx.check("string.asym-error-rounded", num_eq_any(disp.d, acc), lambda: dict(det, side=nm, displayed=toks[nm], expected_error=[str(x) for x in sorted(acc)])) and ok
            except Exception:
                ok = ctx.check("string.parsed", False, dict(det, side=nm, displayed=toks[nm])) and ok
    try:
        V = Num(toks["value"])
        ok = ctx.check("string.value-within-half-unit", within_half(V.d, V.q, value), dict(det, displayed=toks["value"])) and ok
    except Exception:
        ok = ctx.check("string.parsed", False, dict(det, displayed=toks["value"])) and ok
    return ok


def run_fmt(ctx, case):
    from kafe2.fit._base.format import ParameterFormatter

    mode, n, latex = case["mode"], case["n"], case["latex"]
    ctx.op("fmt")
    ctx.stratum("fmt", mode, "n%d" % n, "latex" if latex else "plain")
    if case.get("classes"):
        ctx.stratum("mant", *case["classes"])
    value, error, asym = case["value"], case["error"], case["asym"]
    name = case.get("with_name")
    a = None
    if asym is not None:
        a = np.array(asym, dtype=float) if case.get("asym_container", "ndarray") == "ndarray" else (float(asym[0]), float(asym[1]))
    if case.get("inf_side") and a is not None:
        return run_fmt_inf(ctx, case, a)
    pf = ParameterFormatter(name or "p", value=value, error=error, asymmetric_error=a)
    if mode == "fixed":
        pf.fixed = True
    kw = dict(with_name=bool(name), n_significant_digits=n, format_as_latex=latex, asymmetric_error=(mode in ASYM_MODES))
    with_errors = True
    if mode == "noerr" and case.get("noerr") == "with_errors=False":
        kw["with_errors"] = with_errors = False
    if mode in NORTE_MODES:
        kw["round_value_to_error"] = False
    try:
        s = pf.get_formatted(**kw)
    except Exception as e:
        def key():
            if isinstance(e, TypeError) and mode in ASYM_MODES and error is None:
                return "C17/asymmetric-format-needs-symmetric-error"
            return None

        ctx.check("string.no-exception", False, {"exception": e, "traceback": fmt_exc(), "kwargs": kw}, key=key)
        return False
    ctx.check("string.no-exception", True)
    body = s
    if name:
        prefix = ("$%s$ = " % pf.latex_name) if latex else ("%s = " % name)
        if not ctx.check("string.name", s.startswith(prefix), {"string": s, "expected_prefix": prefix}):
            return False
        body = s[len(prefix):]
    parsed = parse_pm(body, latex)
    if not ctx.check("string.parsed", parsed is not None, {"string": s, "why": "not one of the documented forms"}):
        return False
    return check_pm(ctx, parsed, value, error, asym, n, mode == "fixed", with_errors=with_errors, rte=(mode not in NORTE_MODES), latex=latex, want_asym=(mode in ASYM_MODES), extra={"string": s})


# ---- CostFunctionFormatter strings
def gen_cost_case(rng, idx):
    value, c, e = gen_pos(rng, None, int(rng.integers(-6, 9)))
    if rng.random() < 0.2:
        value = -value
    if rng.random() < 0.03:
        value = 0.0
    ndf = None if rng.random() < 0.2 else int(rng.choice([0, 1, 2, 3, 7, 10, 33, 100, 12345]))
    return {"kind": "cost", "value": value, "ndf": ndf, "with_name": bool(rng.random() < 0.5), "per_ndf": bool(rng.random() < 0.8), "latex": bool(rng.random() < 0.5)}


def run_cost(ctx, case):
    from kafe2.fit._base.format import CostFunctionFormatter

    ctx.op("cost")
    cf = CostFunctionFormatter("chi2", latex_name=r"\chi^2", arg_formatters=[])
    latex = case["latex"]
    s = cf.get_formatted(value=case["value"], n_degrees_of_freedom=case["ndf"], with_name=case["with_name"], with_value_per_ndf=case["per_ndf"], format_as_latex=latex)
    body = s
    if latex:
        if not ctx.check("cost-string.parsed", s.startswith("$") and s.endswith("$"), {"string": s}):
            return False
        body = s[1:-1]
    if case["with_name"]:
        nm = cf.latex_name if latex else cf.name
        if case["ndf"] is not None:
            nm = (r"%s / {\rm ndf}" % nm) if latex else ("%s / ndf" % nm)
        if not ctx.check("cost-string.name", body.startswith(nm + " = "), {"string": s, "expected_prefix": nm + " = "}):
            return False
        body = body[len(nm) + 3:]
    n = "(%s)" % (_LATEX if latex else _PLAIN)
    m = re.match(r"^%s(?: / (\d+)(?: = %s)?)?$" % (n, n), body)
    if not ctx.check("cost-string.parsed", m is not None, {"string": s}):
        return False
    det = {"string": s, "value": case["value"], "ndf": case["ndf"]}
    V = Num(m.group(1))
    ctx.check("cost-string.number", within_half(V.d, V.q, case["value"]), det)
    if case["ndf"] is None:
        ctx.check("cost-string.ndf", m.group(2) is None, det)
        return True
    if not ctx.check("cost-string.ndf", m.group(2) is not None and int(m.group(2)) == case["ndf"], det):
        return True
    want_ratio = case["per_ndf"] and case["ndf"] > 0
    if not ctx.check("cost-string.ratio-present", (m.group(3) is not None) == want_ratio, det):
        return True
    if want_ratio:
        R = Num(m.group(3))
        ctx.check("cost-string.number", within_half(R.d, R.q, float(case["value"]) / case["ndf"]), dict(det, which="value/ndf"))
    return True


# ---- compact table (kafe2.tools.get_compact_representation), called with held numbers directly
def gen_cor(rng, k):
    if k == 1:
        return [[1.0]]
    A = rng.normal(size=(k, k + int(rng.integers(0, 3))))
    if rng.random() < 0.3:
        A[1] = A[0] * rng.choice([1.0, -1.0]) + rng.normal(size=A.shape[1]) * 10 ** rng.uniform(-4, -1)
    C = A @ A.T
    s = np.sqrt(np.diag(C))
    C = C / np.outer(s, s)
    C = (C + C.T) / 2
    for i in range(k):
        C[i, i] = 1.0
    if rng.random() < 0.2:  # exactly uncorrelated pair / tiny correlation
        i, j = 0, k - 1
        C[i, j] = C[j, i] = 0.0 if rng.random() < 0.5 else float(rng.choice([-1, 1]) * 10 ** rng.uniform(-8, -2))
    return C.tolist()


def gen_compact_case(rng, idx):
    k = int(rng.integers(1, 5))
    vals, errs, asym, fixed = [], [], [], []
    use_asym = bool(rng.random() < 0.5)
    for i in range(k):
        v, _c, vexp = gen_pos(rng)
        if rng.random() < 0.4:
            v = -v
        if rng.random() < 0.02:
            v = 0.0
        if rng.random() < 0.6:
            eexp = int(np.clip(vexp + int(rng.integers(-5, 4)), -12, 11))
        else:
            eexp = None
        e, _c, eexp = gen_pos(rng, None, eexp)
        fx = bool(rng.random() < 0.08)
        if fx:
            e = 0.0  # what a fit holds for a fixed parameter
        vals.append(v)
        errs.append(e)
        fixed.append(fx)
        if fx:
            asym.append([0.0, 0.0])
        else:
            up = gen_pos(rng, None, eexp)[0]
            dn = up if rng.random() < 0.3 else gen_pos(rng, None, eexp)[0]
            asym.append([-dn, up])
    cor = gen_cor(rng, k)
    for i in range(k):
        if fixed[i]:
            for j in range(k):
                cor[i][j] = cor[j][i] = 0.0
    off = int(rng.integers(0, len(NAMES)))
    names = [NAMES[(off + i) % len(NAMES)] for i in range(k)]
    return {"kind": "compact", "names": names, "values": vals, "errors": errs, "cor": cor, "asym": asym if use_asym else None}


def parse_compact(text, prefix="# "):
    """Parse the rst table. Returns (header-tokens, rows) with rows = list of token lists, or None."""
    lines = []
    for ln in text.split("\n"):
        if not ln.strip():
            continue
        if not ln.startswith(prefix.rstrip()):
            return None
        lines.append(ln[len(prefix.rstrip()):].strip())
    seps = [i for i, ln in enumerate(lines) if ln and set(ln) <= set("= ")]
    if len(seps) != 3:
        return None
    header = lines[seps[0] + 1]
    rows = [ln.split() for ln in lines[seps[1] + 1: seps[2]]]
    return header, rows


def check_compact_rows(ctx, pre, header, rows, names, values, errors, cor, asym, det):
    """Compare the parsed compact table with the held numbers. Returns False at the first divergence."""
    has_asym = "Par err down" in header
    if not ctx.check(pre + ".names", [r[0] for r in rows if r] == list(names) and len(rows) == len(names), lambda: dict(det, displayed=[r[:1] for r in rows], held=list(names))):
        return False
    if not ctx.check(pre + ".asym-columns", has_asym == (asym is not None), lambda: dict(det, header=header)):
        return False
    for i, r in enumerate(rows):
        fx = bool(np.isnan(errors[i]) or errors[i] == 0)
        ncol = 3 + (2 if has_asym else 0)
        d = lambda: dict(det, row=r, parameter=names[i], held_value=values[i], held_error=errors[i], held_asym=None if asym is None else asym[i], held_cor_row=None if cor is None else list(cor[i][:i]))  # noqa: E731
        if not ctx.check(pre + ".row-shape", len(r) == ncol + (i if cor is not None else 0), d):
            return False
        try:
            V = Num(r[1])
            E = None if r[2] == "fixed" else Num(r[2])
            A = [None if t == "N/A" else Num(t) for t in r[3:ncol]]
            Cn = [Num(t) for t in r[ncol:]]
        except Exception:
            ctx.check(pre + ".row-shape", False, d)
            return False
        if not ctx.check(pre + ".value", within_half(V.d, V.q, values[i]), d, key=lambda: double_rounding_key(V, values[i])):
            return False
        if not ctx.check(pre + ".fixed-marker", (E is None) == fx, d):
            return False
        if E is not None and not ctx.check(pre + ".error", within_half(E.d, E.q, errors[i]), d, key=lambda: double_rounding_key(E, errors[i])):
            return False
        for t, held in zip(A, asym[i] if has_asym else []):
            if t is None:
                if not ctx.check(pre + ".asym-error", fx or bool(np.isnan(held)), d):
                    return False
            elif not ctx.check(pre + ".asym-error", within_half(t.d, t.q, held), d, key=lambda: double_rounding_key(t, held)):
                return False
        for j, t in enumerate(Cn):
            if not ctx.check(pre + ".correlation", within_half(t.d, t.q, cor[i][j]), lambda: dict(d(), column=j), key=lambda: double_rounding_key(t, cor[i][j])):
                return False
    return True


def double_rounding_key(disp, held):
    """Classifier: the displayed number has exactly six significant digits, is not the rounding of the held one at its own
    last digit, but is the rounding (at that digit) of the held number first rounded at some finer digit."""
    h = D(held)
    if len(disp.d.as_tuple().digits) != 6:  # the second rounding is tabulate's default '%g' (6 significant digits)
        return None
    for p in range(disp.q - 1, disp.q - 13, -1):
        for r in round_at_set(h, p):
            if num_eq_any(disp.d, round_at_set(r, disp.q)) or disp.d == r.quantize(unit(disp.q), rounding=decimal.ROUND_HALF_UP, context=DC):
                return "C17/compact-table-double-rounding"
    return None


def compact_exception_key(e, values, errors, asym, cor=0):
    """Classifier for exceptions of get_compact_representation: log10 of an exact zero; no correlation matrix held."""
    if cor is None and isinstance(e, AttributeError):
        return "C17/compact-table-without-correlation-matrix"
    if not isinstance(e, OverflowError):
        return None
    free = [not (np.isnan(er) or er == 0) for er in errors]
    if any(f and v == 0 for f, v in zip(free, values)):
        return "C17/compact-table-log10-of-zero"
    if asym is not None and any(a == 0 for row in asym for a in row):
        return "C17/compact-table-log10-of-zero"
    return None


def run_compact(ctx, case):
    from kafe2.tools import get_compact_representation

    ctx.op("compact")
    names, values, errors = case["names"], [float(v) for v in case["values"]], [float(e) for e in case["errors"]]
    cor = np.array(case["cor"], dtype=float)
    asym = None if case["asym"] is None else np.array(case["asym"], dtype=float)
    det = {"names": names}
    try:
        text = get_compact_representation(names, np.array(values), np.array(errors), cor, asym)
    except Exception as e:
        ctx.check("compact.no-exception", False, {"exception": e, "traceback": fmt_exc()}, key=lambda: compact_exception_key(e, values, errors, asym))
        return False
    ctx.check("compact.no-exception", True)
    p = parse_compact(text)
    if not ctx.check("compact.parsed", p is not None, {"text": text}):
        return False
    det["text"] = text
    return check_compact_rows(ctx, "compact", p[0], p[1], names, values, errors, cor, asym, det)


# ------------------------------------------------------------------ Part B: fitted problems
N_IDX = 6


def m_const(x, c=1.0):
    return c + 0.0 * x


def m_line(x, a=1.0, b=0.0):
    return a * x + b


def m_quad(x, a=1.0, b=0.0, c=0.1):
    return a * x + b + c * x**2


def m_exp(x, A0=1.0, tau=2.0):
    return A0 * np.exp(-x / tau)


def im_const(c=1.0):
    return c + np.zeros(6)


def im_line(a=1.0, b=0.0):
    return a * np.arange(6) + b


def im_quad(a=1.0, b=0.0, c=0.1):
    return a * np.arange(6) + b + c * np.arange(6) ** 2


def h_norm(x, mu=0.1, sigma=1.0):
    return np.exp(-0.5 * ((x - mu) / sigma) ** 2) / np.sqrt(2.0 * np.pi * sigma**2)


def h_exp(x, tau=1.0):
    return np.exp(-x / tau) / tau


# name -> (fit type, model spec, parameter names, true values (unit scale), kind)
MODELS = {
    "const": ("xy", m_const, ["c"], [1.7], "python"),
    "line": ("xy", m_line, ["a", "b"], [1.3, -0.4], "python"),
    "quad": ("xy", m_quad, ["a", "b", "c"], [1.3, 0.6, 0.07], "python"),
    "exp": ("xy", m_exp, ["A0", "tau"], [2.2, 2.9], "python"),
    "s_line": ("xy", "line: x a b -> a * x + b", ["a", "b"], [0.8, 0.5], "string"),
    "s_quad": ("xy", "parabola: x a b c -> a * x + b + c * x^2", ["a", "b", "c"], [1.1, -0.3, 0.05], "string"),
    "i_const": ("indexed", im_const, ["c"], [2.5], "python"),
    "i_line": ("indexed", im_line, ["a", "b"], [1.5, 0.3], "python"),
    "i_quad": ("indexed", im_quad, ["a", "b", "c"], [1.2, 0.4, 0.09], "python"),
    "h_norm": ("hist", h_norm, ["mu", "sigma"], [0.2, 1.1], "python"),
    "h_exp": ("hist", h_exp, ["tau"], [1.4], "python"),
}
HISTORIES = {
    "fit": ["do_fit", "observe"],
    "unfitted-first": ["observe", "do_fit", "observe"],
    "set-values": ["do_fit", "observe", "set_values", "observe", "do_fit", "observe"],
    "fix-later": ["do_fit", "observe", "fix", "do_fit", "observe", "release", "do_fit", "observe"],
    "new-data": ["do_fit", "observe", "new_data", "observe", "do_fit", "observe"],
}
# stratified combos: (model, history, asym, fix, constraint, limit, minimizer)
COMBOS = [
    ("line", "fit", False, False, False, False, "iminuit"),
    ("quad", "fit", True, True, False, False, "iminuit"),
    ("h_norm", "fit", False, False, False, False, "iminuit"),
    ("i_line", "fit", True, False, True, False, "scipy"),
    ("s_line", "unfitted-first", False, False, False, False, "iminuit"),
    ("exp", "set-values", True, False, False, False, "iminuit"),
    ("quad", "fix-later", False, False, True, False, "scipy"),
    ("i_quad", "new-data", False, True, False, False, "iminuit"),
    ("h_norm", "fix-later", True, False, False, False, "scipy"),
    ("line", "fit", False, False, False, True, "scipy"),
    ("s_quad", "set-values", False, True, False, False, "scipy"),
    ("const", "unfitted-first", True, False, False, False, "scipy"),
    ("h_exp", "set-values", False, False, False, False, "iminuit"),
    ("i_const", "fit", False, False, True, False, "iminuit"),
    ("exp", "fit", False, True, False, True, "iminuit"),
    ("quad", "new-data", True, False, False, False, "iminuit"),
    ("h_norm", "unfitted-first", False, True, False, False, "iminuit"),
    ("i_line", "fix-later", False, False, False, False, "iminuit"),
    ("s_line", "new-data", True, False, True, False, "iminuit"),
    ("line", "set-values", False, True, False, False, "iminuit"),
    ("quad", "fit", False, False, False, True, "iminuit"),
    ("i_quad", "fit", True, True, False, False, "scipy"),
    ("exp", "fix-later", False, False, True, False, "scipy"),
    ("h_norm", "new-data", False, False, True, False, "scipy"),
]


def gen_report_case(rng, idx, slot):
    if slot < len(COMBOS):
        model, hist, asym, fix, con, lim, mini = COMBOS[slot]
    else:
        model = str(rng.choice(list(MODELS)))
        hist = str(rng.choice(list(HISTORIES)))
        asym, fix, con, lim = (bool(rng.random() < p) for p in (0.4, 0.35, 0.3, 0.15))
        mini = str(rng.choice(["iminuit", "scipy"]))
    ftype, _spec, pnames, _true, _kind = MODELS[model]
    if len(pnames) == 1:
        fix = False  # keep at least one free parameter
    if asym and mini == "scipy" and len(pnames) - bool(fix) > 2:
        mini = "iminuit"  # scipy profile scans of three free parameters take ~15 s
    case = {
        "kind": "report",
        "model": model,
        "history": hist,
        "asym": bool(asym),
        "minimizer": mini,
        "n": int(rng.integers(5, 11)),
        "data_seed": int(rng.integers(0, 2**31)),
        "yscale_exp": int(rng.integers(-6, 7)) if ftype != "hist" else int(rng.integers(-3, 4)),
        "rel_err": float(rng.choice([0.003, 0.02, 0.1, 0.3])),
        "fix": None,
        "constraint": None,
        "limit": None,
        "asym_before_report": bool(rng.random() < 0.5),
    }
    if fix:
        case["fix"] = str(pnames[-1] if rng.random() < 0.6 else pnames[int(rng.integers(0, len(pnames)))])
    if con:
        free = [p for p in pnames if p != case["fix"]]
        case["constraint"] = [str(free[int(rng.integers(0, len(free)))]), float(rng.uniform(0.7, 1.3)), float(rng.choice([0.05, 0.3]))]
    if lim:
        free = [p for p in pnames if p != case["fix"]]
        case["limit"] = [str(free[int(rng.integers(0, len(free)))]), str(rng.choice(["at-zero", "below-optimum", "wide"]))]
    return case


def _make_data(case, seed_shift=0):
    ftype, spec, pnames, true, kind = MODELS[case["model"]]
    rng = np.random.default_rng([case["data_seed"], seed_shift])
    s = 10.0 ** case["yscale_exp"]
    if ftype == "xy":
        n = case["n"]
        x = np.sort(rng.uniform(0.0, 6.0, size=n)) + 0.1 * np.arange(n)
        f = {"const": m_const, "line": m_line, "quad": m_quad, "exp": m_exp, "s_line": m_line, "s_quad": m_quad}[case["model"]]
        y0 = f(x, *true)
        sig = case["rel_err"] * max(np.max(np.abs(y0)), 1e-3)
        y = (y0 + rng.normal(0, sig, size=n)) * s
        return {"x": x, "y": y, "yerr": sig * s, "scale": s}
    if ftype == "indexed":
        y0 = spec(*true)
        sig = case["rel_err"] * max(np.max(np.abs(y0)), 1e-3)
        y = (y0 + rng.normal(0, sig, size=N_IDX)) * s
        return {"y": y, "yerr": sig * s, "scale": s}
    nent = int(60 + 40 * case["n"])
    if case["model"] == "h_norm":
        raw = rng.normal(true[0] * s, true[1] * s, size=nent)
        rng_ = (-3.0 * s, 3.5 * s)
    else:
        raw = rng.exponential(true[0] * s, size=nent)
        rng_ = (0.0, 5.0 * s)
    return {"raw": raw, "range": rng_, "bins": int(5 + case["n"] % 5), "scale": s}


def build_fit(case):
    from kafe2 import HistContainer, HistFit, IndexedFit, XYFit

    ftype, spec, pnames, true, kind = MODELS[case["model"]]
    d = _make_data(case)
    s = d["scale"]
    if ftype == "xy":
        fit = XYFit([d["x"], d["y"]], spec, minimizer=case["minimizer"])
        fit.add_error("y", d["yerr"])
    elif ftype == "indexed":
        fit = IndexedFit(d["y"], spec, minimizer=case["minimizer"])
        fit.add_error(d["yerr"])
    else:
        fit = HistFit(HistContainer(d["bins"], d["range"], fill_data=d["raw"]), spec, minimizer=case["minimizer"])
    # starting values at the scale of the problem (a user would do that)
    start = {}
    for p, t in zip(pnames, true):
        start[p] = t * 1.1 * (1.0 if (ftype == "xy" and p == "tau") else s)  # tau of m_exp lives on the (unscaled) x axis
    fit.set_parameter_values(**start)
    if case["fix"] and case["history"] != "fix-later":
        fit.fix_parameter(case["fix"], start[case["fix"]] / 1.1 * 1.02)
    if case["constraint"]:
        p, f, rel = case["constraint"]
        v = start[p] / 1.1 * f
        fit.add_parameter_constraint(p, v, abs(v) * rel)
    if case["limit"]:
        p, how = case["limit"]
        v = start[p] / 1.1
        if how == "at-zero":
            lo, hi = (-10 * abs(v), 0.0) if v > 0 else (0.0, 10 * abs(v))  # optimum outside: the fit ends on the bound 0
        elif how == "below-optimum":
            lo, hi = (v - 3 * abs(v), v - 0.05 * abs(v))
        else:
            lo, hi = (v - 10 * abs(v), v + 10 * abs(v))
        fit.limit_parameter(p, lo, hi)
    return fit, start


def _report_sections(text):
    """Split the 'Fit Results' part of a report into its sections (title -> list of non-empty lines)."""
    lines = text.split("\n")
    sec, cur = {}, None
    for i, ln in enumerate(lines):
        st = ln.strip()
        if i + 1 < len(lines) and st and set(lines[i + 1].strip()) == {"="} and len(lines[i + 1].strip()) == len(st) and not ln.startswith(" " * 8):
            cur = st
            sec[cur] = []
            continue
        if cur is not None and st and not set(st) <= {"=", " "}:
            sec[cur].append(ln)
    return sec


def held_state(fit, want_asym):
    """What the fit object holds right now (public properties)."""
    h = {
        "names": list(fit.parameter_names),
        "values": np.array(fit.parameter_values, dtype=float),
        "errors": None if fit.parameter_errors is None else np.array(fit.parameter_errors, dtype=float),
        "cor": None if fit.parameter_cor_mat is None else np.array(fit.parameter_cor_mat, dtype=float),
        "cov": fit.parameter_cov_mat,
        "cost": fit.cost_function_value,
        "ndf": fit.ndf,
        "gof": fit.goodness_of_fit,
        "p": fit.chi2_probability,
        "did_fit": bool(fit.did_fit),
        "errors_valid": bool(fit.errors_valid),
        "fixed": set(fit._fitter.fixed_parameters),
        "is_chi2": bool(fit._cost_function.is_chi2),
        "asym": None,
    }
    if want_asym:
        a = fit.asymmetric_parameter_errors
        h["asym"] = None if a is None else np.array(a, dtype=float)
    return h


class _Abort(Exception):
    """The case cannot be judged by C17 (discarded, never a verdict)."""


def _finite_state(h):
    for k in ("values", "errors", "cost", "gof", "p"):
        v = h[k]
        if v is not None and not np.all(np.isfinite(np.asarray(v, dtype=float))):
            return False
    # a free parameter without variance, or a covariance matrix that cannot be normalised (seen with the scipy backend: its
    # numerical Hessian is noise when values are ~1e6): a degenerate fit result, not a display question (DESIGN.md, degenerate minima)
    if h["errors"] is not None and h["errors_valid"]:
        if any(n not in h["fixed"] and not float(e) > 0.0 for n, e in zip(h["names"], h["errors"])):
            return False
    if h["cor"] is not None and not np.all(np.isfinite(np.asarray(h["cor"], dtype=float))):
        return False
    return True


def _same(a, b):
    if a is None or b is None:
        return a is None and b is None
    if isinstance(a, (set, list, str, bool)):
        return a == b
    return np.shape(a) == np.shape(b) and bool(np.array_equal(np.asarray(a, dtype=float), np.asarray(b, dtype=float), equal_nan=True))


def same_state(a, b):
    return all(_same(a[k], b[k]) for k in ("names", "values", "errors", "cor", "cov", "cost", "ndf", "gof", "p", "did_fit", "errors_valid", "fixed"))


def check_report_text(ctx, text, h, want_asym, det):
    sec = _report_sections(text)
    if not ctx.check("report.parsed", "Model Parameters" in sec and "Cost Function" in sec, lambda: dict(det, why="sections missing", sections=list(sec))):
        return False
    plines = sec["Model Parameters"]
    shown = [ln.strip().split(" = ", 1) for ln in plines]
    if not ctx.check("report.names", [s[0] for s in shown] == h["names"] and all(len(s) == 2 for s in shown), lambda: dict(det, displayed=[s[0] for s in shown], held=h["names"])):
        return False
    for i, (nm, body) in enumerate(shown):
        parsed = parse_pm(body, False)
        d = lambda: dict(det, line=plines[i], held_value=h["values"][i], held_error=None if h["errors"] is None else h["errors"][i], held_asym=None if h["asym"] is None else h["asym"][i])  # noqa: E731
        if not ctx.check("report.parameter-line", parsed is not None, d):
            return False
        nf = _nfail(ctx)
        fx = nm in h["fixed"]
        err = None if h["errors"] is None else float(h["errors"][i])
        asym = None if h["asym"] is None else [float(a) for a in h["asym"][i]]
        if want_asym and asym is None and err is not None:
            asym = [-err, err]  # no asymmetric errors held: the report documents the fallback to the parabolic ones
            ctx.note("report.asym-fallback-to-parabolic")
        check_pm(ctx, parsed, float(h["values"][i]), err, asym, 2, fx, with_errors=h["errors_valid"], rte=True, latex=False, want_asym=want_asym and h["errors_valid"], pre="report.par", extra=dict(det, line=plines[i], parameter=nm))
        if _nfail(ctx) > nf:
            return False
    # correlations
    if h["errors_valid"]:
        if not ctx.check("report.parsed", "Model Parameter Correlations" in sec, lambda: dict(det, why="correlation section missing")):
            return False
        cl = sec["Model Parameter Correlations"]
        if h["cor"] is None:
            if not ctx.check("report.correlation", len(cl) == 1 and cl[0].strip() == "<not available>", lambda: dict(det, lines=cl)):
                return False
        else:
            k = len(h["names"])
            rows = [ln.split() for ln in cl]
            if not ctx.check("report.names", len(rows) == k + 1 and rows[0] == h["names"] and [r[0] for r in rows[1:]] == h["names"], lambda: dict(det, lines=cl, held=h["names"], what="correlation table labels")):
                return False
            for i, r in enumerate(rows[1:]):
                if not ctx.check("report.parsed", len(r) == k + 1, lambda: dict(det, line=cl[i + 1])):
                    return False
                for j, t in enumerate(r[1:]):
                    try:
                        c = Num(t)
                    except Exception:
                        ctx.check("report.parsed", False, lambda: dict(det, line=cl[i + 1]))
                        return False
                    if not ctx.check("report.correlation", within_half(c.d, c.q, h["cor"][i][j]), lambda: dict(det, row=i, column=j, displayed=t, held=h["cor"][i][j], line=cl[i + 1])):
                        return False
    # cost
    cost_lines = [ln.strip() for ln in sec["Cost Function"]]
    gl = [ln for ln in cost_lines if re.match(r"^(chi2 / ndf|GoF / ndf|Cost) = ", ln)]
    if not ctx.check("report.parsed", len(gl) == 1, lambda: dict(det, why="cost line", lines=cost_lines)):
        return False
    head, body = gl[0].split(" = ", 1)
    dd = lambda: dict(det, line=gl[0], held_cost=h["cost"], held_gof=h["gof"], held_ndf=h["ndf"])  # noqa: E731
    if h["gof"] is None or not h["errors_valid"]:
        m = re.match(r"^(%s)$" % _PLAIN, body)
        if not ctx.check("report.parsed", head == "Cost" and m is not None, dd):
            return False
        c = Num(m.group(1))
        if not ctx.check("report.cost", within_half(c.d, c.q, h["cost"]), dd):
            return False
    else:
        m = re.match(r"^(%s) / (-?\d+)(?: = (%s))?$" % (_PLAIN, _PLAIN), body)
        if not ctx.check("report.parsed", m is not None and head == ("chi2 / ndf" if h["is_chi2"] else "GoF / ndf"), dd):
            return False
        c = Num(m.group(1))
        if not ctx.check("report.cost", within_half(c.d, c.q, h["gof"]), dd):
            return False
        if not ctx.check("report.ndf", int(m.group(2)) == h["ndf"], dd):
            return False
        if h["ndf"] > 0:
            if not ctx.check("report.parsed", m.group(3) is not None, dd):
                return False
            r = Num(m.group(3))
            if not ctx.check("report.cost-per-ndf", within_half(r.d, r.q, float(h["gof"]) / h["ndf"]), dd):
                return False
    pl = [ln for ln in cost_lines if ln.startswith("chi2 probability = ")]
    if h["p"] is not None and h["errors_valid"]:
        if not ctx.check("report.parsed", len(pl) == 1, lambda: dict(det, why="chi2 probability line missing", lines=cost_lines)):
            return False
    if pl:
        try:
            p = Num(pl[0].split(" = ", 1)[1])
        except Exception:
            ctx.check("report.parsed", False, lambda: dict(det, line=pl[0]))
            return False
        if not ctx.check("report.chi2-probability", h["p"] is not None and within_half(p.d, p.q, h["p"]), lambda: dict(det, line=pl[0], held=h["p"])):
            return False
    return True


def _nfail(ctx):
    return sum(ctx._wit_per_key.values())


def check_preface(ctx, text, h, det):
    lines = [ln for ln in text.split("\n") if ln.startswith("#")]
    kv = {}
    for ln in lines:
        m = re.match(r"^# ([A-Za-z0-9/ ]+?): (.*)$", ln)
        if m:
            kv[m.group(1)] = m.group(2).strip()
    warn = any("No fit has been performed" in ln for ln in lines)
    if not ctx.check("preface.did-fit", warn == (not h["did_fit"]), lambda: dict(det, preface=lines)):
        return False
    if not h["did_fit"]:
        return True
    gname = "chi2" if h["is_chi2"] else "GoF"
    d = lambda: dict(det, preface=lines, held_cost=h["cost"], held_gof=h["gof"], held_ndf=h["ndf"])  # noqa: E731
    try:
        if h["gof"] is None:
            c = Num(kv["Cost"])
            if not ctx.check("preface.cost", within_half(c.d, c.q, h["cost"]), d):
                return False
        else:
            c = Num(kv[gname])
            if not ctx.check("preface.cost", within_half(c.d, c.q, h["gof"]), d):
                return False
            r = Num(kv[gname + "/ndf"])
            if not ctx.check("preface.cost-per-ndf", within_half(r.d, r.q, float(h["gof"]) / h["ndf"]), d):
                return False
        if h["ndf"] is not None:
            if not ctx.check("preface.ndf", int(kv["ndf"]) == h["ndf"], d):
                return False
    except Exception as e:
        ctx.check("preface.parsed", False, lambda: dict(d(), exception=e))
        return False
    p = parse_compact("\n".join(lines))
    if p is None and h["cor"] is None:
        ctx.note("preface.no-table-while-no-correlation-matrix-held")  # nothing displayed, nothing to compare
        return True
    if not ctx.check("preface.parsed", p is not None, lambda: dict(det, preface=lines)):
        return False
    return check_compact_rows(ctx, "preface", p[0], p[1], h["names"], h["values"], h["errors"], h["cor"], h["asym_if_calculated"], dict(det, preface=lines))


def _exact(ctx, what, got, exp, det):
    if exp is None or got is None:
        ok = got is None and exp is None
    elif isinstance(exp, np.ndarray) or isinstance(got, np.ndarray):
        ok = np.shape(got) == np.shape(exp) and bool(np.array_equal(np.asarray(got, dtype=float), np.asarray(exp, dtype=float), equal_nan=True))
    else:
        ok = bool(got == exp) or (isinstance(got, float) and isinstance(exp, float) and np.isnan(got) and np.isnan(exp))
    return ctx.check("result-dict.exact", ok, lambda: dict(det, entry=what, got=got, held=exp, tolerance="EXACT"))


def check_result_dict(ctx, rd, h, det):
    names = h["names"]
    ok = _exact(ctx, "did_fit", rd.get("did_fit"), h["did_fit"], det)
    ok = ok and _exact(ctx, "cost", rd.get("cost"), float(h["cost"]), det)
    ok = ok and _exact(ctx, "ndf", rd.get("ndf"), h["ndf"], det)
    ok = ok and _exact(ctx, "goodness_of_fit", rd.get("goodness_of_fit"), h["gof"], det)
    ok = ok and _exact(ctx, "gof/ndf", rd.get("gof/ndf"), None if (h["gof"] is None or h["ndf"] == 0) else h["gof"] / h["ndf"], det)
    ok = ok and _exact(ctx, "chi2_probability", rd.get("chi2_probability"), h["p"], det)
    pv = rd.get("parameter_values")
    ok = ok and _exact(ctx, "parameter_values.names", list(pv.keys()) if pv is not None else None, names, det)
    ok = ok and _exact(ctx, "parameter_values", np.array(list(pv.values()), dtype=float), h["values"], det)
    if not ok:
        return False
    if h["did_fit"]:
        pe = rd.get("parameter_errors")
        ok = _exact(ctx, "parameter_errors.names", list(pe.keys()) if pe is not None else None, names, det)
        ok = ok and _exact(ctx, "parameter_errors", np.array(list(pe.values()), dtype=float), h["errors"], det)
        ok = ok and _exact(ctx, "parameter_cov_mat", rd.get("parameter_cov_mat"), h["cov"], det)
        ok = ok and _exact(ctx, "parameter_cor_mat", rd.get("parameter_cor_mat"), h["cor"], det)
    else:
        for k in ("parameter_errors", "parameter_cov_mat", "parameter_cor_mat"):
            ok = ok and _exact(ctx, k, rd.get(k), None, det)
    if not ok:
        return False
    ae = rd.get("asymmetric_parameter_errors")
    ha = h["asym_if_calculated"]
    if ha is None:
        return _exact(ctx, "asymmetric_parameter_errors", ae, None, det)
    ok = _exact(ctx, "asymmetric_parameter_errors.names", list(ae.keys()) if ae is not None else None, names, det)
    return ok and _exact(ctx, "asymmetric_parameter_errors", np.array([ae[n] for n in names], dtype=float), np.asarray(ha, dtype=float), det)


def check_model_string(ctx, fit, h, det):
    """ModelFunctionFormatter.get_formatted(with_par_values=True): 'f(x; a=1.3, b=0.2)' (used in plot legends)."""
    try:
        s = fit._model_function.formatter.get_formatted(with_par_values=True, n_significant_digits=3, format_as_latex=False)
    except Exception as e:
        ctx.check("model-string.no-exception", False, lambda: dict(det, exception=e, traceback=fmt_exc()))
        return False
    m = re.match(r"^[^(]*\((?:[^;]*; ?)?(.*)\)$", s)
    if not ctx.check("model-string.parsed", m is not None, lambda: dict(det, string=s)):
        return False
    items = [t for t in m.group(1).split(", ") if t]
    if not ctx.check("model-string.names", [t.split("=")[0] for t in items] == h["names"], lambda: dict(det, string=s, held=h["names"])):
        return False
    for i, t in enumerate(items):
        body = t.split("=", 1)[1]
        parsed = parse_pm(body, False)
        if not ctx.check("model-string.parsed", parsed is not None and parsed[0] in ("plain", "fixed"), lambda: dict(det, string=s, item=t)):
            return False
        V = parsed[1][0]
        if not ctx.check("model-string.fixed-marker", (parsed[0] == "fixed") == (h["names"][i] in h["fixed"]), lambda: dict(det, string=s, item=t, held_fixed=sorted(h["fixed"]))):
            return False
        if not ctx.check("model-string.value", within_half(V.d, V.q, h["values"][i]), lambda: dict(det, string=s, item=t, held=h["values"][i])):
            return False
    return True


def _asym_visible(h):
    """True if, for a free parameter, an asymmetric uncertainty rounded to the two digits of the report differs from the
    rounded symmetric one (only then can a report that shows the wrong kind of uncertainty be told apart)."""
    if h["asym"] is None or h["errors"] is None:
        return False
    for nm, e, a in zip(h["names"], h["errors"], h["asym"]):
        if nm in h["fixed"] or not (np.isfinite(e) and e > 0 and np.all(np.isfinite(a)) and np.all(a != 0)):
            continue
        r = round_sig_set(D(e), 2)[0]
        if any(not num_eq_any(x, r) for side in a for x in round_sig_set(abs(D(side)), 2)[0]):
            return True
    return False


def observe(ctx, fit, case, tmpdir, step, multi=False):
    """One observation point: report, preface of to_file, result dict, model string; all against the held state.
    multi: the fit is a MultiFit (no model function of its own and no file representation: report and dictionary only)."""
    ctx.op("observe")
    det = {"step": step}
    want_asym = bool(case["asym"]) and bool(fit.did_fit)
    # lazy: the asymmetric uncertainties are asked for only by the display call itself (nothing reads them before)
    lazy = want_asym and not case.get("asym_before_report", True)
    if want_asym:
        ctx.stratum("report", "asym-lazy" if lazy else "asym-settled")
        if multi:
            ctx.stratum("multi", "asym-lazy" if lazy else ("asym-at-fit" if case.get("asym_at_fit") else "asym-settled"))
    elif multi and fit.did_fit:
        ctx.stratum("multi", "sym")
    # settling read: the held state must not be a moving target while it is displayed (whether inspections move the fit
    # is property C08, not C17): read everything once, then snapshot before and after every display call
    if want_asym and not lazy:
        try:
            with time_limit(6 if ctx.tier == "quick" else 40):
                fit.asymmetric_parameter_errors
        except OpTimeout:
            raise _Abort("asymmetric errors too slow")
        except Exception:
            ctx.note("observe.asymmetric-errors-not-computable")  # not a display problem: observe without them
            want_asym = False
    pre_asym = want_asym and not lazy
    try:
        with time_limit(90):
            held_state(fit, pre_asym)
            hb = held_state(fit, pre_asym)
    except Exception as e:
        # the fit object cannot even be read (e.g. scipy minimizer after fix/release): nothing to compare a display with
        raise _Abort("held state not readable (%s)" % type(e).__name__)
    if hb["did_fit"] and not _finite_state(hb):
        raise _Abort("non-finite fit state")
    # ---- report
    buf = io.StringIO()
    ctx.op("report")
    try:
        with time_limit((6 if ctx.tier == "quick" else 40) if lazy else 60):
            fit.report(buf, show_data=bool(step % 2), show_model=bool(step % 3 == 0), asymmetric_parameter_errors=want_asym)
    except OpTimeout:
        if lazy:
            raise _Abort("asymmetric errors too slow")
        raise
    except Exception as e:
        tb = fmt_exc()
        if lazy:
            try:  # the calculation the report triggered fails on its own: not a display problem
                with time_limit(6 if ctx.tier == "quick" else 40):
                    fit.asymmetric_parameter_errors
            except OpTimeout:
                raise _Abort("asymmetric errors too slow")
            except Exception:
                ctx.note("observe.asymmetric-errors-not-computable")
                raise _Abort("asymmetric errors not computable (asked for by the report)")
        ctx.check("report.no-exception", False, lambda: dict(det, exception=e, traceback=tb))
        return False
    ctx.check("report.no-exception", True)
    try:
        with time_limit(6 if ctx.tier == "quick" else 40):
            h = held_state(fit, want_asym)
    except OpTimeout:
        raise _Abort("asymmetric errors too slow")
    if want_asym and _asym_visible(h):
        ctx.stratum("report", "asym-visible")
        if multi:
            ctx.stratum("multi", "asym-visible", "lazy" if lazy else "not-lazy")
    text = buf.getvalue()
    i0 = text.find("# Fit Results #")
    if not ctx.check("report.parsed", i0 >= 0, lambda: dict(det, text=text[-800:])):
        return False
    det_r = dict(det, report=text[i0:])
    if not same_state(hb, h):
        ctx.note("observe.held-state-moved-during-report")
        ctx.discard("held state moved during report() (C08 territory): report not compared")
    elif not check_report_text(ctx, text[i0:], dict(h, names=[(case.get("rename") or {}).get(n, n) for n in h["names"]], fixed={(case.get("rename") or {}).get(n, n) for n in h["fixed"]}) if (multi and case.get("rename")) else h, want_asym, det_r):
        return False
    # ---- result dictionary
    ctx.op("get_result_dict")
    h["asym_if_calculated"] = fit._fitter.asymmetric_fit_parameter_errors_if_calculated
    try:
        rd = fit.get_result_dict(asymmetric_parameter_errors=want_asym)
    except Exception as e:
        ctx.check("result-dict.no-exception", False, lambda: dict(det, exception=e, traceback=fmt_exc()))
        return False
    h2 = held_state(fit, want_asym)
    h2["asym_if_calculated"] = fit._fitter.asymmetric_fit_parameter_errors_if_calculated
    if not same_state(h, h2):
        ctx.note("observe.held-state-moved-during-get_result_dict")
        ctx.discard("held state moved during get_result_dict() (C08 territory): dictionary not compared")
    elif not check_result_dict(ctx, rd, h2, det):
        return False
    if multi:
        return True
    # ---- model string
    if not check_model_string(ctx, fit, h2, det):
        return False
    # ---- preface comment of the saved file
    ctx.op("to_file")
    path = os.path.join(tmpdir, "fit_%d.yml" % step)
    calc = bool(want_asym and step % 2 == 0)
    try:
        with time_limit(60):
            fit.to_file(path, calculate_asymmetric_errors=calc)
    except Exception as e:
        h3 = held_state(fit, False)
        a3 = fit._fitter.asymmetric_fit_parameter_errors_if_calculated

        def key():
            if "get_compact_representation" in fmt_exc_str and h3["did_fit"]:
                return compact_exception_key(e, h3["values"], h3["errors"], a3, h3["cor"])
            return None

        fmt_exc_str = fmt_exc()
        ctx.check("preface.no-exception", False, lambda: dict(det, exception=e, traceback=fmt_exc_str, held_values=h3["values"], held_errors=h3["errors"], held_asym=a3), key=key)
        return False
    ctx.check("preface.no-exception", True)
    h3 = held_state(fit, False)
    h3["asym_if_calculated"] = fit._fitter.asymmetric_fit_parameter_errors_if_calculated
    with open(path) as f:
        pre = "".join(ln for ln in f if ln.startswith("#"))
    os.remove(path)
    if not same_state(h2, h3):
        ctx.note("observe.held-state-moved-during-to_file")
        ctx.discard("held state moved during to_file() (C08 territory): preface not compared")
    elif not check_preface(ctx, pre, h3, det):
        return False
    return True


def _mutate(ctx, fit, case, op, start):
    """History operations between observations (none of them displays anything)."""
    ftype, _spec, pnames, _true, _kind = MODELS[case["model"]]
    ctx.op(op)
    if op == "set_values":
        p = pnames[0]
        fit.set_parameter_values(**{p: float(fit.parameter_values[0]) * 1.2345 + 0.01 * abs(start[p])})
    elif op == "fix":
        if len(pnames) > 1:
            p = case["fix"] or pnames[-1]
            fit.fix_parameter(p, float(fit.parameter_name_value_dict[p]) * 1.01)
    elif op == "release":
        if len(pnames) > 1:
            fit.release_parameter(case["fix"] or pnames[-1])
    elif op == "new_data":
        d = _make_data(case, 1)
        if ftype == "xy":
            fit.data = [d["x"], d["y"]]
            fit.add_error("y", d["yerr"])
        elif ftype == "indexed":
            fit.data = d["y"]
            fit.add_error(d["yerr"])
        else:
            from kafe2 import HistContainer

            fit.data = HistContainer(d["bins"], d["range"], fill_data=d["raw"])
    else:
        raise ValueError("unknown history op %r" % op)


def run_report(ctx, case):
    ftype, spec, pnames, true, kind = MODELS[case["model"]]
    ctx.op("report-case")
    ctx.stratum("fit", ftype)
    ctx.stratum("model", kind)
    ctx.stratum("report", "asym" if case["asym"] else "sym")
    ctx.stratum("report", case["minimizer"])
    for k in ("fix", "constraint", "limit"):
        if case[k]:
            ctx.stratum("report", "fixed" if k == "fix" else k)
    if case["history"] == "fix-later":
        ctx.stratum("report", "fixed")
    ctx.add_to_set("report-combos", "%s|%s|%s|%s|%s|%s|%s" % (case["model"], case["history"], case["asym"], bool(case["fix"]), bool(case["constraint"]), bool(case["limit"]), case["minimizer"]))
    ctx.reseed_legacy()
    np.random.seed(case["data_seed"] % (2**31 - 1))
    tmpdir = tempfile.mkdtemp(prefix="verif-c17-")
    complete = False
    try:
        fit, start = build_fit(case)
        fitted_obs = 0
        step = 0
        for op in HISTORIES[case["history"]]:
            step += 1
            if op == "do_fit":
                ctx.op("do_fit")
                try:
                    with time_limit(90):
                        fit.do_fit()
                except Exception as e:  # a failing minimisation is not a display problem
                    raise _Abort("do_fit raised %s" % type(e).__name__)
            elif op == "observe":
                if not fit.did_fit:
                    ctx.stratum("report", "unfitted")
                if not observe(ctx, fit, case, tmpdir, step):
                    return False
                fitted_obs += bool(fit.did_fit)
            else:
                try:
                    _mutate(ctx, fit, case, op, start)
                except Exception as e:  # a failing set-up operation is not a display problem
                    raise _Abort("%s raised %s" % (op, type(e).__name__))
        complete = fitted_obs > 0
    except OpTimeout:
        ctx.discard("report-case-timeout")
        return False
    except _Abort as e:
        ctx.discard("report case: %s" % e)
        return False
    finally:
        shutil.rmtree(tmpdir, ignore_errors=True)
    return complete


# ------------------------------------------------------------------ Part B2: MultiFit reports
def mm_dec1(x, A=1.0, tau=2.0):
    return A * np.exp(-x / tau)


def mm_dec2(x, B=1.0, tau=2.0):
    return B * np.exp(-x / tau)


def mm_sat1(x, A=1.0, k=1.0):
    return A * (1.0 - np.exp(-k * x))


def mm_sat2(x, B=1.0, k=1.0):
    return B * (1.0 - np.exp(-k * x))


def mm_line1(x, a=1.0, b=0.0):
    return a * x + b


def mm_line2(x, c=1.0, b=0.0):
    return c * x + b


def mi_tau(tau=2.0):
    return tau + np.zeros(2)


def mh_norm1(x, mu=0.1, sigma=1.0):
    return np.exp(-0.5 * ((x - mu) / sigma) ** 2) / np.sqrt(2.0 * np.pi * sigma**2)


def mh_norm2(x, nu=0.5, sigma=1.0):
    return np.exp(-0.5 * ((x - nu) / sigma) ** 2) / np.sqrt(2.0 * np.pi * sigma**2)


# name -> (members [(fit type, model function, its parameter names)], true values (unit scale), parameters that carry the y scale, linear?)
MULTI = {
    "dec2": ([("xy", mm_dec1, ["A", "tau"]), ("xy", mm_dec2, ["B", "tau"])], {"A": 2.2, "tau": 2.9, "B": 1.3}, {"A", "B"}, False),
    "sat2": ([("xy", mm_sat1, ["A", "k"]), ("xy", mm_sat2, ["B", "k"])], {"A": 2.0, "k": 0.6, "B": 1.2}, {"A", "B"}, False),
    "dec_aux": ([("xy", mm_dec1, ["A", "tau"]), ("indexed", mi_tau, ["tau"])], {"A": 2.2, "tau": 2.9}, {"A"}, False),
    "hnorm2": ([("hist", mh_norm1, ["mu", "sigma"]), ("hist", mh_norm2, ["nu", "sigma"])], {"mu": 0.2, "sigma": 1.1, "nu": 0.6}, {"mu", "sigma", "nu"}, False),
    "line2": ([("xy", mm_line1, ["a", "b"]), ("xy", mm_line2, ["c", "b"])], {"a": 1.3, "b": -0.4, "c": 0.7}, {"a", "b", "c"}, True),
}
MULTI_HISTORIES = {
    "fit": ["do_fit", "observe"],
    "unfitted-first": ["observe", "do_fit", "observe"],
    "refit": ["do_fit", "observe", "set_values", "do_fit", "observe"],
    "fix-later": ["do_fit", "observe", "fix", "do_fit", "observe"],
}
MULTI_ASYM = ["lazy", "settled", "at-fit", "none"]
# stratified: (model, history, asymmetric mode, fix, minimizer)
MULTI_COMBOS = [
    ("dec2", "fit", "lazy", False, "iminuit"),
    ("sat2", "fit", "lazy", False, "iminuit"),
    ("dec_aux", "refit", "lazy", False, "iminuit"),
    ("dec2", "fit", "at-fit", False, "iminuit"),
    ("hnorm2", "fit", "lazy", False, "iminuit"),
    ("dec2", "fix-later", "settled", False, "iminuit"),
    ("line2", "unfitted-first", "none", False, "scipy"),
    ("sat2", "fit", "lazy", True, "scipy"),
    ("dec2", "refit", "lazy", False, "iminuit"),
    ("sat2", "unfitted-first", "lazy", False, "iminuit"),
    ("dec_aux", "fit", "settled", False, "scipy"),
    ("line2", "fit", "lazy", False, "iminuit"),
    ("hnorm2", "refit", "none", False, "scipy"),
    ("dec_aux", "fix-later", "lazy", False, "iminuit"),
    ("dec2", "fit", "none", True, "scipy"),
    ("sat2", "refit", "at-fit", False, "iminuit"),
]
MULTI_PER_SHARD = {"quick": 2, "thorough": 60}


def gen_multi_case(rng, idx, slot):
    if slot < len(MULTI_COMBOS):
        model, hist, amode, fix, mini = MULTI_COMBOS[slot]
    else:
        model = str(rng.choice(list(MULTI)))
        hist = str(rng.choice(list(MULTI_HISTORIES)))
        amode = MULTI_ASYM[int(rng.choice(4, p=[0.45, 0.15, 0.15, 0.25]))]
        fix = bool(rng.random() < 0.25)
        mini = str(rng.choice(["iminuit", "scipy"]))
    members, true, scaled, _lin = MULTI[model]
    pnames = list(true)
    if amode != "none" and mini == "scipy" and len(pnames) - bool(fix) > 2:
        mini = "iminuit"  # scipy profile scans of three free parameters take ~15 s
    case = {
        "kind": "multi",
        "model": model,
        "history": hist,
        "asym": amode != "none",
        "asym_before_report": amode != "lazy",
        "asym_at_fit": amode == "at-fit",
        "minimizer": mini,
        "n": int(rng.integers(5, 10)),
        "data_seed": int(rng.integers(0, 2**31)),
        "yscale_exp": int(rng.integers(-6, 7)) if model != "hnorm2" else int(rng.integers(-3, 4)),
        "rel_err": float(rng.choice([0.1, 0.2, 0.3])),
        "fix": None,
    }
    if fix:
        case["fix"] = str(pnames[int(rng.integers(0, len(pnames)))])
    if rng.random() < 0.3 or slot % 4 == 1:
        # display names assigned through the MultiFit: the parameter shared by the members (it has one formatter per member)
        shared = [p for p in pnames if sum(p in m[2] for m in members) > 1]
        if shared:
            case["rename"] = {shared[0]: shared[0] + "_s", pnames[0]: pnames[0] + "_0"} if shared[0] != pnames[0] else {shared[0]: shared[0] + "_s"}
    return case


def _multi_member_data(case, i, seed_shift=0):
    members, true, scaled, _lin = MULTI[case["model"]]
    ftype, f, pn = members[i]
    rng = np.random.default_rng([case["data_seed"], i, seed_shift])
    s = 10.0 ** case["yscale_exp"]
    t = [true[p] for p in pn]
    if ftype == "xy":
        n = case["n"] - i
        x = np.sort(rng.uniform(0.2, 5.0, size=n)) + 0.1 * np.arange(n)
        y0 = f(x, *t)
        sig = case["rel_err"] * max(np.max(np.abs(y0)), 1e-3)
        return {"x": x, "y": (y0 + rng.normal(0, sig, size=n)) * s, "yerr": sig * s}
    if ftype == "indexed":  # an auxiliary measurement of an (unscaled) parameter
        y0 = f(*t)
        sig = 0.3 * np.max(np.abs(y0))
        return {"y": y0 + rng.normal(0, sig, size=len(y0)), "yerr": sig}
    nent = int(60 + 40 * case["n"])
    return {"raw": rng.normal(t[0] * s, t[1] * s, size=nent), "range": (-3.0 * s, 3.5 * s), "bins": int(5 + (case["n"] + i) % 5)}


def build_multi(case):
    from kafe2 import HistContainer, HistFit, IndexedFit, MultiFit, XYFit

    members, true, scaled, _lin = MULTI[case["model"]]
    s = 10.0 ** case["yscale_exp"]
    fits = []
    for i, (ftype, f, _pn) in enumerate(members):
        d = _multi_member_data(case, i)
        if ftype == "xy":
            m = XYFit([d["x"], d["y"]], f, minimizer=case["minimizer"])
            m.add_error("y", d["yerr"])
        elif ftype == "indexed":
            m = IndexedFit(d["y"], f, minimizer=case["minimizer"])
            m.add_error(d["yerr"])
        else:
            m = HistFit(HistContainer(d["bins"], d["range"], fill_data=d["raw"]), f, minimizer=case["minimizer"])
        fits.append(m)
    fit = MultiFit(fits, minimizer=case["minimizer"])
    if case.get("rename"):
        fit.assign_parameter_names(**case["rename"])
    start = {p: t * 1.1 * (s if p in scaled else 1.0) for p, t in true.items()}
    fit.set_parameter_values(**start)
    if case["fix"] and case["history"] != "fix-later":
        fit.fix_parameter(case["fix"], start[case["fix"]] / 1.1 * 1.02)
    return fit, start


def run_multi(ctx, case):
    members, true, scaled, linear = MULTI[case["model"]]
    pnames = list(true)
    ctx.op("multi-report-case")
    ctx.stratum("fit", "multi")
    if case.get("rename"):
        ctx.op("MultiFit.assign_parameter_names")
        ctx.stratum("multi", "shared-parameter-renamed")
    ctx.stratum("multi", "members", "+".join(m[0] for m in members))
    ctx.stratum("multi", "linear" if linear else "nonlinear")
    ctx.stratum("report", case["minimizer"])
    if case["fix"] or case["history"] == "fix-later":
        ctx.stratum("multi", "fixed")
    ctx.add_to_set("multi-report-combos", "%s|%s|%s|%s|%s|%s" % (case["model"], case["history"], case["asym"], case["asym_before_report"], bool(case["fix"]), case["minimizer"]))
    ctx.reseed_legacy()
    np.random.seed(case["data_seed"] % (2**31 - 1))
    try:
        fit, start = build_multi(case)
        fitted_obs = 0
        step = 0
        for op in MULTI_HISTORIES[case["history"]]:
            step += 1
            if op == "do_fit":
                ctx.op("do_fit")
                try:
                    with time_limit(20 if ctx.tier == "quick" else 90):
                        if case.get("asym_at_fit"):
                            fit.do_fit(asymmetric_parameter_errors=True)
                        else:
                            fit.do_fit()
                except Exception as e:  # a failing minimisation is not a display problem
                    raise _Abort("do_fit raised %s" % type(e).__name__)
            elif op == "observe":
                if not fit.did_fit:
                    ctx.stratum("multi", "unfitted")
                if not observe(ctx, fit, case, None, step, multi=True):
                    return False
                fitted_obs += bool(fit.did_fit)
            else:
                ctx.op(op)
                try:
                    if op == "set_values":
                        p = pnames[0]
                        fit.set_parameter_values(**{p: float(fit.parameter_values[0]) * 1.2345 + 0.01 * abs(start[p])})
                    elif op == "fix":
                        p = case["fix"] or pnames[-1]
                        fit.fix_parameter(p, float(fit.parameter_name_value_dict[p]) * 1.01)
                    else:
                        raise ValueError("unknown history op %r" % op)
                except ValueError:
                    raise
                except Exception as e:  # a failing set-up operation is not a display problem
                    raise _Abort("%s raised %s" % (op, type(e).__name__))
        return fitted_obs > 0
    except OpTimeout:
        ctx.discard("report-case-timeout")
        return False
    except _Abort as e:
        ctx.discard("multi report case: %s" % e)
        return False


# ------------------------------------------------------------------ driver
def run_case(ctx, case):
    decimal.setcontext(DC)
    k = case["kind"]
    if k == "fmt":
        return run_fmt(ctx, case)
    if k == "cost":
        return run_cost(ctx, case)
    if k == "compact":
        return run_compact(ctx, case)
    if k == "report":
        return run_report(ctx, case)
    if k == "multi":
        return run_multi(ctx, case)
    raise ValueError("unknown case kind %r" % k)


def _forced_strata():
    out = [(m, n, l) for m in MODES for n in (1, 2, 3) for l in (False, True)]
    out += [("sym" if (i + j) % 2 else "asym", 1 + (i + j) % 3, bool(j % 2), a, b) for i, a in enumerate(MANT + ["zero"]) for j, b in enumerate(MANT)]
    return out


def _one(ctx, case):
    ctx.begin_case(case)
    try:
        nontrivial = bool(run_case(ctx, case))
    except OpTimeout:
        ctx.discard("timeout")
        nontrivial = False
    except Exception:
        ctx.violation(None, "unexpected-exception", {"traceback": fmt_exc()})
        nontrivial = False
    ctx.end_case(nontrivial=nontrivial)


def run_shard(ctx):
    rng = ctx.rng
    idx = 0
    forced = _forced_strata()
    for f in forced:
        if not ctx.more():
            return
        _one(ctx, gen_fmt_case(rng, idx, f))
        idx += 1
    target = REPORTS_PER_SHARD[ctx.tier]
    mtarget = MULTI_PER_SHARD[ctx.tier]
    nrep = nmulti = 0
    t_rep = 0.0
    import time

    while ctx.more():
        # reports first (stratified over shards), interleaved with strings; at most ~45 % of the budget
        if nmulti < mtarget and (nmulti == 0 or t_rep < 0.45 * ctx.budget_s):
            t0 = time.monotonic()
            _one(ctx, gen_multi_case(rng, idx, ctx.shard + ctx.nshards * nmulti))
            idx += 1
            nmulti += 1
            t_rep += time.monotonic() - t0
        if nrep < target and t_rep < 0.45 * ctx.budget_s:
            t0 = time.monotonic()
            slot = ctx.shard + ctx.nshards * nrep
            _one(ctx, gen_report_case(rng, idx, slot))
            idx += 1
            nrep += 1
            t_rep += time.monotonic() - t0
        for _ in range(400):
            if not ctx.more():
                break
            r = rng.random()
            if r < 0.8:
                case = gen_fmt_case(rng, idx)
            elif r < 0.88:
                case = gen_cost_case(rng, idx)
            else:
                case = gen_compact_case(rng, idx)
            _one(ctx, case)
            idx += 1


def replay(ctx, case):
    ctx.begin_case(case)
    run_case(ctx, dict(case))
    ctx.end_case(nontrivial=True)
