"""C11 — a multi-fit is the sum of its parts, or the joint fit if errors are shared.

Shape: conservation monitor + joint reference.  1-4 member fits of mixed type (xy / indexed / histogram /
unbinned) with a random overlap pattern of parameter names are combined into a MultiFit; at random
parameter points and after every op of a history over {set on the multi-fit, set on a member, fix / release
on the multi-fit, constraint on the multi-fit or on a member, do_fit} the monitor checks
 (a) multi.cost == sum(member.cost) + cost of the constraints declared on the multi-fit (no shared source),
 (b) every parameter name holds one value in the multi-fit and in every member that has it,
 (c) MultiFit([f]) reproduces a twin of f fitted alone,
 (d) with shared sources: multi.cost == r^T V^-1 r + ln det V + all declared constraint costs + costs of the
     non-chi2 members, V = reference block matrix with the shared matrix in every block of the sharing members,
 (e) after multi.do_fit() every member reports the sub-blocks of the multi-fit result BY PARAMETER NAME (members whose own signature
     order is not a subsequence of the combined order are a stratum of their own); linear members: joint GLS,
 (f) what was declared on the multi-fit before its first shared source (fix / release / limit / unlimit / set) is still in force after
     it (the fitter is rebuilt there): fixed and limited parameters as declared, fitted values inside the limits, GLS with the fixed ones,
 (g) a minimisation that fails half way (cost function raises at its k-th evaluation, injected) surfaces as that failure and leaves a state
     in which (a), (b), (d) hold; the history goes on.
"""
import json

import numpy as np

from vlib import gen
from vlib.fitcase import Member
from vlib.models import DENSITIES, FAMILIES, Model
from vlib.monitor import FaultyHandle, InjectedFault, OpTimeout, Tol, allclose, fmt_exc, numerical_failure, time_limit
from vlib.ref import constraint_cost, constraint_cov, pd_info, source_cov

PROPERTY = "C11"
TIERS = {"quick": {"shards": 8, "budget_s": 40}, "thorough": {"shards": 16, "budget_s": 500}}
RULE = (
    "1-4 members (xy / indexed / histogram / unbinned; families poly1, poly2, trig, expbasis, exponential, gausspeak, normal, expdens with "
    "random signature order => overlap patterns none / nested / identical / partial), unequal sizes, own data-referenced sources and own constraints; "
    "0-2 shared sources added through MultiFit.add_error / add_matrix_error (simple / matrix, absolute / data-relative, x / y, all / adjacent / "
    "non-adjacent subset of the chi2 members, refusals for unequal sizes and conflicting references); history (3-8 ops quick, 5-20 thorough) over "
    "set on multi / set on member / fix / release / limit / unlimit / constraint on multi / constraint on member / do_fit / do_fit failing at its k-th cost evaluation "
    "(+ disable_error on the multi-fit as last op); 0-6 ops (fix / limit / set / release / unlimit) issued on the multi-fit BEFORE its first shared source; "
    "'interleaved' cases force a later member whose parameter order is not a subsequence of the combined order (f(x,a,b) next to g(x,c,a)); "
    "all oracles after every op; non-trivial = >= 2 members, or the single-member twin comparison; distinct by case hash"
)
ASSUMPTIONS = [
    "Gaussian members of shared cases use the covariance chi2 cost ('chi2' / 'chi2_fast'); members with x sources use polynomial models of degree <= 2 "
    "(central differences exact, so the global step of the joint slope is immaterial)",
    "sources are data-referenced; configurations with a non positive definite or ill-conditioned covariance (cond > 1e8 per member, > 1e6 joint: "
    "solving with the joint matrix loses cond*eps relative accuracy) are discarded and counted",
    "OPTIM tolerances: |p - p_ref| <= 1e-2 sigma (iminuit) / 5e-2 sigma (scipy), cost 1e-3 / 5e-3, covariance 2e-3 (scipy) / max(5e-3, 5e-8 cond) (iminuit HESSE); "
    "twin comparison (two minimisations of the same problem, same backend): parameter shifts in units of the twin's sigma, errors / covariance within 5e-2 (HESSE re-run at the identical minimum scatters by 2 %)",
    "bookkeeping (value identity, sub-blocks of the result, mirrored fixed flags) is compared EXACTLY",
    "MultiFit accepts the axis of a shared source only as 'x' / 'y' / None; other spellings are not generated (C14 covers equivalent spellings)",
    "limits are generated around the value last declared and the model default, half-width |default| * 10^U(-2.5, 0.5) (from active to inactive), one-sided with p = 0.4; "
    "values set afterwards lie inside them (not next to them: C06's open finding); a limit that excludes the live value (after a fit) is skipped and counted; "
    "the closed-form GLS reference is used only where every limit is inactive (unlimited optimum >= 2 sigma inside, fit not resting on a limit); limits hold within 1e-12 relative (as C06)",
    "a point where the reference cost itself overflows the double range (run-away minimisation) has no reference: discarded and counted",
]
ANCHORS = [
    ("kafe2.fit.multi.fit", "MultiFit._init_nexus"),
    ("kafe2.fit.multi.fit", "MultiFit._init_shared_error_nodes"),
    ("kafe2.fit.multi.fit", "MultiFit._add_error_object"),
    ("kafe2.fit.multi.fit", "MultiFit._on_error_change"),
    ("kafe2.fit.multi.fit", "MultiFit._update_singular_fits"),
    ("kafe2.fit.multi.fit", "MultiFit._get_parameter_indices"),
    ("kafe2.fit.multi.fit", "MultiFit.fix_parameter"),
    ("kafe2.fit.multi.fit", "MultiFit.release_parameter"),
    ("kafe2.fit.multi.fit", "MultiFit.do_fit"),
    ("kafe2.fit.multi.fit", "MultiFit.add_error"),
    ("kafe2.fit.multi.fit", "MultiFit.add_matrix_error"),
    ("kafe2.fit.multi.fit", "MultiFit.total_cov_mat"),
    ("kafe2.fit.multi.fit", "MultiFit.asymmetric_parameter_errors"),
    ("kafe2.fit.multi.cost", "MultiCostFunction.cost_sum"),
    ("kafe2.fit.multi.cost", "SharedCostFunction.__init__"),
    ("kafe2.fit._base.fit", "FitBase.set_parameter_values"),
    ("kafe2.fit._base.fit", "FitBase.add_parameter_constraint"),
    ("kafe2.core.fitters.nexus", "Nexus.add"),
    ("kafe2.core.fitters.nexus", "NodeBase.replace"),
]

XYF = ["poly1", "poly2", "trig", "expbasis", "exponential", "gausspeak"]
POLY = ["poly1", "poly2"]
LINEARF = ["poly1", "poly2", "trig", "expbasis"]
DENS = ["normal", "expdens"]
OPS = [
    "set_parameter_values",
    "member.set_parameter_values",
    "fix_parameter",
    "release_parameter",
    "limit_parameter",
    "unlimit_parameter",
    "add_parameter_constraint",
    "member.add_parameter_constraint",
    "do_fit",
    "do_fit.failing(injected)",
    "add_error.shared",
    "add_matrix_error.shared",
]


def floors(tier):
    k = 1 if tier == "quick" else 10
    return {
        "comparisons": {
            "multi.cost==sum(members)": 120 * k,
            "multi.cost==joint": 50 * k,
            "values.multi": 250 * k,
            "values.member": 500 * k,
            "member.cost_function_value": 400 * k,
            "multi.total_cov_mat": 100 * k,
            "multi.total_cov_mat==V_joint": 30 * k,
            "member.parameter_values": 60 * k,
            "member.parameter_errors": 60 * k,
            "member.parameter_cov_mat": 60 * k,
            "member.parameter_cor_mat": 60 * k,
            "member.asymmetric_parameter_errors": 8 * k,
            "member.fixed_parameters": 150 * k,
            "multi.fixed_parameters": 250 * k,
            "multi.limited_parameters": 250 * k,
            "values.within-limits-after-do_fit": 10 * k,
            "member.result-by-name(order-not-subsequence)": 6 * k,
            "single.parameter_values": 3 * k,
            "single.parameter_cov_mat": 3 * k,
            "gls.parameter_values": 5 * k,
            "refusal": 2 * k,
            "multi-fits": 40 * k,
        },
        "ops": OPS,
        "reach": ["%s:%s" % a for a in ANCHORS],
        "strata": [
            "members:1", "members:2", "members:3", "members:4",
            "mix:xy", "mix:indexed", "mix:hist", "mix:unbinned", "mix:3-types",
            "overlap:none", "overlap:nested", "overlap:identical", "overlap:partial", "permuted-order",
            "shared:simple", "shared:matrix", "shared:x", "shared:y", "shared:relative", "shared:absolute",
            "shared:all", "shared:subset", "shared:nonadjacent", "shared:two-sources", "shared:with-nonchi2-member",
            "refuse:size", "refuse:reference", "order:not-subsequence", "order:not-subsequence+shared", "pre-shared:fix", "pre-shared:limit", "pre-shared:release", "pre-shared:unlimit",
            "limited", "failed-do_fit:iminuit", "failed-do_fit:scipy", "failed-do_fit:shared", "twin:iminuit", "twin:scipy", "iminuit", "scipy", "gls:shared", "gls:unshared",
        ],
        "distinct_nontrivial": 40 * k,
    }


# ------------------------------------------------------------------ generation
# stratified recipes (first cases of a run; global index = idx * nshards + shard)
def _sh(kind="simple", axis="y", relative=False, subset="all", two=False):
    return {"kind": kind, "axis": axis, "relative": relative, "subset": subset, "two": two}


RECIPES = [
    {"nm": 2, "pattern": "nested", "types": ["xy", "xy"]},
    {"nm": 3, "shared": _sh("simple", "y", False, "nonadjacent")},
    {"nm": 1, "twin": True, "minimizer": "iminuit", "types": ["xy"]},
    {"nm": 2, "shared": _sh("matrix", "x", False, "all"), "linear": False},
    {"nm": 4, "pattern": "partial"},
    {"nm": 3, "shared": _sh("matrix", "y", True, "adjacent"), "linear": True, "minimizer": "iminuit"},
    {"nm": 1, "twin": True, "minimizer": "scipy", "types": ["indexed"]},
    {"nm": 2, "refuse": "size"},
    {"nm": 3, "pattern": "identical", "types": ["xy", "indexed", "hist"]},
    {"nm": 4, "shared": _sh("simple", "x", True, "nonadjacent", True)},
    {"nm": 2, "refuse": "reference"},
    {"nm": 2, "pattern": "none", "types": ["xy", "unbinned"]},
    {"nm": 2, "shared": _sh("simple", "y", True, "all"), "linear": True, "minimizer": "scipy"},
    {"nm": 3, "linear": True, "minimizer": "iminuit", "types": ["xy", "indexed", "xy"]},
    {"nm": 3, "shared": _sh("matrix", "y", False, "adjacent"), "nonchi2": True},
    {"nm": 1, "twin": True, "minimizer": "iminuit", "types": ["hist"]},
    {"nm": 4, "shared": _sh("matrix", "y", False, "nonadjacent", True), "linear": True},
    {"nm": 3, "pattern": "partial", "types": ["xy", "hist", "unbinned"]},
    {"nm": 1, "twin": True, "minimizer": "scipy", "types": ["unbinned"]},
    {"nm": 3, "shared": _sh("simple", "x", False, "nonadjacent")},
    {"nm": 2, "linear": True, "minimizer": "scipy", "types": ["indexed", "indexed"]},
    {"nm": 4, "shared": _sh("simple", "y", False, "adjacent"), "nonchi2": True},
    {"nm": 2, "shared": _sh("matrix", "x", True, "all")},
    {"nm": 3, "shared": _sh("simple", "y", False, "all"), "linear": True, "minimizer": "iminuit"},
    # fix / limit / release / unlimit issued on the multi-fit BEFORE its first shared source (the fitter is rebuilt there)
    {"nm": 2, "shared": _sh("simple", "y", False, "all"), "linear": True, "minimizer": "iminuit", "pre": ["fix", "limit"]},
    {"nm": 2, "interleaved": True, "types": ["xy", "xy"], "minimizer": "iminuit"},
    {"nm": 3, "shared": _sh("matrix", "y", False, "nonadjacent"), "linear": True, "minimizer": "iminuit", "pre": ["limit", "fix", "set"]},
    {"nm": 3, "interleaved": True, "linear": True, "minimizer": "iminuit"},
    {"nm": 2, "shared": _sh("simple", "x", False, "all"), "pre": ["fix", "fix", "release", "limit", "limit", "unlimit"]},
    {"nm": 2, "interleaved": True, "shared": _sh("simple", "y", False, "all"), "minimizer": "iminuit"},
    {"nm": 3, "shared": _sh("simple", "y", True, "adjacent"), "linear": True, "minimizer": "scipy", "pre": ["limit", "limit", "fix"]},
    {"nm": 4, "interleaved": True, "pattern": "partial"},
    # members whose own parameter order is not a subsequence of the combined order (f(x, a, b) next to g(x, c, a))
    {"nm": 2, "interleaved": True, "shared": _sh("matrix", "y", False, "all"), "linear": True, "minimizer": "scipy"},
    {"nm": 3, "interleaved": True, "pattern": "identical", "types": ["xy", "indexed", "xy"], "minimizer": "iminuit"},
    {"nm": 3, "shared": _sh("matrix", "y", True, "all"), "pre": ["fix", "limit", "release", "unlimit", "fix"], "minimizer": "iminuit"},
    {"nm": 2, "interleaved": True, "linear": True, "minimizer": "iminuit", "pre": ["limit"]},
    # a minimisation that fails half way (the cost function raises at its k-th evaluation), then the history goes on
    {"nm": 2, "fail": True, "minimizer": "iminuit", "types": ["xy", "indexed"]},
    {"nm": 3, "fail": True, "minimizer": "scipy", "shared": _sh("simple", "y", False, "all")},
    {"nm": 2, "fail": True, "minimizer": "iminuit", "shared": _sh("matrix", "y", False, "all"), "pre": ["fix"]},
    {"nm": 3, "fail": True, "minimizer": "scipy", "pattern": "partial"},
]
PRE_KINDS = ["fix", "limit", "set", "release", "unlimit"]


def random_recipe(rng, tier):
    r = rng.random()
    if r < 0.1:
        return {"nm": 1, "twin": True}
    nm = int(rng.choice([2, 3, 4], p=[0.4, 0.35, 0.25]))
    rc = {"nm": nm}
    if r < 0.16:
        rc["refuse"] = str(rng.choice(["size", "reference"]))
    elif r < 0.62:
        subs = ["all", "adjacent"] + (["nonadjacent", "nonadjacent"] if nm >= 3 else [])
        rc["shared"] = _sh(str(rng.choice(["simple", "matrix"])), str(rng.choice(["x", "y", "y"])), bool(rng.random() < 0.4), str(rng.choice(subs)), bool(rng.random() < 0.3))
        rc["nonchi2"] = bool(rng.random() < 0.3)
    if rng.random() < 0.3:
        rc["linear"] = True
    if rng.random() < 0.5:
        rc["pattern"] = str(rng.choice(["none", "nested", "identical", "partial"]))
    if rng.random() < 0.2 and rc.get("pattern") != "none":
        rc["interleaved"] = True
    if rng.random() < 0.12:
        rc["fail"] = True
    if rng.random() < (0.35 if rc.get("shared") else 0.1):
        rc["pre"] = [str(v) for v in rng.choice(PRE_KINDS, size=int(rng.integers(1, 5)), p=[0.35, 0.3, 0.15, 0.1, 0.1])]
    return rc


def is_subsequence(sub, full):
    it = iter(full)
    return all(v in it for v in sub)


def combined_names(name_lists):
    out = []
    for nl in name_lists:
        for n in nl:
            if n not in out:
                out.append(n)
    return out


def not_subsequence_members(name_lists):
    """members whose own parameter order is not a subsequence of the combined order (union by first occurrence)"""
    full = combined_names(name_lists)
    return [i for i, nl in enumerate(name_lists) if not is_subsequence(nl, full)]


def overlap_pattern(name_sets):
    if len(name_sets) < 2:
        return "single"
    rel = set()
    for i in range(len(name_sets)):
        for j in range(i + 1, len(name_sets)):
            a, b = set(name_sets[i]), set(name_sets[j])
            if a == b:
                rel.add("identical")
            elif a < b or b < a:
                rel.add("nested")
            elif a & b:
                rel.add("partial")
    for k in ("identical", "nested", "partial"):
        if k in rel:
            return k
    return "none"


def _pnames(fam, dens):
    return list((DENSITIES if dens else FAMILIES)[fam][0])


# building a Model derives its reference functions with SymPy (~30 ms); the same few (family, order) combinations recur in every
# case, and Model instances are never mutated, so they are memoised for this shard process
_MODEL_CACHE = {}
_model_from_spec = Model.from_spec


def _cached_from_spec(s):
    key = json.dumps(s, sort_keys=True)
    if key not in _MODEL_CACHE:
        _MODEL_CACHE[key] = _model_from_spec(s)
    return _MODEL_CACHE[key]


Model.from_spec = staticmethod(_cached_from_spec)


def get_model(fam, order=None, density=False):
    k = len(_pnames(fam, density))
    order = list(range(k)) if order is None else [int(i) for i in order]
    table = DENSITIES if density else FAMILIES
    spec = {"family": fam, "order": order, "name": "%s_model" % fam, "defaults": [float(table[fam][3][i]) for i in order], "density": density}
    return Model.from_spec(spec)


def make_spec(rng, ftype, fam, n, cost, order, x=None, ydata=None):
    counts = cost in ("nll_poisson", "nllr_poisson")
    if ftype in ("xy", "indexed"):
        m = get_model(fam, order)
        if x is None:
            x = gen.gen_x(rng, n)
        if ydata is None:
            pt = gen.perturbed_params(rng, m, 0.1)
            y = m.f(np.array(x), pt)
            if counts:
                y = rng.poisson(np.clip(np.abs(y) * 4.0 + 1.0, 0.5, 200.0)).astype(float)
            else:
                y = y + rng.normal(size=len(x)) * 0.1 * (np.abs(y).mean() + 0.1)
            ydata = [float(np.round(v, 5)) for v in y]
        spec = {"type": ftype, "model": m.spec(), "cost": cost, "x": [float(v) for v in x], "minimizer": None, "dea": "nonlinear"}
        spec["y" if ftype == "xy" else "data"] = list(ydata)
        return spec
    p = DENSITIES[fam][3]
    mspec = get_model(fam, order, density=True).spec()
    if ftype == "hist":
        n_entries = int(rng.integers(30, 200))
        if fam == "expdens":
            entries, lo, hi = rng.exponential(p[0], size=n_entries), 0.0, 5.0
        else:
            entries, lo, hi = rng.normal(p[0], p[1], size=n_entries), -3.5, 4.0
        entries = entries[(entries >= lo) & (entries < hi)]
        if rng.random() < 0.5:
            edges = np.linspace(lo, hi, n + 1)
        else:
            edges = np.concatenate([[lo], np.sort(rng.uniform(lo + 0.3, hi - 0.3, size=n - 1)), [hi]]) + np.arange(n + 1) * 1e-3
        return {"type": "hist", "model": mspec, "cost": cost, "edges": [float(np.round(e, 5)) for e in edges], "entries": [float(np.round(e, 6)) for e in entries], "density": True, "bin_evaluation": "cdf", "minimizer": None, "dea": "nonlinear"}
    data = rng.exponential(p[0], size=n) + 1e-3 if fam == "expdens" else rng.normal(p[0], p[1], size=n)
    return {"type": "unbinned", "model": mspec, "cost": "nll", "data": [float(np.round(v, 6)) for v in data], "minimizer": None}


def spec_n(spec):
    if spec["type"] == "xy":
        return len(spec["y"])
    if spec["type"] == "hist":
        return len(spec["edges"]) - 1
    return len(spec["data"])


def spec_ydata(spec):
    if spec["type"] == "xy":
        return np.array(spec["y"], dtype=float)
    if spec["type"] == "hist":
        from vlib.ref import hist_counts

        return hist_counts(spec["edges"], spec["entries"])
    return np.array(spec["data"], dtype=float)


def own_sources(rng, spec, prefix, allow_x, nsrc):
    ftype = spec["type"]
    n = spec_n(spec)
    yscale = float(np.mean(np.abs(spec_ydata(spec))) + 0.5)
    ops = []
    for k in range(nsrc):
        force = {"reference": "data"}
        if k == 0:
            # the first source makes the member's covariance positive definite on its own
            force.update(axis="y", kind="simple", shape=str(rng.choice(["scalar", "vec", "constvec"])), corr=float(rng.choice([0.0, 0.0, np.round(rng.uniform(0.05, 0.9), 3)])))
        if ftype == "hist":
            force["relative"] = False
            force["axis"] = None
        ops.append(gen.gen_source(rng, n, ftype, "%se%d" % (prefix, k), yscale=yscale, force=force, allow_model=False, allow_x=allow_x))
    return ops


def build_case(rng, tier, rc):
    nm = rc["nm"]
    sh = rc.get("shared")
    refuse = rc.get("refuse")
    # scipy: numdifftools Hessian with ~700 cost evaluations per fit (~1 s); sampled at 25 % in the quick tier
    minimizer = rc.get("minimizer") or str(rng.choice(["iminuit", "scipy"], p=[0.75, 0.25] if tier == "quick" else [0.5, 0.5]))
    linear = bool(rc.get("linear"))
    # ---- which members share / are involved in the refused request
    S = []
    if sh:
        if sh["subset"] == "all":
            S = list(range(nm))
        elif sh["subset"] == "adjacent" or nm < 3:
            k = int(rng.integers(0, nm - 1))
            S = [k, k + 1]
        else:
            S = [[0, 2], [0, nm - 1], [1, nm - 1], [0, 2, nm - 1]][int(rng.integers(0, 4))]
            S = sorted(set(S))
            if S in ([0, 1], [1, 2]) or len(S) < 2 or all(S[i + 1] - S[i] == 1 for i in range(len(S) - 1)):
                S = [0, 2]
    elif refuse:
        S = sorted(int(i) for i in rng.choice(nm, size=2, replace=False)) if nm > 2 else [0, 1]
    # ---- types and families (rejection sampling on the requested overlap pattern)
    want = rc.get("pattern")
    interleaved = bool(rc.get("interleaved"))
    types = fams = orders = None
    for _ in range(300):
        types = list(rc["types"]) if rc.get("types") else [str(rng.choice(["xy", "indexed", "hist", "unbinned"], p=[0.45, 0.25, 0.15, 0.15])) for _ in range(nm)]
        for i in S:
            if types[i] not in ("xy", "indexed"):
                types[i] = str(rng.choice(["xy", "indexed"], p=[0.65, 0.35]))
            if sh and sh["axis"] == "x":
                types[i] = "xy"
        if linear:
            types = [t if t in ("xy", "indexed") else "xy" for t in types]
        fams = []
        for i, t in enumerate(types):
            if t in ("xy", "indexed"):
                pool = LINEARF if linear else XYF
                if sh and sh["axis"] == "x" and i in S:
                    pool = POLY
                fams.append(str(rng.choice(pool)))
            else:
                fams.append(str(rng.choice(DENS)))
        # signature order of every member; "interleaved": some member's order is not a subsequence of the combined order
        orders, name_lists = [], []
        for i, t in enumerate(types):
            base = _pnames(fams[i], t in ("hist", "unbinned"))
            permute = rng.random() < (0.9 if (interleaved and i > 0) else 0.4)
            orders.append([int(v) for v in rng.permutation(len(base))] if permute else list(range(len(base))))
            name_lists.append([base[j] for j in orders[-1]])
        if interleaved and nm >= 2 and not not_subsequence_members(name_lists):
            continue
        if want is None or nm < 2 or overlap_pattern(name_lists) == want:
            break
    # ---- costs
    any_shared_mode = bool(sh)
    costs = []
    for i, t in enumerate(types):
        if t == "unbinned":
            costs.append("nll")
        elif t == "hist":
            if any_shared_mode:
                costs.append(str(rng.choice(["nll_poisson", "nllr_poisson", "chi2"], p=[0.55, 0.3, 0.15])))
            else:
                costs.append(str(rng.choice(["nll_poisson", "nllr_poisson", "chi2"], p=[0.5, 0.2, 0.3])))
        elif i in S or linear:
            costs.append("chi2_fast" if rng.random() < 0.15 else "chi2")
        elif any_shared_mode:
            if rc.get("nonchi2") and rng.random() < 0.7:
                costs.append(str(rng.choice(["nll_gaussian", "nll_poisson"])))
            else:
                costs.append("chi2")
        else:
            costs.append(str(rng.choice(["chi2", "chi2", "chi2", "chi2_pointwise", "nll_gaussian", "chi2_fast", "nll_poisson"])))
    if rc.get("nonchi2") and any_shared_mode and all(c in ("chi2", "chi2_fast") for c in costs) and len(S) < nm:
        j = [i for i in range(nm) if i not in S][0]
        if types[j] in ("xy", "indexed"):
            costs[j] = "nll_gaussian"
        elif types[j] == "hist":
            costs[j] = "nll_poisson"
    # ---- sizes: sharing members equal, the others different where possible
    def minn(i):
        return len(_pnames(fams[i], types[i] in ("hist", "unbinned"))) + 2

    n_s = int(rng.integers(max([minn(i) for i in S] + [5]), 12)) if S else None
    sizes = []
    for i, t in enumerate(types):
        if i in S:
            sizes.append(n_s)
        elif t == "unbinned":
            sizes.append(int(rng.integers(10, 50)))
        elif t == "hist":
            sizes.append(int(rng.integers(5, 10)))
        else:
            n = int(rng.integers(max(minn(i), 4), 13))
            if n_s is not None and n == n_s:
                n += 1
            sizes.append(n)
    if refuse == "size":
        sizes[S[1]] = n_s + int(rng.integers(1, 4))
    # ---- specs
    relative = bool(sh and sh["relative"]) or refuse == "reference"
    rel_axis = sh["axis"] if sh else "y"
    members = []
    ref_x = ref_y = None
    for i, t in enumerate(types):
        dens = t in ("hist", "unbinned")
        order = orders[i]
        x = y = None
        if sh and relative and i in S:
            if rel_axis == "x" and ref_x is not None:
                x = ref_x
            if (rel_axis == "y" or sh.get("two")) and ref_y is not None:
                y = ref_y
        spec = make_spec(rng, t, fams[i], sizes[i], costs[i], order, x=x, ydata=y)
        if i in S and ref_x is None:
            ref_x = spec["x"]
            ref_y = spec.get("y") or spec.get("data")
        has_x_ok = t == "xy" and fams[i] in POLY
        if t == "unbinned" or costs[i] in ("nll_poisson", "nllr_poisson"):
            nsrc = 0
        elif costs[i] == "chi2" and i in S and sh and rng.random() < 0.12:
            nsrc = 0  # a member that receives its first uncertainty through the shared source
        else:
            nsrc = int(rng.integers(1, 3))
        setup = own_sources(rng, spec, "m%d" % i, has_x_ok, nsrc)
        members.append({"spec": spec, "setup": setup})
    # ---- own constraints
    chi2_member_constraints = (not sh) or rng.random() < 0.3
    for i, mb in enumerate(members):
        m = Model.from_spec(mb["spec"]["model"])
        is_chi2 = costs[i] in ("chi2", "chi2_fast", "chi2_pointwise")
        if rng.random() < 0.35 and (chi2_member_constraints or not is_chi2):
            mb["setup"].append(gen.gen_constraint(rng, m.pnames, m.defaults))
    # ---- shared sources
    shared = []
    if sh or refuse:
        specs = [members[i]["spec"] for i in S]
        yscale = float(np.mean([np.mean(np.abs(spec_ydata(s))) for s in specs]) + 0.5)
        nsh = 2 if (sh and sh.get("two")) else 1
        for k in range(nsh):
            if sh:
                kind, axis, rel = sh["kind"], sh["axis"], sh["relative"]
                if k == 1:  # the second source varies kind and axis
                    kind = "matrix" if kind == "simple" else "simple"
                    axis = "y"
            else:
                kind, axis, rel = str(rng.choice(["simple", "matrix"])), "y", refuse == "reference"
            subset = list(S)
            if k == 1 and len(S) > 2 and rng.random() < 0.5:
                subset = [S[0], S[-1]]
            if axis == "x":
                subset = [i for i in subset if types[i] == "xy"]
            force = {"axis": axis, "kind": kind, "relative": bool(rel), "reference": "data"}
            if kind == "simple" and rng.random() < 0.5:
                force["corr"] = float(np.round(rng.uniform(0.1, 0.9), 3))
            n_first = spec_n(members[subset[0]]["spec"])
            op = gen.gen_source(rng, n_first, "xy", "sh%d" % k, yscale=yscale, force=force, allow_model=False)
            a = dict(op[1])
            has_xy = any(types[i] == "xy" for i in subset)
            a["axis"] = axis if (has_xy or rng.random() < 0.5) else None
            fits = list(subset)
            if len(fits) == nm and rng.random() < 0.3:
                fits = "all"
            elif rng.random() < 0.2:
                fits = fits[::-1]
            a["fits"] = fits
            shared.append({"op": [op[0], a], "expect": ("refuse-" + refuse) if refuse else "ok"})
    # ---- global names / history
    names, vals, info = [], {}, []
    for i, mb in enumerate(members):
        m = Model.from_spec(mb["spec"]["model"])
        info.append((i, list(m.pnames), costs[i] in ("chi2", "chi2_fast", "chi2_pointwise")))
        for nme, v in zip(m.pnames, m.defaults):
            if nme not in names:
                names.append(nme)
            vals[nme] = float(v)  # the last member wins (any common value is admissible as a starting point)
    start = {nme: float(np.round(vals[nme] * rng.uniform(0.9, 1.1) + rng.uniform(-0.02, 0.02), 5)) for nme in names}
    pre, history = gen_history(
        rng, tier, names, vals, info, bool(sh), chi2_member_constraints, minimizer if (len(names) <= 5 or tier != "quick") else "iminuit-no-minos", pre_kinds=() if rc.get("twin") else rc.get("pre", ()), fail=bool(rc.get("fail")) and not rc.get("twin")
    )
    src_names = [o[1]["name"] for mb in members for o in mb["setup"] if o[0] in ("add_error", "add_matrix_error")] + [s["op"][1]["name"] for s in shared if s["expect"] == "ok"]
    if src_names and nm >= 2 and rng.random() < 0.12:
        pick = [s["op"][1]["name"] for s in shared if s["expect"] == "ok"]
        pool = pick if (pick and rng.random() < 0.7) else src_names
        history.append(["disable_error", str(rng.choice(pool))])
    return {"property": "C11", "minimizer": minimizer, "twin": bool(rc.get("twin")), "members": members, "shared": shared, "start": start, "pre": pre, "history": history, "recipe": {k: v for k, v in rc.items()}}


def into_limits(v, lim, v0):
    """a value strictly inside the declared limits (not next to them: a start next to a limit is C06's open finding)"""
    if not lim:
        return v
    lo, hi = lim
    if lo is not None and hi is not None:
        m = 0.1 * (hi - lo)
        v = min(max(v, lo + m), hi - m)
    elif lo is not None:
        v = max(v, lo + 0.05 * abs(v0) + 1e-3)
    elif hi is not None:
        v = min(v, hi - 0.05 * abs(v0) - 1e-3)
    return float(np.round(v, 6))


def gen_history(rng, tier, names, vals, info, shared_mode, chi2_member_constraints, minimizer, pre_kinds=(), fail=False):
    """(ops issued on the multi-fit before its first shared source, ops issued after it)"""
    length = int(rng.integers(3, 9)) if tier == "quick" else int(rng.integers(5, 21))
    maxfit = (1 if minimizer == "scipy" else 2) if tier == "quick" else 4
    ops, fixed, nfit = [], set(), 0
    limits, cur = {}, dict(vals)  # cur: the value last declared (unknown after a fit: the executor skips a limit that excludes the live value)

    def near(nme):
        return into_limits(float(np.round(vals[nme] * rng.uniform(0.85, 1.15) + rng.uniform(-0.02, 0.02), 5)), limits.get(nme), vals[nme])

    def op_set(out):
        free = [n for n in names if n not in fixed]
        k = len(free) if rng.random() < 0.4 else int(rng.integers(1, len(free) + 1))
        pick = [free[int(i)] for i in rng.choice(len(free), size=k, replace=False)]
        d = {n: near(n) for n in pick}
        cur.update(d)
        out.append(["set_parameter_values", d])

    def op_fix(out):
        free = [n for n in names if n not in fixed]
        if len(free) <= 1:
            return
        n = free[int(rng.integers(0, len(free)))]
        v = None if rng.random() < 0.5 else near(n)
        if v is not None:
            cur[n] = v
        out.append(["fix_parameter", n, v])
        fixed.add(n)

    def op_release(out):
        if not fixed:
            return
        n = sorted(fixed)[int(rng.integers(0, len(fixed)))]
        out.append(["release_parameter", n])
        fixed.discard(n)

    def op_limit(out):
        cand = [n for n in names if n not in limits] or list(names)
        n = cand[int(rng.integers(0, len(cand)))]
        v0, c = vals[n], cur.get(n, vals[n])

        def w():
            # from far narrower than the distance of the optimum (active limit) to far wider (inactive)
            return abs(v0) * 10.0 ** rng.uniform(-2.5, 0.5) + 1e-3

        r = rng.random()
        lo = None if r < 0.2 else float(np.round(min(c, v0) - w(), 5))
        hi = None if 0.2 <= r < 0.4 else float(np.round(max(c, v0) + w(), 5))
        out.append(["limit_parameter", n, lo, hi])
        limits[n] = [lo, hi]

    def op_unlimit(out):
        if not limits:
            return
        n = sorted(limits)[int(rng.integers(0, len(limits)))]
        out.append(["unlimit_parameter", n])
        del limits[n]

    pre = []
    for kind in pre_kinds:
        {"fix": op_fix, "limit": op_limit, "set": op_set, "release": op_release, "unlimit": op_unlimit}[kind](pre)

    con_members = [t for t in info if chi2_member_constraints or not t[2]] if shared_mode else list(info)
    for _ in range(length):
        r = rng.random()
        if r < 0.22:
            op_set(ops)
        elif r < 0.42:
            mi, mp, _c = info[int(rng.integers(0, len(info)))]
            cand = [n for n in mp if n not in fixed]
            if not cand:
                continue
            k = int(rng.integers(1, len(cand) + 1))
            pick = [cand[int(i)] for i in rng.choice(len(cand), size=k, replace=False)]
            d = {n: near(n) for n in pick}
            cur.update(d)
            ops.append(["member.set_parameter_values", mi, d])
        elif r < 0.51:
            op_fix(ops)
        elif r < 0.58:
            op_release(ops)
        elif r < 0.64:
            op_limit(ops)
        elif r < 0.67:
            op_unlimit(ops)
        elif r < 0.75:
            ops.append(gen.gen_constraint(rng, names, [vals[n] for n in names]))
        elif r < 0.83 and con_members:
            mi, mp, _c = con_members[int(rng.integers(0, len(con_members)))]
            ops.append(["member", mi, gen.gen_constraint(rng, mp, [vals[n] for n in mp])])
        elif nfit < maxfit:
            asym = bool(minimizer == "iminuit" and rng.random() < 0.4) or bool(tier != "quick" and rng.random() < 0.05)
            ops.append(["do_fit", {"asym": asym, "via": str(rng.choice(["do_fit", "property"]))}])
            nfit += 1
    if nfit == 0:
        ops.append(["do_fit", {"asym": bool(minimizer == "iminuit" and rng.random() < 0.4), "via": "do_fit"}])
    if fail:
        # a do_fit whose cost function raises at its k-th evaluation (no fit needs fewer than 7), somewhere before the last fit
        last = max(i for i, o in enumerate(ops) if o[0] == "do_fit")
        ops.insert(int(rng.integers(0, last + 1)), ["do_fit", {"asym": False, "via": "do_fit", "fail_at": int(rng.integers(2, 7))}])
    return pre, ops


def gen_case(rng, tier, idx, shard, nshards):
    gi = idx * nshards + shard
    rc = dict(RECIPES[gi]) if gi < len(RECIPES) else random_recipe(rng, tier)
    return build_case(rng, tier, rc)


# ------------------------------------------------------------------ execution
K_DROP = "C11/shared-source-drops-constraint-cost-of-chi2-members"
K_HIST = "C11/shared-source-setup-crashes-with-chi2-histogram-member"
K_DIS_RAISE = "C11/multi-disable-error-raises-unless-every-member-has-the-source"
K_DIS_OFF = "C11/disabled-shared-source-stays-in-off-diagonal-blocks"
K_RELMAT = "C11/shared-relative-matrix-source-always-raises"
K_RELNONE = "C11/shared-relative-source-with-axis-None-raises-AssertionError"
K_MSET = "C11/value-set-on-member-unknown-to-minimizer-of-multi-fit"
K_CLEANUP = "C11/failed-multifit-do_fit-cleanup-raises-AttributeError-and-leaves-member-nodes-frozen"


def classify_do_fit_exception(e):
    """MultiFit.do_fit: the handler that unfreezes the uncertainty nodes after a failed minimisation (FitBase.do_fit) asks the multi-fit's
    non-existent parametric model for its relative sources: the original exception is replaced by an AttributeError and the members' nodes
    stay frozen.  Decided by the exception itself: an AttributeError about 'get_matching_errors' raised while another exception was handled."""
    if isinstance(e, AttributeError) and "get_matching_errors" in str(e) and e.__context__ is not None:
        return K_CLEANUP
    return None


def _arr(v):
    return np.array(v, dtype=float) if isinstance(v, (list, tuple)) else v


def apply_shared_live(multi, op):
    k, a = op
    if k == "add_error":
        return multi.add_error(err_val=_arr(a["err"]), fits=a["fits"], axis=a["axis"], name=a["name"], correlation=a.get("corr", 0.0), relative=a.get("relative", False), reference="data")
    return multi.add_matrix_error(
        err_matrix=np.array(a["matrix"], dtype=float), matrix_type=a["matrix_type"], fits=a["fits"], axis=a["axis"], name=a["name"], err_val=_arr(a.get("err_val")), relative=a.get("relative", False), reference="data"
    )


def ref_source(op):
    k, a = op
    axis = a["axis"] or "y"
    if k == "add_error":
        return {"kind": "simple", "axis": axis, "err": a["err"], "corr": a.get("corr", 0.0), "relative": a.get("relative", False), "reference": "data", "enabled": True, "name": a["name"]}
    return {"kind": "matrix", "axis": axis, "matrix": a["matrix"], "matrix_type": a["matrix_type"], "err_val": a.get("err_val"), "relative": a.get("relative", False), "reference": "data", "enabled": True, "name": a["name"]}


def global_constraint(names, op):
    a = op[1]
    if op[0] == "add_parameter_constraint":
        return {"kind": "simple", "index": names.index(a["name"]), "value": a["value"], "uncertainty": a["uncertainty"], "relative": a.get("relative", False)}
    return {"kind": "matrix", "indices": [names.index(n) for n in a["names"]], "values": a["values"], "matrix": a["matrix"], "matrix_type": a["matrix_type"], "uncertainties": a.get("uncertainties"), "relative": a.get("relative", False)}


def lift_constraint(names, pnames, c):
    """member constraint (indices into the member's parameters) -> indices into the global parameter list"""
    d = dict(c)
    if c["kind"] == "simple":
        d["index"] = names.index(pnames[c["index"]])
    else:
        d["indices"] = [names.index(pnames[i]) for i in c["indices"]]
    return d


class World:
    def __init__(self, ctx, case, members, multi):
        self.ctx, self.case, self.members, self.multi = ctx, case, members, multi
        self.names = list(multi.parameter_names)
        self.values = {n: float(v) for n, v in zip(self.names, multi.parameter_values)}
        self.minview = dict(self.values)  # value of every parameter as last communicated through the multi-fit itself
        self.fixed = set()
        self.limits = {}  # name -> [lower, upper] as declared through MultiFit.limit_parameter
        self.multi_constraints = []
        self.shared = []  # dicts: src (reference source), fits, axis, enabled
        self.shared_mode = False
        self.last_op = "initial"
        self.disabled_by_multi = None

    # -- reference state
    def push(self):
        for mb in self.members:
            mb.ref.p = np.array([self.values[n] for n in mb.ref.model.pnames], dtype=float)

    def pvec(self):
        return np.array([self.values[n] for n in self.names], dtype=float)

    def is_gauss(self, mb):
        return mb.fid == "chi2_cov"

    def joint(self, offdiag_ignores_enabled=False):
        """(V_joint, residuals, member indices) over the Gaussian (chi2) members in list order"""
        chi = [i for i, mb in enumerate(self.members) if self.is_gauss(mb)]
        off, o = {}, 0
        for i in chi:
            off[i] = o
            o += self.members[i].ref.n
        V = np.zeros((o, o))
        r = np.zeros(o)
        for i in chi:
            ref = self.members[i].ref
            sl = slice(off[i], off[i] + ref.n)
            V[sl, sl] = ref.total_cov()
            r[sl] = ref.d - ref.model_values()
        for s in self.shared:
            if not s["src"]["enabled"] and not offdiag_ignores_enabled:
                continue
            for a in s["fits"]:
                for b in s["fits"]:
                    if a == b:
                        continue
                    ra, rb = self.members[a].ref, self.members[b].ref
                    S = source_cov(s["src"], ra.ref_values(s["src"], ra.p))
                    if s["axis"] == "x":
                        S = S * np.outer(ra.slope(), rb.slope())
                    V[off[a] : off[a] + ra.n, off[b] : off[b] + rb.n] += S
        return V, r, chi

    def member_constraint_cost(self, gauss_only):
        return float(sum(mb.ref.constraint_cost() for mb in self.members if (self.is_gauss(mb) or not gauss_only)))

    def all_constraints_global(self):
        out = []
        for mb in self.members:
            for c in mb.ref.constraints:
                out.append(lift_constraint(self.names, mb.ref.model.pnames, c))
        return out + list(self.multi_constraints)


def nwit(ctx):
    return sum(ctx._wit_per_key.values())


def check_values(W, where):
    """(b) one common value per parameter name, in the multi-fit and in all members; fixed flags mirrored"""
    ctx, multi = W.ctx, W.multi
    pv = np.array(multi.parameter_values, dtype=float)
    ok = ctx.eq("values.multi", pv, W.pvec(), detail={"where": where, "names": W.names})
    for j, mb in enumerate(W.members):
        idx = [W.names.index(n) for n in mb.ref.model.pnames]
        ok &= ctx.eq("values.member", np.array(mb.fit.parameter_values, dtype=float), pv[idx], detail={"where": where, "member": j, "names": mb.ref.model.pnames})
        got = {n: float(v) for n, v in mb.fit._fitter.fixed_parameters.items()}
        exp = {n: W.values[n] for n in mb.ref.model.pnames if n in W.fixed}
        ok &= ctx.eq("member.fixed_parameters", got, exp, detail={"where": where, "member": j, "fixed_on_multi": sorted(W.fixed)})
    got = {n: float(v) for n, v in multi._fitter.fixed_parameters.items()}
    ok &= ctx.eq("multi.fixed_parameters", got, {n: W.values[n] for n in W.names if n in W.fixed}, detail={"where": where, "last_op": W.last_op})
    got = {n: [None if v is None else float(v) for v in lim] for n, lim in multi._fitter.limited_parameters.items()}
    ok &= ctx.eq("multi.limited_parameters", got, {n: list(W.limits[n]) for n in W.limits}, detail={"where": where, "last_op": W.last_op})
    return ok


def check_all(W, where):
    """all oracles at the current point; returns False after the first divergence"""
    ctx, multi, members = W.ctx, W.multi, W.members
    n0 = nwit(ctx)
    if not check_values(W, where):
        return False
    W.push()
    if not all(mb.admissible() for mb in members):
        ctx.discard("configuration-not-admissible")
        return True
    # members against the documented cost at their parameter subset
    mc = []
    for j, mb in enumerate(members):
        got = float(mb.fit.cost_function_value)
        exp = mb.cost()
        if not np.isfinite(exp):
            # the minimiser ran off to a point where the reference itself overflows the double range (squared residuals ~ 1e308): no reference there
            ctx.discard("reference-cost-not-finite-at-this-point")
            return True
        con = mb.ref.constraint_cost()
        nodet = mb.cost(with_logdet=False)
        scale = abs(nodet - con) + abs(exp - nodet) + abs(con) + 1.0
        ctx.close("member.cost_function_value", got, exp, tol=Tol.LINALG, scale=scale, detail={"where": where, "member": j, "type": mb.spec["type"], "cost": mb.spec.get("cost")})
        mc.append(got)
    if nwit(ctx) != n0:
        return False
    pvec = W.pvec()
    mcc = float(sum(constraint_cost(c, pvec) for c in W.multi_constraints))
    no_unbinned = all(mb.spec["type"] != "unbinned" for mb in members)
    if not W.shared_mode:
        if no_unbinned:
            blocks = [mb.ref.total_cov() for mb in members]
            nt = sum(b.shape[0] for b in blocks)
            V = np.zeros((nt, nt))
            o = 0
            for b in blocks:
                V[o : o + b.shape[0], o : o + b.shape[0]] = b
                o += b.shape[0]
            try:
                got_V = multi.total_cov_mat
            except Exception:
                ctx.violation(None, "multi.total_cov_mat.no-exception", {"where": where, "traceback": fmt_exc()})
                return False
            ctx.close("multi.total_cov_mat", np.array(got_V, dtype=float), V, tol=Tol.LINALG, scale=float(np.abs(V).max()) + 1e-300, detail={"where": where})
        got = float(multi.cost_function_value)
        exp = float(sum(mc)) + mcc
        ctx.close("multi.cost==sum(members)", got, exp, tol=Tol.LINALG, scale=sum(abs(c) for c in mc) + abs(mcc) + 1.0, detail={"where": where, "member_costs": mc, "multi_constraint_cost": mcc, "last_op": W.last_op})
        return nwit(ctx) == n0
    # ---- shared sources: joint reference
    V, r, chi = W.joint()
    okV, cond = pd_info(V)
    if not okV or cond > 1e6:
        ctx.discard("joint-covariance-not-pd-or-ill-conditioned")
        return True
    if len(chi) == len(members):
        try:
            got_V = np.array(multi.total_cov_mat, dtype=float)
        except Exception:
            ctx.violation(None, "multi.total_cov_mat.no-exception", {"where": where, "traceback": fmt_exc()})
            return False
        ctx.close("multi.total_cov_mat==V_joint", got_V, V, tol=Tol.LINALG, scale=float(np.abs(V).max()), detail={"where": where, "shared": [s["src"]["name"] for s in W.shared]}, key=lambda: classify_shared(W, "cov", None, None))
        if nwit(ctx) != n0:
            return False
    chi2 = float(r @ np.linalg.solve(V, r))
    logdet = float(np.linalg.slogdet(V)[1])
    con_gauss = W.member_constraint_cost(gauss_only=True)
    others = [members[i].cost() for i in range(len(members)) if i not in chi]
    exp = chi2 + logdet + con_gauss + float(sum(others)) + mcc
    scale = abs(chi2) + abs(logdet) + abs(con_gauss) + sum(abs(c) for c in others) + abs(mcc) + 1.0
    got = float(multi.cost_function_value)
    ctx.close(
        "multi.cost==joint",
        got,
        exp,
        tol=Tol.LINALG,
        scale=scale,
        detail={"where": where, "chi2": chi2, "logdet": logdet, "constraint_cost_of_chi2_members": con_gauss, "cost_of_other_members": others, "multi_constraint_cost": mcc, "cond": cond, "last_op": W.last_op},
        key=lambda: classify_shared(W, "cost", got, {"exp": exp, "scale": scale, "con_gauss": con_gauss, "others": others, "mcc": mcc}),
    )
    return nwit(ctx) == n0


def classify_shared(W, what, got, parts):
    """mechanism keys by explain-check: the observed value must equal the reference evaluated under the finding's semantics"""
    try:
        if what == "cost":
            # (1) the constraints declared on the chi2 members are not part of the cost
            if parts["con_gauss"] != 0.0 and allclose(got, parts["exp"] - parts["con_gauss"], 1e-9, 1e-12, scale=parts["scale"]):
                return K_DROP
        if W.disabled_by_multi is not None:
            # (2) a disabled shared source is still added to the off-diagonal blocks
            Valt, r, chi = W.joint(offdiag_ignores_enabled=True)
            if what == "cov":
                if allclose(np.array(W.multi.total_cov_mat, dtype=float), Valt, 1e-9, 1e-12, scale=float(np.abs(Valt).max())):
                    return K_DIS_OFF
            else:
                got_V = np.array(W.multi.total_cov_mat, dtype=float)
                if got_V.shape == Valt.shape and allclose(got_V, Valt, 1e-9, 1e-12, scale=float(np.abs(Valt).max())):
                    return K_DIS_OFF
    except Exception:
        return None
    return None


def check_after_fit(W, where, asym):
    """(e) members report the sub-blocks of the multi-fit result"""
    ctx, multi = W.ctx, W.multi
    n0 = nwit(ctx)
    pv = np.array(multi.parameter_values, dtype=float)
    pe = np.array(multi.parameter_errors, dtype=float)
    cov = multi.parameter_cov_mat
    cor = multi.parameter_cor_mat
    ae = None
    if asym:
        ae = multi._fitter.asymmetric_fit_parameter_errors_if_calculated
        ae = None if ae is None else np.array(ae, dtype=float)
    for j, mb in enumerate(W.members):
        idx = [W.names.index(n) for n in mb.ref.model.pnames]
        d = {"where": where, "member": j, "member_names": mb.ref.model.pnames, "multi_names": W.names}
        ctx.eq("member.parameter_values", np.array(mb.fit.parameter_values, dtype=float), pv[idx], detail=d)
        ctx.eq("member.parameter_errors", np.array(mb.fit.parameter_errors, dtype=float), pe[idx], detail=d)
        for obs, full, got in (("member.parameter_cov_mat", cov, mb.fit.parameter_cov_mat), ("member.parameter_cor_mat", cor, mb.fit.parameter_cor_mat)):
            if full is None:
                ctx.check(obs, got is None, dict(d, got=got, expected=None))
            else:
                ctx.eq(obs, None if got is None else np.array(got, dtype=float), np.array(full, dtype=float)[np.ix_(idx, idx)], detail=d)
        if ae is not None:
            ctx.eq("member.asymmetric_parameter_errors", np.array(mb.fit.asymmetric_parameter_errors, dtype=float), ae[idx], detail=d)
        ctx.check("member.did_fit", bool(mb.fit.did_fit) == bool(multi.did_fit), dict(d, got=mb.fit.did_fit, expected=multi.did_fit))
    return nwit(ctx) == n0


def optim_tols(minimizer, cond):
    ptol, ctol_cost = (1e-2, 1e-3) if minimizer == "iminuit" else (5e-2, 5e-3)
    ctol = 2e-3 if minimizer == "scipy" else max(5e-3, 5e-8 * cond)
    return ptol, ctol_cost, ctol


def gls_applicable(W):
    for mb in W.members:
        if mb.spec["type"] not in ("xy", "indexed") or not mb.ref.model.linear or mb.fid != "chi2_cov" or mb.ref.has_x_source():
            return False
    return not any(s["axis"] == "x" for s in W.shared)


def check_gls(W, where):
    """linear Gaussian members: the multi-fit result is the joint GLS solution (idea of checks/c05.py gls())"""
    ctx, multi = W.ctx, W.multi
    names = W.names
    V, _r, chi = W.joint()
    okV, condV = pd_info(V)
    if not okV or condV > 1e6:
        ctx.discard("gls-joint-covariance-ill-conditioned")
        return True
    rows_A, rows_y = [], []
    for mb in W.members:
        r, m = mb.ref, mb.ref.model
        zero = np.zeros(len(m.pnames))
        Wd = m.dfdp(r.x, zero).T
        A = np.zeros((r.n, len(names)))
        for j, pn in enumerate(m.pnames):
            A[:, names.index(pn)] += Wd[:, j]
        rows_A.append(A)
        rows_y.append(r.d - m.f(r.x, zero))
    blocks = [V]
    for c in W.all_constraints_global():
        if c["kind"] == "simple":
            A = np.zeros((1, len(names)))
            A[0, c["index"]] = 1.0
            unc = c["uncertainty"] * c["value"] if c.get("relative") else c["uncertainty"]
            rows_A.append(A)
            rows_y.append(np.array([c["value"]], dtype=float))
            blocks.append(np.array([[unc**2]]))
        else:
            A = np.zeros((len(c["indices"]), len(names)))
            for i, j in enumerate(c["indices"]):
                A[i, j] = 1.0
            rows_A.append(A)
            rows_y.append(np.array(c["values"], dtype=float))
            blocks.append(constraint_cov(c))
    A = np.vstack(rows_A)
    y = np.concatenate(rows_y)
    S = np.zeros((len(y), len(y)))
    o = 0
    for B in blocks:
        S[o : o + B.shape[0], o : o + B.shape[0]] = B
        o += B.shape[0]
    free = [i for i, n in enumerate(names) if n not in W.fixed]
    fix = [i for i, n in enumerate(names) if n in W.fixed]
    pfix = np.array([W.values[names[i]] for i in fix], dtype=float)
    y2 = y - (A[:, fix] @ pfix if fix else 0.0)
    Af = A[:, free]
    Si = np.linalg.inv(S)
    H = Af.T @ Si @ Af
    okH, condH = pd_info(H)
    if not okH or condH > 1e8:
        ctx.discard("gls-normal-matrix-ill-conditioned")
        return True
    C = np.linalg.inv(H)
    pf = C @ Af.T @ Si @ y2
    res = y2 - Af @ pf
    chi2 = float(res @ Si @ res)
    p = np.zeros(len(names))
    p[free] = pf
    p[fix] = pfix
    # the closed form knows no limits: it is the reference only where every declared limit is inactive, i.e. the unlimited optimum lies
    # well inside (2 sigma) and the fit does not rest on a limit (a fit that stays on a limit it was started next to: open finding of C06)
    sig_gls = np.sqrt(np.diag(C))
    pv_now = np.array(multi.parameter_values, dtype=float)
    for n, (lo, hi) in W.limits.items():
        i = names.index(n)
        if i not in free:
            continue
        s_i = float(sig_gls[free.index(i)])
        span = (hi - lo) if (lo is not None and hi is not None) else max(abs(p[i]), 1.0)
        near_lo = lo is not None and (p[i] - lo < 2.0 * s_i or abs(pv_now[i] - lo) <= 1e-3 * span)
        near_hi = hi is not None and (hi - p[i] < 2.0 * s_i or abs(pv_now[i] - hi) <= 1e-3 * span)
        if near_lo or near_hi:
            ctx.stratum("limit:active")
            ctx.discard("gls-skipped-limit-active-or-near")
            return True
    if W.limits:
        ctx.stratum("limit:inactive+gls")
    Cfull = np.zeros((len(names), len(names)))
    Cfull[np.ix_(free, free)] = C
    ptol, costtol, ctol = optim_tols(W.case["minimizer"], condH)
    n0 = nwit(ctx)
    sig = np.sqrt(np.diag(Cfull))
    sig_safe = np.where(sig > 0, sig, 1.0)
    pv = np.array(multi.parameter_values, dtype=float)
    dev = np.abs(pv - p) / sig_safe
    ctx.stratum("gls:shared" if W.shared_mode else "gls:unshared")
    # open finding shared with C05/C06: the scipy adapter hands out results scipy flags as failed, or that L-BFGS-B (used with limits) stopped
    # on its relative-reduction criterion; signature: backend scipy AND (success False OR limits declared) AND the reported cost exceeds the
    # closed-form optimum by more than the tolerance
    skey = None
    if W.case["minimizer"] == "scipy":
        try:
            res = multi._fitter.minimizer._opt_result
            worse = float(multi.cost_function_value) > chi2 + float(np.linalg.slogdet(V)[1]) + costtol
            if res is not None and worse and (not bool(res.success) or bool(W.limits)):
                skey = "C06/scipy-backend-accepts-unconverged-result"
        except Exception:
            skey = None
    ctx.check("gls.parameter_values", bool(np.all(dev[free] <= ptol)), lambda: {"where": where, "got": pv, "expected": p, "sigma": sig, "deviation_in_sigma": dev, "names": names}, key=skey)
    k = "gls_worst_param_dev_sigma_%s" % W.case["minimizer"]
    ctx.worst[k] = max(ctx.worst.get(k, 0.0), float(np.max(dev[free])) if free else 0.0)
    cm = multi.parameter_cov_mat
    if cm is not None:
        cdev = np.abs(np.array(cm, dtype=float) - Cfull) / np.outer(sig_safe, sig_safe)
        ctx.check("gls.parameter_cov_mat", bool(np.all(cdev <= ctol)), lambda: {"where": where, "got": cm, "expected": Cfull, "max_normalised_deviation": float(cdev.max()), "tolerance": ctol, "cond": condH}, key=skey)
    logdet = float(np.linalg.slogdet(V)[1])
    cv = float(multi.cost_function_value)
    ctx.check("gls.cost_function_value", abs(cv - (chi2 + logdet)) <= costtol, lambda: {"where": where, "got": cv, "expected": chi2 + logdet, "chi2": chi2, "logdet": logdet}, key=skey)
    return nwit(ctx) == n0


def setup_shared(W):
    """shared sources through the multi-fit (or the specified refusals). Returns False when the case ends here."""
    ctx, multi, members = W.ctx, W.multi, W.members
    nm = len(members)
    for s in W.case["shared"]:
        op = s["op"]
        a = op[1]
        fits = list(range(nm)) if a["fits"] == "all" else [int(i) for i in a["fits"]]
        ctx.op(op[0] + ".shared")
        W.last_op = op[0] + ".shared"
        if s["expect"] != "ok":
            raised = None
            try:
                apply_shared_live(multi, op)
            except Exception as e:
                raised = e
            ctx.stratum("refuse:" + s["expect"].split("-")[1])
            ctx.check("refusal", raised is not None, {"expected": "exception (%s)" % s["expect"], "got": "accepted", "fits": fits, "sizes": [mb.ref.n for mb in members], "relative": a.get("relative")})
            if raised is None:
                return False
            continue
        try:
            apply_shared_live(multi, op)
        except Exception as e:
            key = None
            if isinstance(e, AttributeError) and any(mb.spec["type"] == "hist" and mb.spec["cost"] == "chi2" for mb in members):
                key = K_HIST
            elif isinstance(e, AttributeError) and op[0] == "add_matrix_error" and a.get("relative") and "'reference' not set" in str(e):
                key = K_RELMAT
            elif isinstance(e, AssertionError) and a.get("relative") and a["axis"] is None:
                key = K_RELNONE
            ctx.violation(key, "shared.add.no-exception", {"traceback": fmt_exc(), "fits": fits, "axis": a["axis"], "member_types": [mb.spec["type"] for mb in members], "member_costs": [mb.spec.get("cost") for mb in members]})
            return False
        src = ref_source(op)
        for i in fits:
            members[i].ref.sources.append(src)  # one dict shared by all references: disabling it acts everywhere
        W.shared.append({"src": src, "fits": fits, "axis": src["axis"]})
        W.shared_mode = True
        gauss = [i for i, mb in enumerate(members) if W.is_gauss(mb)]
        ctx.stratum("shared:" + src["kind"])
        ctx.stratum("shared:" + src["axis"])
        ctx.stratum("shared:relative" if src["relative"] else "shared:absolute")
        ctx.stratum("shared:all" if len(fits) == nm else "shared:subset")
        sf = sorted(fits)
        if any(sf[k + 1] - sf[k] > 1 for k in range(len(sf) - 1)):
            ctx.stratum("shared:nonadjacent")
        if fits != sf:
            ctx.stratum("shared:unsorted-fits")
        if len(gauss) < nm:
            ctx.stratum("shared:with-nonchi2-member")
        if len(W.shared) == 2:
            ctx.stratum("shared:two-sources")
        if not check_all(W, "after shared source %s on fits %s" % (src["name"], fits)):
            return False
    return True


def read_values(W):
    """after a fit: fixed parameters must have kept the common value; then adopt the fit result as the declared state"""
    ctx = W.ctx
    ok = True
    pv = {n: float(v) for n, v in zip(W.names, W.multi.parameter_values)}
    for n in sorted(W.fixed):
        if W.minview[n] == W.values[n]:
            # the value went through the multi-fit itself: whether the backend keeps a fixed parameter is C06's statement
            if pv[n] != W.values[n]:
                ctx.note("fixed-parameter-moved-in-do_fit-without-member-set(C06)")
            continue

        def key(n=n):
            return K_MSET if pv[n] == W.minview[n] else None

        ok &= ctx.eq("values.member-set-fixed-after-do_fit", pv[n], W.values[n], key=key, detail={"name": n, "value_last_passed_through_the_multi_fit": W.minview[n], "history": [o[0] for o in W.case["history"]]})
    for n in sorted(W.limits):
        lo, hi = W.limits[n]
        inside = (lo is None or pv[n] >= lo - 1e-12 * max(1.0, abs(lo))) and (hi is None or pv[n] <= hi + 1e-12 * max(1.0, abs(hi)))
        ok &= ctx.check("values.within-limits-after-do_fit", inside, {"name": n, "value": pv[n], "limits": [lo, hi], "history": [o[0] for o in W.case.get("pre", [])] + ["<shared sources>"] + [o[0] for o in W.case["history"]]})
    W.values.update(pv)
    W.minview.update(pv)
    return ok


def run_twin(W, twin):
    """(c) MultiFit([f]) reproduces f: two identical fits, one fitted alone, one inside a MultiFit"""
    ctx, multi, case = W.ctx, W.multi, W.case
    mz = case["minimizer"]
    ctx.stratum("twin:" + mz)
    start = {n: case["start"][n] for n in W.names}
    twin.fit.set_parameter_values(**start)
    multi.set_parameter_values(**start)
    W.values.update(start)
    W.minview.update(start)
    W.last_op = "set_parameter_values"
    if not check_all(W, "twin start"):
        return False
    if not all(mb.admissible() for mb in W.members):
        return True
    c_alone = float(twin.fit.cost_function_value)
    ctx.close("single.cost_function_value", float(multi.cost_function_value), c_alone, tol=Tol.LINALG, scale=abs(c_alone) + 1.0, detail={"where": "start"})
    try:
        with time_limit(90):
            twin.fit.do_fit()
            multi.do_fit()
    except OpTimeout:
        ctx.discard("do_fit-timeout")
        return None
    except Exception as e:
        ctx.violation(classify_do_fit_exception(e), "do_fit.no-exception", {"traceback": fmt_exc(), "where": "twin", "original_exception": repr(e.__context__)})
        return False
    ctx.op("do_fit")
    n0 = nwit(ctx)
    ptol, costtol, _ = optim_tols(mz, 1.0)
    pa, pm = np.array(twin.fit.parameter_values, dtype=float), np.array(multi.parameter_values, dtype=float)
    sa, sm = np.array(twin.fit.parameter_errors, dtype=float), np.array(multi.parameter_errors, dtype=float)
    ok_sig = bool(np.all(np.isfinite(sa)) and np.all(sa > 0))
    if not ok_sig:
        ctx.discard("twin-errors-not-positive")
    else:
        dev = np.abs(pm - pa) / sa
        # a (nearly) degenerate minimum has no position to a fraction of the reported sigma (policy of C06/C07/C09/C14: cond(cor) <= 1e4);
        # there the two fits are compared through the cost they reach
        try:
            _c0 = np.array(twin.fit.parameter_cov_mat, dtype=float)
            _f0 = np.diag(_c0) > 0
            _d0 = np.sqrt(np.diag(_c0)[_f0])
            _cond0 = float(np.linalg.cond(_c0[np.ix_(_f0, _f0)] / np.outer(_d0, _d0))) if _d0.size > 1 else 1.0
        except Exception:
            _cond0 = float("inf")
        _same_cost = abs(float(twin.fit.cost_function_value) - float(multi.cost_function_value)) <= costtol
        if not bool(np.all(dev <= ptol)) and _same_cost and float(dev.max()) > 3.0:
            # the two minimisations ended several reported sigma apart at the same cost: the cost is flat along a (curved) valley and the
            # Hessian-based sigma is no yardstick; uncertainties evaluated at two different points are not comparable either
            ctx.discard("twin-flat-valley-same-cost-at-distant-points")
            return check_all(W, "after twin do_fit (flat valley: positions / uncertainties not compared)") if read_values(W) else False
        if not np.isfinite(_cond0) or _cond0 > 1e4:
            ctx.discard("twin-minimum-degenerate-positions-not-compared")
        else:
            ctx.check("single.parameter_values", bool(np.all(dev <= ptol)), lambda: {"got": pm, "expected": pa, "sigma": sa, "deviation_in_sigma": dev, "cond_cor": _cond0})
            k = "twin_worst_param_dev_sigma_%s" % mz
            ctx.worst[k] = max(ctx.worst.get(k, 0.0), float(dev.max()))
        # HESSE of the *same* fit object re-fitted at the identical minimum scatters by 2 % in weakly constrained problems (observed
        # 3.445 vs 3.515 on a Poisson parabola with cond(C) = 3.5e3), so the twin's uncertainties are compared within 5 %
        etol = 5e-2
        ca0 = twin.fit.parameter_cov_mat
        if ca0 is not None:
            # HESSE (finite differences inside Minuit2) loses accuracy in proportion to the condition number of the problem
            # (checks/c05.py: observed 2.4e-2 at cond 6e6; here 24 % at a much larger one): same rule as C05, on the correlation matrix
            try:
                _c = np.array(ca0, dtype=float)
                _free = np.diag(_c) > 0
                _cc = _c[np.ix_(_free, _free)]
                _d = np.sqrt(np.diag(_cc))
                _cond = float(np.linalg.cond(_cc / np.outer(_d, _d))) if _cc.size else 1.0
            except Exception:
                _cond = float("inf")
            if not np.isfinite(_cond) or _cond > 1e6:
                ctx.discard("twin-problem-ill-conditioned")
                return check_all(W, "after twin do_fit (ill-conditioned: uncertainties not compared)") if read_values(W) else False
            etol = max(5e-2, 2e-5 * _cond) if mz == "iminuit" else 5e-2
        ctx.check("single.parameter_errors", bool(np.all(np.abs(sm - sa) <= etol * sa)), lambda: {"got": sm, "expected": sa, "tolerance": etol})
        ca, cm = twin.fit.parameter_cov_mat, multi.parameter_cov_mat
        if ca is not None and cm is not None:
            cdev = np.abs(np.array(cm, dtype=float) - np.array(ca, dtype=float)) / np.outer(sa, sa)
            ctx.check("single.parameter_cov_mat", bool(np.all(cdev <= etol)), lambda: {"got": cm, "expected": ca, "max_normalised_deviation": float(cdev.max()), "tolerance": etol})
        else:
            ctx.check("single.parameter_cov_mat", (ca is None) == (cm is None), {"got": cm, "expected": ca})
        cv_a, cv_m = float(twin.fit.cost_function_value), float(multi.cost_function_value)
        ctx.check("single.cost_function_value@min", abs(cv_a - cv_m) <= costtol, {"got": cv_m, "expected": cv_a, "tolerance": costtol})
    if not read_values(W) or nwit(ctx) != n0:
        return False
    if not check_after_fit(W, "twin do_fit", False):
        return False
    return check_all(W, "after twin do_fit")


def run_case(ctx, case):
    from kafe2.fit import MultiFit

    ctx.reseed_legacy()
    mz = case["minimizer"]
    members = [Member(m["spec"], m["setup"], minimizer=mz) for m in case["members"]]
    nm = len(members)
    multi = MultiFit([mb.fit for mb in members], minimizer=mz)
    ctx._count("multi-fits")
    W = World(ctx, case, members, multi)
    # ---- strata
    ctx.stratum(mz)
    ctx.stratum("members:%d" % nm)
    types = [mb.spec["type"] for mb in members]
    if nm >= 2:
        for t in set(types):
            ctx.stratum("mix:" + t)
        if len(set(types)) >= 3:
            ctx.stratum("mix:3-types")
        ctx.stratum("overlap:" + overlap_pattern([mb.ref.model.pnames for mb in members]))
    if any(mb.ref.model.order != sorted(mb.ref.model.order) for mb in members):
        ctx.stratum("permuted-order")
    ctx.add_to_set("type_cost", ["%s:%s" % (mb.spec["type"], mb.spec.get("cost")) for mb in members])
    nontrivial = nm >= 2 or bool(case.get("twin"))
    # ---- names: union in order of first occurrence
    exp_names = []
    for mb in members:
        for n in mb.ref.model.pnames:
            if n not in exp_names:
                exp_names.append(n)
    if not ctx.eq("multi.parameter_names", list(multi.parameter_names), exp_names):
        return nontrivial
    W.last_op = "construct"
    if not check_all(W, "initial"):
        return nontrivial
    st = {"did_fit": False}
    nsm = not_subsequence_members([mb.ref.model.pnames for mb in members])

    def step(i, op, phase):
        """one op of the history; False ends the case"""
        k = op[0]
        where = "after %sop %d %s" % (phase, i, k)
        if k == "set_parameter_values":
            ctx.op(k)
            multi.set_parameter_values(**op[1])
            W.values.update(op[1])
            W.minview.update(op[1])
        elif k == "member.set_parameter_values":
            ctx.op(k)
            members[op[1]].fit.set_parameter_values(**op[2])
            W.values.update(op[2])
            if st["did_fit"]:
                ctx.stratum("member-set-after-fit")
        elif k == "fix_parameter":
            ctx.op(k)
            multi.fix_parameter(op[1], op[2])
            if op[2] is not None:
                W.values[op[1]] = float(op[2])
                W.minview[op[1]] = float(op[2])
            W.fixed.add(op[1])
        elif k == "release_parameter":
            ctx.op(k)
            multi.release_parameter(op[1])
            W.fixed.discard(op[1])
        elif k == "limit_parameter":
            n, lo, hi = op[1], op[2], op[3]
            v = W.values[n]
            if (lo is not None and v <= lo) or (hi is not None and v >= hi):
                # generated around the value last declared; a fit has moved the parameter since (what a limit does to a value outside it is not C11's business)
                ctx.discard("limit-skipped-live-value-not-inside")
                return True
            ctx.op(k)
            multi.limit_parameter(n, lo, hi)
            W.limits[n] = [lo, hi]
            ctx.stratum("limited")
        elif k == "unlimit_parameter":
            if op[1] not in W.limits:
                return True
            ctx.op(k)
            multi.unlimit_parameter(op[1])
            del W.limits[op[1]]
        elif k in ("add_parameter_constraint", "add_matrix_parameter_constraint"):
            ctx.op("add_parameter_constraint")
            a = op[1]
            if k == "add_parameter_constraint":
                multi.add_parameter_constraint(name=a["name"], value=a["value"], uncertainty=a["uncertainty"], relative=a.get("relative", False))
            else:
                multi.add_matrix_parameter_constraint(names=a["names"], values=a["values"], matrix=a["matrix"], matrix_type=a["matrix_type"], uncertainties=a.get("uncertainties"), relative=a.get("relative", False))
            W.multi_constraints.append(global_constraint(W.names, op))
        elif k == "member":
            ctx.op("member.add_parameter_constraint")
            where = "after %sop %d member[%d].%s" % (phase, i, op[1], op[2][0])
            members[op[1]].apply(op[2])
        elif k == "do_fit":
            W.push()
            if not all(mb.admissible() for mb in members):
                ctx.discard("do_fit-skipped-inadmissible")
                return True
            if W.shared_mode:
                okV, cond = pd_info(W.joint()[0])
                if not okV or cond > 1e6:
                    ctx.discard("do_fit-skipped-joint-covariance-ill-conditioned")
                    return True
            a = op[1]
            mini = genuine = None
            if a.get("fail_at"):
                mini = multi._fitter.minimizer
                genuine = mini._func_handle
                mini._func_handle = FaultyHandle(genuine, int(a["fail_at"]))
                ctx.op("do_fit.failing(injected)")
            else:
                ctx.op(k)
            try:
                with time_limit(90):
                    if a["asym"] and a["via"] == "do_fit":
                        multi.do_fit(asymmetric_parameter_errors=True)
                    else:
                        multi.do_fit()
                        if a["asym"]:
                            multi.asymmetric_parameter_errors
                if mini is not None:
                    ctx.discard("injected-fault-not-reached")
            except InjectedFault:
                # the failure that surfaces is the injected one; every oracle on the state must still hold at the point where the minimiser stopped
                mini._func_handle, mini = genuine, None
                ctx.stratum("failed-do_fit:" + mz)
                if W.shared_mode:
                    ctx.stratum("failed-do_fit:shared")
                pv = {n: float(v) for n, v in zip(W.names, multi.parameter_values)}
                W.values.update(pv)
                W.minview.update(pv)
                W.last_op = "do_fit.failing(injected)"
                return bool(check_all(W, where + " (failed: fault injected at cost evaluation %d)" % a["fail_at"]))
            except OpTimeout:
                ctx.discard("do_fit-timeout")
                return False
            except np.linalg.LinAlgError:
                ctx.discard("do_fit-minimizer-linear-algebra-failure")  # numerical Hessian of the backend not invertible: not a statement about multi-fits
                return False
            except Exception as e:
                if numerical_failure(e) and classify_do_fit_exception(e) is None:
                    # failure inside third-party numerics (scipy root finding / numdifftools on a degenerate problem): no statement about multi-fits
                    ctx.discard("do_fit-or-asymmetric-errors-failed-numerically")
                    return False
                ctx.violation(classify_do_fit_exception(e), "multi.do_fit.no-exception", {"traceback": fmt_exc(), "op_index": i, "original_exception": repr(e.__context__), "fault_injected_at_cost_evaluation": a.get("fail_at")})
                return False
            finally:
                if mini is not None:
                    mini._func_handle = genuine
            st["did_fit"] = True
            if W.fixed:
                ctx.stratum("fix-then-fit")
            if W.fixed & st["pre_fixed"] and W.shared_mode:
                ctx.stratum("pre-shared:fix+fit")
            if set(W.limits) & st["pre_limited"] and W.shared_mode:
                ctx.stratum("pre-shared:limit+fit")
            if not read_values(W):
                return False
            W.last_op = k
            if nsm:
                ctx.stratum("order:not-subsequence+fit")
                for _j in nsm:
                    ctx._count("member.result-by-name(order-not-subsequence)")
            if not check_after_fit(W, where, a["asym"]):
                return False
            if gls_applicable(W) and not check_gls(W, where):
                return False
        elif k == "disable_error":
            ctx.op(k)
            name = op[1]
            holders = [j for j, mb in enumerate(members) if any(s["name"] == name for s in mb.ref.sources)]
            try:
                multi.disable_error(name)
            except Exception as e:
                key = K_DIS_RAISE if (isinstance(e, ValueError) and len(holders) < nm) else None
                ctx.violation(key, "multi.disable_error.no-exception", {"traceback": fmt_exc(), "source": name, "members_holding_the_source": holders, "n_members": nm})
                return False
            for mb in members:
                for s in mb.ref.sources:
                    if s["name"] == name:
                        s["enabled"] = False
            W.disabled_by_multi = name
        else:
            raise KeyError(k)
        W.last_op = k
        return bool(check_all(W, where))

    # ---- ops issued on the multi-fit before its first shared source (adding it rebuilds the shared cost and the fitter)
    st["pre_fixed"], st["pre_limited"] = set(), set()
    for i, op in enumerate(case.get("pre", [])):
        if not step(i, op, "pre-shared "):
            return nontrivial
    if case["shared"] and any(s["expect"] == "ok" for s in case["shared"]):
        st["pre_fixed"], st["pre_limited"] = set(W.fixed), set(W.limits)
        kinds = [o[0] for o in case.get("pre", [])]
        if W.fixed:
            ctx.stratum("pre-shared:fix")
        if W.limits:
            ctx.stratum("pre-shared:limit")
        if "release_parameter" in kinds:
            ctx.stratum("pre-shared:release")
        if "unlimit_parameter" in kinds:
            ctx.stratum("pre-shared:unlimit")
    if not setup_shared(W):
        return nontrivial
    if nsm:
        ctx.stratum("order:not-subsequence")
        if W.shared_mode:
            ctx.stratum("order:not-subsequence+shared")
    if case.get("twin"):
        twin = Member(case["members"][0]["spec"], case["members"][0]["setup"], minimizer=mz)
        r = run_twin(W, twin)
        if not r:
            return nontrivial
    for i, op in enumerate(case["history"]):
        if not step(i, op, ""):
            return nontrivial
    return nontrivial


def run_shard(ctx):
    idx = 0
    while ctx.more():
        case = gen_case(ctx.rng, ctx.tier, idx, ctx.shard, ctx.nshards)
        idx += 1
        ctx.begin_case(case)
        nontrivial = False
        try:
            nontrivial = run_case(ctx, case)
        except Exception:
            ctx.violation(None, "unexpected-exception", {"traceback": fmt_exc()})
        ctx.end_case(nontrivial=nontrivial)


def replay(ctx, case):
    ctx.begin_case(case)
    try:
        run_case(ctx, case)
    except Exception:
        ctx.violation(None, "unexpected-exception", {"traceback": fmt_exc()})
    ctx.end_case(nontrivial=True)
