"""C05 — for models linear in the parameters the fit returns the GLS solution.

Shape: post-condition monitor on do_fit with a closed-form oracle.  W (design matrix, analytic), b (offset),
V (reference covariance from the declared parameter-independent sources), constraints as extra measurement
rows, fixed parameters as deleted columns:  p^ = (A^T S^-1 A)^-1 A^T S^-1 y,  C = (A^T S^-1 A)^-1,
chi2 = r^T S^-1 r,  asymmetric = (-sigma, +sigma).

Multi-fits: the members' rows are stacked over the union of the parameter names.  An uncertainty source declared through
MultiFit.add_error / add_matrix_error for several members (of equal size) is ONE source: its covariance sits in the
diagonal block of every sharing member and in every off-diagonal block between two sharing members of the joint V.
A constraint is the same extra measurement row whether it was declared on the multi-fit or on a member fit (before the
multi-fit was built, before or after the shared sources were added).
"""
import numpy as np

from vlib import gen
from vlib.fitcase import Member
from vlib.models import Model
from vlib.monitor import Tol, fmt_exc, numerical_failure
from vlib.ref import constraint_cov, pd_info, source_cov

PROPERTY = "C05"
TIERS = {"quick": {"shards": 8, "budget_s": 30}, "thorough": {"shards": 16, "budget_s": 600}}
RULE = (
    "linear model family (poly0-4, trig basis, exp basis) as XYFit / IndexedFit / MultiFit of 2-3 members sharing linear parameters "
    "(half of the multi-fits with 1-2 absolute y sources, simple with any correlation / matrix, shared by 2..all members of equal size through MultiFit.add_error / "
    "add_matrix_error(fits=[...] / 'all'); constraints declared on the multi-fit and / or on member fits, before the multi-fit is built, before or after the shared sources) x "
    "parameter-independent sources (absolute / data-relative, simple with any correlation, matrix cov/cor) x constraints x fixed subset x "
    "backend {iminuit, scipy} x start values up to 100 sigma away; non-trivial = correlated V or >=1 constraint or >=1 fixed parameter, "
    "with >=2 free parameters; distinct by case hash"
)
ASSUMPTIONS = [
    "generator enforces cond(A^T S^-1 A) <= 1e8 and cond(V) <= 1e8 (measured on the reference; others discarded and counted)",
    "tolerances (statement: 'to within the minimizer's tolerance'; iminuit EDM goal 2e-5 <=> 4.5e-3 sigma): |p - p^| <= 1e-2 sigma (iminuit) / 5e-2 sigma (scipy BFGS with numerical gradient terminates on precision loss), "
    "|C - C^|_ij <= tol * sqrt(C^_ii C^_jj) with tol = 2e-3 (scipy) / max(5e-3, 2e-7 * cond) (iminuit HESSE, numerical second derivatives at strategy 1; observed 2.8e-3 at cond 1.5e4, 1.7e-2 at 1.2e5, 2.4e-2 at 6e6), |chi2 - chi2^| <= 1e-3, asymmetric errors within 1e-2 sigma of +-sigma; a covariance deviation of the iminuit backend is reported only if plain iminuit.Minuit (tol 0.01, strategy 1, same start, three step-size choices) on the closed-form cost of the same problem stays below half the tolerance or a third of the deviation seen - otherwise Minuit2's own accuracy cannot decide that case and its covariance comparison is discarded and counted",
    "scipy asymmetric errors (generic profile root finding with one numerical Hessian per profile point: ~2 s at 2-3 free parameters, 45 s at 6) are sampled at 10 % of the cases with <= 4 free parameters in the quick tier (thorough tier: always)",
    "shared sources of a multi-fit are absolute, data-referenced, on the y axis, for members of equal size (relative / x sources, refusals and disabling are C11's workload); joint covariance cond <= 1e8",
]
ANCHORS = [
    ("kafe2.core.fitters.nexus_fitter", "NexusFitter._fcn_wrapper"),
    ("kafe2.core.fitters.nexus_fitter", "NexusFitter._minimize"),
    ("kafe2.core.minimizers.minimizer_base", "MinimizerBase._remove_zeroes_for_fixed"),
    ("kafe2.core.minimizers.minimizer_base", "MinimizerBase._fill_in_zeroes_for_fixed"),
    ("kafe2.core.minimizers.iminuit_minimizer", "MinimizerIMinuit.minimize"),
    ("kafe2.core.minimizers.iminuit_minimizer", "MinimizerIMinuit.cov_mat"),
    ("kafe2.core.minimizers.iminuit_minimizer", "MinimizerIMinuit._calculate_asymmetric_parameter_errors"),
    ("kafe2.core.minimizers.scipy_optimize_minimizer", "MinimizerScipyOptimize.minimize"),
    ("kafe2.core.minimizers.minimizer_base", "MinimizerBase.cov_mat"),
    ("kafe2.core.minimizers.minimizer_base", "MinimizerBase._calculate_asymmetric_parameter_errors"),
    ("kafe2.fit._base.fit", "FitBase.do_fit"),
    ("kafe2.fit.multi.fit", "MultiFit.do_fit"),
]


def floors(tier):
    return {
        "comparisons": {"parameter_values": 60, "parameter_cov_mat": 60, "parameter_errors": 60, "parameter_cor_mat": 40, "goodness_of_fit": 60, "cost_function_value": 60, "asymmetric_parameter_errors": 25, "fixed_untouched": 15,
                        "parameter_values(multi-fit with shared source)": 5, "parameter_values(multi-fit with shared source and member constraint)": 3, "parameter_values(multi-fit with member constraint)": 3},
        "ops": ["do_fit", "multi.add_error.shared", "multi.add_matrix_error.shared", "member.add_parameter_constraint", "member.add_matrix_parameter_constraint"],
        "reach": ["%s:%s" % a for a in ANCHORS],
        "strata": ["xy", "indexed", "multi", "iminuit", "scipy", "fixed", "constraint-simple", "constraint-matrix", "correlated-V", "far-start", "other-unit",
                   "multi:shared", "multi:shared:simple", "multi:shared:matrix", "multi:member-constraint", "multi:multi-constraint", "multi:shared+member-constraint",
                   "multi:shared+member-constraint:on-other-than-last-member", "multi:member-constraint:before-multi", "multi:member-constraint:before-shared", "multi:member-constraint:after-shared"],
        "distinct_nontrivial": 40,
    }


# ------------------------------------------------------------------ generation
def gen_member(rng, ftype, fam, prefix, n=None):
    npar = len(Model(fam).pnames)
    n = int(rng.integers(npar + 2, 14)) if n is None else int(n)
    if ftype == "xy":
        spec = gen.gen_xy_spec(rng, family=fam, cost="chi2", n=n)
    else:
        spec = gen.gen_indexed_spec(rng, family=fam, cost="chi2", n=n)
    n = len(spec.get("y") or spec["data"])
    yscale = float(np.mean(np.abs(spec.get("y") or spec["data"])) + 0.5)
    ops = []
    for k in range(int(rng.integers(1, 4))):
        force = {"axis": "y", "reference": "data"}
        if k == 0:
            force["kind"] = "simple"
            force["shape"] = str(rng.choice(["scalar", "vec", "constvec"]))
        ops.append(gen.gen_source(rng, n, ftype, "%se%d" % (prefix, k), yscale=yscale, force=force, allow_model=False, allow_x=False))
    return {"spec": spec, "setup": ops}


def gen_shared(rng, members, S, n_s, stratified_kind=None):
    """1-2 absolute y sources declared through the multi-fit for the members S (all of size n_s)"""
    nm = len(members)
    yscale = float(np.mean([np.mean(np.abs(members[i]["spec"].get("y") or members[i]["spec"]["data"])) for i in S]) + 0.5)
    out = []
    for k in range(2 if rng.random() < 0.3 else 1):
        sub = list(S) if (k == 0 or len(S) < 3) else [S[0], S[-1]]
        kind = stratified_kind if (k == 0 and stratified_kind) else str(rng.choice(["simple", "matrix"]))
        force = {"axis": "y", "kind": kind, "relative": False, "reference": "data"}
        if kind == "simple":
            force["shape"] = str(rng.choice(["scalar", "vec", "constvec"]))
            if rng.random() < 0.6:
                force["corr"] = float(np.round(rng.uniform(0.1, 0.9), 3))
        op = gen.gen_source(rng, n_s, "indexed", "sh%d" % k, yscale=yscale, force=force, allow_model=False, allow_x=False)
        a = dict(op[1])
        has_xy = any(members[i]["spec"]["type"] == "xy" for i in sub)
        a["axis"] = "y" if (has_xy or rng.random() < 0.5) else None  # IndexedFit members: 'y' / None mean the same
        a["fits"] = "all" if (len(sub) == nm and rng.random() < 0.4) else (sub[::-1] if rng.random() < 0.2 else sub)
        out.append([op[0], a])
    return out


def scale_op(op, s):
    """express an absolute uncertainty source in another unit (relative sources are unit-free)"""
    a = op[1]
    if a.get("relative"):
        return
    if op[0] == "add_error":
        a["err"] = [float(v * s) for v in a["err"]] if isinstance(a["err"], list) else float(a["err"] * s)
    elif a["matrix_type"] == "cov":
        a["matrix"] = (np.array(a["matrix"], dtype=float) * s * s).tolist()
    else:
        a["err_val"] = [float(v * s) for v in a["err_val"]] if isinstance(a["err_val"], list) else float(a["err_val"] * s)


def scale_member(mb, s):
    """express a member's data and absolute uncertainties in another unit"""
    spec = mb["spec"]
    key = "y" if "y" in spec else "data"
    spec[key] = [float(v * s) for v in spec[key]]
    for op in mb["setup"]:
        scale_op(op, s)


def gen_case(rng, tier, idx, shard, nshards):
    gi = idx * nshards + shard
    stratified = gi < 30
    kind = ["xy", "indexed", "multi"][gi % 3] if stratified else str(rng.choice(["xy", "indexed", "multi"], p=[0.45, 0.25, 0.3]))
    minimizer = ["iminuit", "scipy"][(gi // 3) % 2] if stratified else str(rng.choice(["iminuit", "scipy"]))
    shared, S = [], []
    if kind == "multi":
        # stratified part: the multi-fits number 1, 2, 5, 6, 9 (gi = 5, 8, 17, 20, 29: scipy, iminuit, scipy, iminuit, scipy) have shared sources,
        # first source simple / matrix in turn; the others (and the single fits) keep the block-diagonal V
        mi = gi // 3
        shared_mode = bool(mi % 4 in (1, 2)) if stratified else bool(rng.random() < 0.5)
        fams = [str(f) for f in rng.choice(["poly1", "poly2", "trig", "expbasis", "poly0"], size=int(rng.integers(2, 4)))]
        nm = len(fams)
        n_s = None
        if shared_mode:
            S = sorted(int(i) for i in rng.choice(nm, size=int(rng.integers(2, nm + 1)), replace=False))
            n_s = int(rng.integers(max(len(Model(fams[i]).pnames) for i in S) + 2, 12))
        members = [gen_member(rng, str(rng.choice(["xy", "indexed"])), f, "m%d" % j, n=n_s if j in S else None) for j, f in enumerate(fams)]
        if shared_mode:
            shared = gen_shared(rng, members, S, n_s, stratified_kind={1: "simple", 2: "matrix", 5: "matrix", 6: "simple", 9: "matrix"}[mi] if stratified else None)
    else:
        fam = str(rng.choice(["poly0", "poly1", "poly2", "poly3", "poly4", "trig", "expbasis"], p=[0.05, 0.25, 0.25, 0.15, 0.05, 0.15, 0.1]))
        members = [gen_member(rng, kind, fam, "")]
    names, defaults = [], []
    for mb in members:
        m = Model.from_spec(mb["spec"]["model"])
        for n, v in zip(m.pnames, m.defaults):
            if n not in names:
                names.append(n)
                defaults.append(v)
    # constraints declared on the fit / multi-fit ...
    constraints = []
    for _ in range(int(rng.choice([0, 0, 1, 1, 2]))):
        constraints.append(gen.gen_constraint(rng, names, defaults))
    # ... and, in a multi-fit, on member fits (over the member's own parameters): [member index, when, op] with
    # when = before-multi (the member is constrained when the multi-fit is built) / before-shared / after-shared (= after the multi-fit's sources)
    member_constraints = []
    if kind == "multi":
        k = int(rng.choice([0, 1, 1, 2])) if not (stratified and shared) else int(rng.choice([1, 2]))
        for t in range(k):
            # with shared sources the first one goes to a sharing member that is not the last member of the multi-fit
            j = int(S[int(rng.integers(0, len(S) - 1))]) if (shared and t == 0) else int(rng.integers(0, len(members)))
            m = Model.from_spec(members[j]["spec"]["model"])
            when = str(rng.choice(["before-multi", "before-shared", "after-shared"]))
            if stratified and shared:
                when = ["before-multi", "before-shared", "after-shared"][(gi // 3 + t) % 3]  # multi-fits 1, 5, 6, 9: every position at least once
            member_constraints.append([j, when, gen.gen_constraint(rng, list(m.pnames), [defaults[names.index(q)] for q in m.pnames])])
    constraint_when = [str(rng.choice(["before-shared", "after-shared"])) for _ in constraints]
    fixed = {}
    if len(names) >= 2 and rng.random() < 0.4:
        k = int(rng.integers(1, len(names)))
        for i in rng.choice(len(names), size=k, replace=False):
            fixed[names[int(i)]] = float(np.round(defaults[int(i)] * rng.uniform(0.7, 1.3), 4))
    # the same problem in other units (y, its absolute uncertainties and the linear parameters times s): which code path evaluates the
    # cost must not depend on the magnitude of the numbers.  iminuit only: the scipy backend's sensitivity to the unit is the recorded
    # finding C15/scipy-minimizer-stops-short-when-rescaled
    unit = 1.0
    if minimizer == "iminuit" and (gi % 5 == 3 or (not stratified and rng.random() < 0.2)):
        unit = float(rng.choice([1e-6, 1e-4, 1e4]))
        constraints, constraint_when, member_constraints = [], [], []
        for mb in members:
            scale_member(mb, unit)
        for op in shared:
            scale_op(op, unit)
        defaults = [d * unit for d in defaults]
        fixed = {n: float(v * unit) for n, v in fixed.items()}
    far = bool(rng.random() < 0.3)
    start = {n: float(np.round(d * (rng.uniform(-30, 30) if far else rng.uniform(0.5, 1.5)) + rng.uniform(-0.5, 0.5) * unit, 4 if unit == 1.0 else 12)) for n, d in zip(names, defaults) if n not in fixed}
    return {"property": "C05", "unit": unit, "kind": kind, "minimizer": minimizer, "members": members, "shared": shared, "constraints": constraints, "constraint_when": constraint_when, "member_constraints": member_constraints,
            "fixed": fixed, "start": start, "far_start": far, "asym": bool(minimizer == "iminuit" or rng.random() < ((0.1 if len(start) <= 4 else 0.0) if tier == "quick" else 1.0))}


# ------------------------------------------------------------------ closed form
def joint_data_cov(members, shared):
    """joint covariance of the stacked data of the members: own (+ shared) sources in the diagonal blocks (a shared source is a declared
    source of every sharing member's reference) and the shared source's matrix in every block between two different sharing members"""
    off, o = [], 0
    for mb in members:
        off.append(o)
        o += mb.ref.n
    V = np.zeros((o, o))
    for i, mb in enumerate(members):
        V[off[i] : off[i] + mb.ref.n, off[i] : off[i] + mb.ref.n] = mb.ref.total_cov(np.zeros(len(mb.ref.p)))
    for sh in shared:
        for a in sh["fits"]:
            for b in sh["fits"]:
                if a != b:
                    ra, rb = members[a].ref, members[b].ref
                    V[off[a] : off[a] + ra.n, off[b] : off[b] + rb.n] += source_cov(sh["src"], ra.d)  # absolute: the reference values do not enter
    return V


def gls(members, names, constraints, fixed, shared=()):
    """members: list of Member (reference side used only). Returns dict with p_hat (full), cov (full, zeros for fixed), chi2, logdet."""
    rows_A, rows_y, blocks = [], [], []
    logdet = 0.0
    for mb in members:
        r = mb.ref
        m = r.model
        zero = np.zeros(len(m.pnames))
        W = m.dfdp(r.x, zero).T  # N x npar_member (linear: independent of p)
        b = m.f(r.x, zero)
        A = np.zeros((r.n, len(names)))
        for j, pn in enumerate(m.pnames):
            A[:, names.index(pn)] += W[:, j]
        V = r.total_cov(zero)
        rows_A.append(A)
        rows_y.append(r.d - b)
        if not shared:
            blocks.append(V)
            logdet += float(np.linalg.slogdet(V)[1])
    if shared:
        V = joint_data_cov(members, shared)
        blocks.append(V)
        logdet = float(np.linalg.slogdet(V)[1])
    for c in constraints:
        if c["kind"] == "simple":
            A = np.zeros((1, len(names)))
            A[0, c["index"]] = 1.0
            unc = c["uncertainty"] * c["value"] if c.get("relative") else c["uncertainty"]
            rows_A.append(A)
            rows_y.append(np.array([c["value"]], dtype=float))
            blocks.append(np.array([[unc**2]]))
        else:
            k = len(c["indices"])
            A = np.zeros((k, len(names)))
            for i, j in enumerate(c["indices"]):
                A[i, j] = 1.0
            rows_A.append(A)
            rows_y.append(np.array(c["values"], dtype=float))
            blocks.append(constraint_cov(c))
    A = np.vstack(rows_A)
    y = np.concatenate(rows_y)
    nt = len(y)
    S = np.zeros((nt, nt))
    o = 0
    for B in blocks:
        k = B.shape[0]
        S[o : o + k, o : o + k] = B
        o += k
    free = [i for i, n in enumerate(names) if n not in fixed]
    fix = [i for i, n in enumerate(names) if n in fixed]
    pfix = np.array([fixed[names[i]] for i in fix], dtype=float)
    y2 = y - (A[:, fix] @ pfix if fix else 0.0)
    Af = A[:, free]
    Si = np.linalg.inv(S)
    H = Af.T @ Si @ Af
    okH, condH = pd_info(H)
    C = np.linalg.inv(H)
    pf = C @ Af.T @ Si @ y2
    res = y2 - Af @ pf
    chi2 = float(res @ Si @ res)
    p = np.zeros(len(names))
    p[free] = pf
    p[fix] = pfix
    Cfull = np.zeros((len(names), len(names)))
    for a, i in enumerate(free):
        for b_, j in enumerate(free):
            Cfull[i, j] = C[a, b_]
    return {"p": p, "cov": Cfull, "chi2": chi2, "logdet": logdet, "free": free, "fix": fix, "condH": condH, "okH": okH, "S": S, "Af": Af, "Si": Si, "y2": y2}


# ------------------------------------------------------------------ execution
def declare_constraint(obj, cop):
    a = cop[1]
    if cop[0] == "add_parameter_constraint":
        obj.add_parameter_constraint(name=a["name"], value=a["value"], uncertainty=a["uncertainty"], relative=a.get("relative", False))
    else:
        obj.add_matrix_parameter_constraint(names=a["names"], values=a["values"], matrix=a["matrix"], matrix_type=a["matrix_type"], uncertainties=a.get("uncertainties"), relative=a.get("relative", False))


def ref_constraint(cop, names):
    """the constraint as measurement rows over the global parameter list"""
    a = cop[1]
    if cop[0] == "add_parameter_constraint":
        return {"kind": "simple", "index": names.index(a["name"]), "value": a["value"], "uncertainty": a["uncertainty"], "relative": a.get("relative", False)}
    return {"kind": "matrix", "indices": [names.index(n) for n in a["names"]], "values": a["values"], "matrix": a["matrix"], "matrix_type": a["matrix_type"], "uncertainties": a.get("uncertainties"), "relative": a.get("relative", False)}


def declare_shared(multi, members, op):
    """a source declared through the multi-fit; in the reference one source dict owned by every sharing member"""
    a = op[1]
    fits = list(range(len(members))) if a["fits"] == "all" else [int(j) for j in a["fits"]]
    if op[0] == "add_error":
        multi.add_error(err_val=np.array(a["err"], dtype=float) if isinstance(a["err"], list) else a["err"], fits=a["fits"], axis=a["axis"], name=a["name"], correlation=a.get("corr", 0.0), relative=False, reference="data")
        src = {"kind": "simple", "axis": "y", "err": a["err"], "corr": a.get("corr", 0.0), "relative": False, "reference": "data", "enabled": True, "name": a["name"]}
    else:
        ev = a.get("err_val")
        multi.add_matrix_error(err_matrix=np.array(a["matrix"], dtype=float), matrix_type=a["matrix_type"], fits=a["fits"], axis=a["axis"], name=a["name"], err_val=np.array(ev, dtype=float) if isinstance(ev, list) else ev, relative=False, reference="data")
        src = {"kind": "matrix", "axis": "y", "matrix": a["matrix"], "matrix_type": a["matrix_type"], "err_val": ev, "relative": False, "reference": "data", "enabled": True, "name": a["name"]}
    for j in fits:
        members[j].ref.sources.append(src)
    return {"src": src, "fits": fits}


def run_case(ctx, case):
    from kafe2.fit import MultiFit

    ctx.reseed_legacy()
    ctx.stratum(case["kind"])
    ctx.stratum(case["minimizer"])
    members = [Member(m["spec"], m["setup"], minimizer=case["minimizer"]) for m in case["members"]]
    shared_ops = case.get("shared") or []
    member_constraints = case.get("member_constraints") or []
    when_multi = case.get("constraint_when") or ["before-shared"] * len(case["constraints"])
    ref_constraints = []  # rows over the global parameter list, wherever the constraint was declared
    deferred = []  # member constraints declared before the multi-fit exists: the global names are known only afterwards

    def member_constraint(j, when, cop):
        ctx.op("member." + cop[0])
        declare_constraint(members[j].fit, cop)
        ctx.stratum("multi:member-constraint")
        ctx.stratum("multi:member-constraint:" + when)
        ctx.stratum("constraint-simple" if cop[0] == "add_parameter_constraint" else "constraint-matrix")

    for j, when, cop in member_constraints:
        if when == "before-multi":
            member_constraint(j, when, cop)
            deferred.append(cop)
    if case["kind"] == "multi":
        fit = MultiFit([mb.fit for mb in members], minimizer=case["minimizer"])
    else:
        fit = members[0].fit
    names = list(fit.parameter_names)
    ref_constraints += [ref_constraint(cop, names) for cop in deferred]

    def declare_all(phase):
        for cop, when in zip(case["constraints"], when_multi):
            if when == phase:
                declare_constraint(fit, cop)
                ref_constraints.append(ref_constraint(cop, names))
                ctx.stratum("constraint-simple" if cop[0] == "add_parameter_constraint" else "constraint-matrix")
                if case["kind"] == "multi":
                    ctx.stratum("multi:multi-constraint")
        for j, when, cop in member_constraints:
            if when == phase:
                member_constraint(j, when, cop)
                ref_constraints.append(ref_constraint(cop, names))

    declare_all("before-shared")
    shared = []
    for op in shared_ops:
        ctx.op("multi.%s.shared" % op[0])
        shared.append(declare_shared(fit, members, op))
        ctx.stratum("multi:shared")
        ctx.stratum("multi:shared:" + shared[-1]["src"]["kind"])
        ctx.stratum("multi:shared:" + ("all-members" if len(shared[-1]["fits"]) == len(members) else "subset"))
    declare_all("after-shared")
    if shared and member_constraints:
        ctx.stratum("multi:shared+member-constraint")
        last = len(members) - 1
        ctx.stratum("multi:shared+member-constraint:" + ("on-last-member-only" if all(j == last for j, _, _ in member_constraints) else "on-other-than-last-member"))
        ctx.add_to_set("multi-shared-member-constraint-config", "%s|%s|%s" % ("+".join(sh["src"]["kind"] for sh in shared), "+".join(sorted(set(w for _, w, _ in member_constraints))), "+".join(sorted(set(c[0].replace("add_", "").replace("_parameter_constraint", "") for _, _, c in member_constraints)))))
    for n, v in case["fixed"].items():
        fit.fix_parameter(n, v)
        ctx.stratum("fixed")
    if case["start"]:
        fit.set_parameter_values(**case["start"])
    if case.get("far_start"):
        ctx.stratum("far-start")
    if case.get("unit", 1.0) != 1.0:
        ctx.stratum("other-unit")
    # reference
    for mb in members:
        ok, cond = pd_info(mb.ref.total_cov(np.zeros(len(mb.ref.p))))
        if not ok or cond > 1e8:
            ctx.discard("V-not-pd-or-ill-conditioned")
            return False
    if shared:
        ok, cond = pd_info(joint_data_cov(members, shared))
        if not ok or cond > 1e8:
            ctx.discard("joint-V-not-pd-or-ill-conditioned")
            return False
    g = gls(members, names, ref_constraints, case["fixed"], shared)
    if not g["okH"] or g["condH"] > 1e8:
        ctx.discard("normal-matrix-ill-conditioned")
        return False
    correlated = bool(shared) or any(np.any(np.abs(mb.ref.total_cov(np.zeros(len(mb.ref.p))) - np.diag(np.diag(mb.ref.total_cov(np.zeros(len(mb.ref.p)))))) > 0) for mb in members)
    if correlated:
        ctx.stratum("correlated-V")
    nontrivial = (correlated or bool(ref_constraints) or bool(case["fixed"])) and len(g["free"]) >= 2
    ctx.op("do_fit")
    try:
        fit.do_fit()
    except Exception as e:
        if numerical_failure(e):
            ctx.discard("do_fit-failed-numerically")
            return nontrivial
        ctx.violation(None, "do_fit.no-exception", {"traceback": fmt_exc()})
        return nontrivial
    # "to within the minimizer's tolerance": MIGRAD stops at EDM <= 2e-5 (4.5e-3 sigma); scipy's BFGS with numerical gradients
    # regularly terminates on precision loss a few 1e-2 sigma / 1e-4..1e-3 in chi2 away (observed 2.4e-2 sigma, 5.8e-4)
    ptol, chi2tol = (1e-2, 1e-3) if case["minimizer"] == "iminuit" else (5e-2, 5e-3)
    sig = np.sqrt(np.diag(g["cov"]))
    sig_safe = np.where(sig > 0, sig, 1.0)
    pv = np.array(fit.parameter_values, dtype=float)
    free = g["free"]
    # open finding (shared with C06): the scipy adapter accepts a result scipy itself flags as failed ("Desired error not necessarily
    # achieved due to precision loss") although the cost there is above the optimum.  Signature: success flag False AND the reported cost
    # exceeds the closed-form optimum by more than the tolerance.
    skey = None
    if case["minimizer"] == "scipy":
        try:
            res = fit._fitter.minimizer._opt_result
            if res is not None and not bool(res.success) and float(fit.cost_function_value) > g["chi2"] + g["logdet"] + chi2tol:
                skey = "C06/scipy-backend-accepts-unconverged-result"
        except Exception:
            skey = None
    ctx.check("parameter_values", bool(np.all(np.abs(pv - g["p"])[free] <= ptol * sig[free])), lambda: {"got": pv, "expected": g["p"], "sigma": sig, "deviation_in_sigma": (np.abs(pv - g["p"]) / sig_safe)}, key=skey)
    if shared:
        ctx._count("parameter_values(multi-fit with shared source)")
        if member_constraints:
            ctx._count("parameter_values(multi-fit with shared source and member constraint)")
    elif member_constraints:
        ctx._count("parameter_values(multi-fit with member constraint)")
    if g["fix"]:
        ctx.eq("fixed_untouched", pv[g["fix"]], g["p"][g["fix"]])
    w = float(np.max((np.abs(pv - g["p"]) / sig_safe)[free]))
    k = "worst_param_dev_sigma_%s" % case["minimizer"]
    ctx.worst[k] = max(ctx.worst.get(k, 0.0), w)
    cm = fit.parameter_cov_mat
    if cm is None:
        ctx.violation(None, "parameter_cov_mat", {"got": None})
        return nontrivial
    cm = np.array(cm, dtype=float)
    norm = np.outer(sig_safe, sig_safe)
    dev = np.abs(cm - g["cov"]) / norm
    # HESSE (finite differences inside Minuit2, trusted third party) loses accuracy in proportion to the condition number of
    # the normal matrix (observed 2.4e-2 at cond 6e6); numdifftools (scipy backend) does not (observed 2e-11)
    ctol = 2e-3 if case["minimizer"] == "scipy" else max(5e-3, 2e-7 * g["condH"])
    ctx.note("cov_tolerance_le_1e-2" if ctol <= 1e-2 else "cov_tolerance_gt_1e-2")
    # HESSE's accuracy is not a function of the condition number alone: for a cubic with parameters ~1e-4 and cond 3.9e5 kafe2 reported
    # 0.82 x the GLS covariance (seed-5 sweep), and plain iminuit.Minuit with the settings kafe2 uses (tol 0.01, strategy 1) on the
    # closed-form cost of the same problem gives 1.23 x / 0.87 x / 1.16 x depending on the initial step sizes (findings/C05-iminuit-hesse).
    # Explain-check before a covariance deviation of the iminuit backend is reported: plain Minuit2 (MIGRAD + HESSE, kafe2's tol and
    # strategy, same start) is run on the closed-form cost (residuals, then the quadratic form: the rounding noise of any evaluation of
    # the model) with three sets of step sizes; HESSE's error there is chaotic (0.43 x ... 1.23 x for this witness depending on step sizes
    # and the order of the arithmetic), so the criterion is relative: if Minuit2 itself misses the closed form by at least half the
    # tolerance AND at least a third of the deviation seen, its accuracy on this problem cannot decide the comparison: discarded and
    # counted.  A deviation far above Minuit2's own (a wrong factor, a mixed-up block) is still reported.
    # Values, fixed parameters, goodness of fit, cost and the asymmetric uncertainties are still compared.
    skip_cov = False
    if case["minimizer"] == "iminuit" and not bool(np.all(dev <= ctol)) and bool(np.all(np.abs(pv - g["p"])[free] <= ptol * sig[free])):
        try:
            import iminuit as _im
            fr = list(free)
            Cf = g["cov"][np.ix_(fr, fr)]
            Af, Si, y2 = g["Af"], g["Si"], g["y2"]
            off = float(fit.cost_function_value) - g["chi2"]

            def closed_form(v):
                # the same arithmetic as any evaluation of the model in double precision: residuals first, then the quadratic form
                rr = y2 - Af @ np.asarray(v, dtype=float)
                return off + float(rr @ Si @ rr)

            st = case.get("start") if isinstance(case.get("start"), dict) else {}
            s0 = np.array([float(st.get(n, pv[i])) for i, n in enumerate(fit.parameter_names)])[fr]
            worst2 = 0.0
            for steps in (np.full(len(fr), 0.1), 0.1 * np.abs(s0) + 1e-300, np.sqrt(np.diag(Cf))):
                m2 = _im.Minuit(closed_form, s0)
                m2.errordef = 1.0
                m2.errors = steps
                m2.tol = 0.01
                m2.strategy = 1
                m2.migrad(ncall=6000); m2.hesse()
                d2 = np.abs(np.array(m2.covariance, dtype=float) - Cf) / norm[np.ix_(fr, fr)]
                worst2 = max(worst2, float(d2.max()))
            ctx._count("explain.plain-minuit-on-closed-form-cost")
            ctx.worst["explain_plain_minuit_worst"] = max(ctx.worst.get("explain_plain_minuit_worst", 0.0), worst2)
            if worst2 > max(0.5 * ctol, float(dev.max()) / 3.0):
                skip_cov = True
                ctx.discard("covariance-comparison: plain Minuit2 (kafe2's settings) misses the closed form by a comparable amount on this problem")
        except Exception:
            ctx._count("explain.plain-minuit-failed")
    ctol_sd = ctol
    if skip_cov:
        ctol = float("inf")
    ctx.check("parameter_cov_mat", bool(np.all(dev <= ctol)), lambda: {"got": cm, "expected": g["cov"], "max_normalised_deviation": float(dev.max()), "tolerance": ctol, "cond": g["condH"]}, key=skey)
    pe = np.array(fit.parameter_errors, dtype=float)
    ctx.check("parameter_errors", bool(np.all(np.abs(pe - sig) <= ctol * sig_safe)), lambda: {"got": pe, "expected": sig, "tolerance": ctol}, key=skey)
    ctx.close("parameter_errors.sqrt-diag", pe, np.sqrt(np.diag(cm)), tol=Tol.custom("DEF", max(1e-3, ctol_sd), 1e-14), key=skey)
    cor = fit.parameter_cor_mat
    if cor is not None and len(free) >= 1:
        cor = np.array(cor, dtype=float)
        exp_cor = g["cov"] / norm
        sub = np.ix_(free, free)
        ctx.check("parameter_cor_mat", bool(np.all(np.abs(cor[sub] - exp_cor[sub]) <= ctol)), lambda: {"got": cor, "expected": exp_cor, "tolerance": ctol}, key=skey)
    gof = fit.goodness_of_fit
    ctx.check("goodness_of_fit", gof is not None and abs(gof - g["chi2"]) <= chi2tol, lambda: {"got": gof, "expected": g["chi2"]}, key=skey)
    cv = float(fit.cost_function_value)
    ctx.check("cost_function_value", abs(cv - (g["chi2"] + g["logdet"])) <= chi2tol, lambda: {"got": cv, "expected": g["chi2"] + g["logdet"], "chi2": g["chi2"], "logdet": g["logdet"]}, key=skey)
    # members of a multi-fit report the sub-blocks (C11 checks this in depth; here only values)
    if case.get("asym"):
        try:
            ae = fit.asymmetric_parameter_errors
        except Exception:
            ctx.violation(None, "asymmetric_parameter_errors.no-exception", {"traceback": fmt_exc()})
            return nontrivial
        if ae is not None:
            ae = np.array(ae, dtype=float)
            exp = np.stack([-sig, sig], axis=1)
            ok = bool(np.all(np.abs(ae - exp)[free] <= max(ptol, ctol) * sig_safe[free][:, None]))
            ctx.check("asymmetric_parameter_errors", ok, lambda: {"got": ae, "expected": exp, "sigma": sig}, key=skey)
            # the query must not have moved the fit (C08 in depth)
            pv2 = np.array(fit.parameter_values, dtype=float)
            ctx.check("parameter_values.after-asymmetric", bool(np.all(np.abs(pv2 - g["p"])[free] <= ptol * sig[free])), lambda: {"got": pv2, "expected": g["p"], "sigma": sig}, key=skey)
    return nontrivial


def run_shard(ctx):
    idx = 0
    while ctx.more():
        case = gen_case(ctx.rng, ctx.tier, idx, ctx.shard, ctx.nshards)
        idx += 1
        ctx.begin_case(case)
        nontrivial = False
        try:
            nontrivial = run_case(ctx, case)
        except Exception:
            ctx.violation(None, "unexpected-exception", {"traceback": fmt_exc()})
        ctx.end_case(nontrivial=nontrivial)


def replay(ctx, case):
    ctx.begin_case(case)
    try:
        run_case(ctx, case)
    except Exception:
        ctx.violation(None, "unexpected-exception", {"traceback": fmt_exc()})
    ctx.end_case(nontrivial=True)
