"""C16 — confidence level / sigma conversions are exact inverses matching chi2 quantiles.

Shape: (a) pure-function monitor of `ConfidenceLevel` against a 50-digit mpmath reference (regularised
lower incomplete gamma, independent of scipy) over an exhaustive (n, sigma) and (n, cl) grid that is
split across the shards, plus random points, the named one-dimensional values and random setter
histories on one instance; (b) interception monitor: `iminuit.Minuit.mncontour` is wrapped (class
attribute patch from the harness) and the `cl=` that `MinimizerIMinuit.contour(sigma=s)` really hands
over is compared with 1 - exp(-s^2/2), directly and through `ContoursProfiler.get_contours`;
(c) arrow monitor: `fit._fitter.profile(par, low, high, None, cl, size, subtract_min, arrows=True)` on
general-linear least-squares problems, whose profile is an exact parabola, so the documented positions
(central interval: p_hat -+ sigma_1(c) sigma_p with (1-c)/2 outside on each side; one-sided limit:
p_hat +- sigma_1(2c-1) sigma_p with 1-c outside; fixed low/high: tail probability of the rise there)
are known in closed form from a numpy GLS reference and mpmath.
An icontract postcondition on the two conversion routines watches every `ConfidenceLevel` instance
kafe2 itself creates while (b) and (c) run.
"""
import math

import mpmath as mp
import numpy as np

from kafe2.core.confidence import ConfidenceLevel
from vlib.monitor import OpTimeout, Tol, fmt_exc, time_limit

PROPERTY = "C16"
TIERS = {"quick": {"shards": 4, "budget_s": 20}, "thorough": {"shards": 16, "budget_s": 200}}
RULE = (
    "grid blocks: n in 1..20 x 400-point log grid of sigma over (1e-3, 8] and n x 400-point logit grid of cl over "
    "(1e-12, 1-1e-12), 50 consecutive grid points per case, all blocks split across the shards (exhaustive); then random "
    "cases: 25 random sigma / cl points (n <= 20, sometimes n <= 200), setter words on one instance, iminuit contour "
    "interception, profile arrows (iminuit / scipy x central / one-sided / fixed low,high x scalar / list x subtract_min). "
    "non-trivial = a point case with >= 1 point whose reference cl lies strictly inside (1e-12, 1-1e-12); a setter word in "
    "which a read follows a set of another quantity; a fit case in which >= 1 passed-on level or arrow was compared; "
    "distinct by hash of the case"
)
ASSUMPTIONS = [
    "reference: mpmath.gammainc(n/2, 0, s^2/2, regularized=True) and mpmath.erfinv at 50 digits",
    "tolerances (DESIGN.md C16): |cl-ref| <= 5e-14 abs and <= 1e-9 rel where cl >= 1e-4; sigma(cl(s)) = s within 8 eps/(dcl/ds) + 1e-12 s; "
    "cl(sigma(c)) = c within 5e-14; strict monotonicity asserted only for pairs whose mathematical cl difference exceeds 1e-13",
    "arrow positions are compared with the closed-form parabola of a general-linear Gaussian fit within 2e-2 sigma_p (minimiser tolerance); "
    "fits whose optimum is further than 1e-2 sigma from the GLS solution are discarded (that is C05's subject)",
    "only arrows=True is exercised (the documented way to obtain arrow specifications); the default levels used when cl is None and "
    "one-sided cl <= 0.5 are recorded as notes, not judged; the scipy backend's contour level is a local variable and is not observed here",
]
ANCHORS = [
    ("kafe2.core.confidence", "ConfidenceLevel._calc_sigma_from_cl"),
    ("kafe2.core.confidence", "ConfidenceLevel._calc_cl_from_sigma"),
    ("kafe2.core.confidence", "ConfidenceLevel.cl"),
    ("kafe2.core.confidence", "ConfidenceLevel.sigma"),
    ("kafe2.core.confidence", "ConfidenceLevel.delta_nll"),
    ("kafe2.core.confidence", "ConfidenceLevel.ndim"),
    ("kafe2.core.minimizers.minimizer_base", "MinimizerBase._get_arrow_specs"),
    ("kafe2.core.minimizers.minimizer_base", "MinimizerBase._get_profile_bound"),
    ("kafe2.core.minimizers.minimizer_base", "MinimizerBase._find_cost_cut"),
    ("kafe2.core.minimizers.iminuit_minimizer", "MinimizerIMinuit.contour"),
    ("kafe2.core.minimizers.iminuit_minimizer", "MinimizerIMinuit.profile"),
    ("kafe2.core.minimizers.scipy_optimize_minimizer", "MinimizerScipyOptimize.profile"),
    ("kafe2.fit.tools.contours_profiler", "ContoursProfiler.get_contours"),
    ("kafe2.fit.tools.contours_profiler", "ContoursProfiler._get_profile"),
]

NGRID = 400
BLOCK = 50
NDIM_MAX = 20
ARROW_MODES = ["central", "low+cl", "high+cl", "low+high", "low", "high"]
BACKENDS = ["iminuit", "scipy"]
RANDOM_FACTOR = 25  # thorough: random points per grid point and map (2 maps x 25 x 8000 = 50 x the 10^4-evaluation grid of DESIGN.md)


def n_grid_blocks():
    return 2 * NDIM_MAX * (NGRID // BLOCK)


def floors(tier):
    npts = NDIM_MAX * NGRID
    k = 1 if tier == "quick" else 1 + RANDOM_FACTOR
    return {
        "comparisons": {
            "cl.forward-abs": npts * k,
            "cl.forward-rel": npts * k // 4,
            "sigma.inverse-of-cl": npts * k // 3,
            "cl.of-sigma-of-cl": npts * k,
            "sigma.of-cl-vs-reference": npts * k,
            "monotone.cl-in-sigma": npts * k // 4,
            "monotone.sigma-in-cl": npts * k // 2,
            "delta_nll": 2 * npts * k,
            "delta_nll.constructor": npts * k,
            "named.one-dimensional": 6,
            "cl.two-dimensional-closed-form": 100,
            "setters.read": 200,
            "setters.after-ndim-change": 4,
            "contour.cl-passed-to-mncontour": 12,
            "contour.profiler-cl-passed": 4,
            "contour.profiler-label-cl": 4,
            "arrow.count-and-sides": 24,
            "arrow.position": 40,
            "arrow.outside-probability": 40,
            "arrow.rise": 40,
            "arrow.rise-at-fixed-bound": 16,
            "arrow.level-of-fixed-bound": 16,
            "profile.range-covers-interval": 24,
            "contract.internal-instances": 100,
        },
        "ops": ["sigma-grid", "cl-grid", "sigma-points", "cl-points", "named", "setters", "contour", "contour-profiler", "arrows", "set_sigma", "set_cl", "set_delta_nll", "set_ndim", "get_cl", "get_sigma", "get_delta_nll"],
        "reach": ["%s:%s" % a for a in ANCHORS],
        "strata": ["arrows|%s|%s" % (b, m) for b in BACKENDS for m in ARROW_MODES] + ["arrows|via-profiler", "arrows|cl-list", "arrows|subtract_min", "points|n>20", "setters|cached-conversion-then-ndim"],
        "sets": {"grid-blocks": n_grid_blocks()},
        "distinct_nontrivial": 300 if tier == "quick" else 3000,
    }


# ------------------------------------------------------------------ reference (mpmath, 50 digits)
mp.mp.dps = 50
EPS = 2.220446049250313e-16
ABS_CL = 5e-14
REL_CL = 1e-9


def ref_cl(n, s):
    """P(n/2, s^2/2): chi2 cdf with n degrees of freedom at s^2 (mpf)."""
    return mp.gammainc(mp.mpf(n) / 2, 0, mp.mpf(s) ** 2 / 2, regularized=True)


def ref_dcl(n, s):
    """d cl / d s = s x^(a-1) e^(-x) / Gamma(a) with a = n/2, x = s^2/2 (mpf): conditioning of the inverse map."""
    s = mp.mpf(s)
    a = mp.mpf(n) / 2
    x = s * s / 2
    return s * mp.exp((a - 1) * mp.log(x) - x - mp.loggamma(a))


def ref_sigma1(c):
    """one-dimensional sigma of a central confidence level c (float)."""
    return float(mp.sqrt(2) * mp.erfinv(mp.mpf(c)))


def ref_tail1(rise):
    """probability outside one side of the one-dimensional interval whose cost rise is `rise` (float)."""
    return float((1 - ref_cl(1, mp.sqrt(mp.mpf(rise)))) / 2)


def sigma_grid(i):
    return 1e-3 * (8.0 / 1e-3) ** ((i + 1) / NGRID)


def cl_grid(j):
    t = -27.6 + 55.2 * j / (NGRID - 1)
    return 1.0 / (1.0 + math.exp(-t)) if t < 0 else 1.0 - 1.0 / (1.0 + math.exp(t))


# ------------------------------------------------------------------ harness-side monitors on third-party / kafe2 classes
STATE = {"installed": False, "contract": False, "ctx": None, "mncontour": []}


class ContractViolation(Exception):
    pass


def post_cl_from_sigma(self):
    if not STATE["contract"]:
        return True
    STATE["ctx"]._count("contract.internal-instances")
    STATE["ctx"].add_to_set("internal-instances", "n=%d sigma->cl" % self._ndim)
    return abs(mp.mpf(self._cl) - ref_cl(self._ndim, self._sigma)) <= ABS_CL


def post_sigma_from_cl(self):
    if not STATE["contract"]:
        return True
    STATE["ctx"]._count("contract.internal-instances")
    STATE["ctx"].add_to_set("internal-instances", "n=%d cl->sigma" % self._ndim)
    s = float(self._sigma)
    if not (s > 0 and math.isfinite(s)):
        return False
    return abs(ref_cl(self._ndim, s) - mp.mpf(self._cl)) <= ABS_CL + 4 * EPS * s * ref_dcl(self._ndim, s)


def contract_error(self):
    return ContractViolation("ConfidenceLevel(ndim=%r) holds cl=%r, sigma=%r which are not chi2-consistent" % (self._ndim, self._cl, self._sigma))


def install(ctx):
    """Attach the monitors from outside (never edits /repo). Called after the reach counters were installed, so the
    anchors resolve to the original code objects."""
    STATE["ctx"] = ctx
    if STATE["installed"]:
        return
    STATE["installed"] = True
    try:
        import icontract

        ConfidenceLevel._calc_cl_from_sigma = icontract.ensure(post_cl_from_sigma, error=contract_error)(ConfidenceLevel._calc_cl_from_sigma)
        ConfidenceLevel._calc_sigma_from_cl = icontract.ensure(post_sigma_from_cl, error=contract_error)(ConfidenceLevel._calc_sigma_from_cl)
        STATE["icontract"] = True
    except ImportError:
        STATE["icontract"] = False
    import iminuit

    orig = iminuit.Minuit.mncontour

    def mncontour(self, *args, **kwargs):
        STATE["mncontour"].append({"args": [repr(a) for a in args], "cl": kwargs.get("cl", "absent"), "size": kwargs.get("size"), "kwargs": sorted(kwargs)})
        return orig(self, *args, **kwargs)

    mncontour.__wrapped__ = orig
    iminuit.Minuit.mncontour = mncontour


class internal_contract:
    def __enter__(self):
        STATE["contract"] = True

    def __exit__(self, *exc):
        STATE["contract"] = False
        return False


# ------------------------------------------------------------------ (a) pure function
def nviol(ctx):
    return len(ctx.witnesses) + sum(ctx._wit_per_key.values())


def run_sigma_points(ctx, n, sigmas):
    """forward map, inverse of it, delta_nll, monotonicity on consecutive (sorted) points."""
    informative = False
    prev = None
    for s in sigmas:
        s = float(s)
        r = ref_cl(n, s)
        d = float(ref_dcl(n, s))
        obj = ConfidenceLevel(n, sigma=s)
        c = obj.cl
        rf = float(r)
        if 1e-12 < rf < 1 - 1e-12:
            informative = True
        err = float(abs(mp.mpf(c) - r)) if isinstance(c, float) and math.isfinite(c) else float("inf")
        det = {"n": n, "sigma": s, "cl": c, "reference": rf, "abs_err": err}
        ctx.check("cl.forward-abs", err <= ABS_CL, det)
        if rf >= 1e-4:
            ctx.check("cl.forward-rel", err <= REL_CL * rf, det)
        if n == 2:
            ctx.check("cl.two-dimensional-closed-form", abs(c - (-math.expm1(-0.5 * s * s))) <= ABS_CL, det)
        ctx.close("delta_nll", obj.delta_nll, s * s, Tol.ULP, detail={"n": n, "sigma": s})
        o2 = ConfidenceLevel(n, delta_nll=s * s)
        ctx.close("delta_nll.constructor", [o2.sigma, o2.delta_nll], [s, s * s], Tol.custom("4ULP", 1e-15 * 4, 0.0), detail={"n": n, "delta_nll": s * s})
        if isinstance(c, float) and 0.0 < c < 1.0:
            s2 = ConfidenceLevel(n, cl=c).sigma
            bound = 8 * EPS / d + 1e-12 * s if d > 0 else float("inf")
            ok = isinstance(s2, float) and abs(s2 - s) <= bound
            ctx.check("sigma.inverse-of-cl", ok, {"n": n, "sigma": s, "cl": c, "sigma_back": s2, "bound": bound, "dcl_ds": d})
            if ok and math.isfinite(bound):
                ctx.worst["sigma.inverse-of-cl (fraction of bound)"] = max(ctx.worst.get("sigma.inverse-of-cl (fraction of bound)", 0.0), abs(s2 - s) / bound)
        else:
            ctx.note("forward cl is exactly 0.0 or 1.0 in double precision (inverse not applicable)")
        if prev is not None and s > prev[0] and float(r - prev[2]) > 1e-13:
            ctx.check("monotone.cl-in-sigma", c > prev[1], {"n": n, "sigma_lo": prev[0], "sigma_hi": s, "cl_lo": prev[1], "cl_hi": c})
        prev = (s, c, r)
    return informative


def run_cl_points(ctx, n, cls):
    informative = False
    prev = None
    for c in cls:
        c = float(c)
        obj = ConfidenceLevel(n, cl=c)
        s = obj.sigma
        if 1e-12 < c < 1 - 1e-12:
            informative = True
        good = isinstance(s, float) and s > 0 and math.isfinite(s)
        if good:
            r = ref_cl(n, s)
            d = ref_dcl(n, s)
            err = float(abs(r - mp.mpf(c)))
            tol = ABS_CL + float(4 * EPS * s * d)
        else:
            err, tol = float("inf"), ABS_CL
        ctx.check("sigma.of-cl-vs-reference", good and err <= tol, {"n": n, "cl": c, "sigma": s, "cl_of_sigma_reference": float(r) if good else None, "abs_err": err, "tol": tol})
        if not good:
            prev = None
            continue
        c2 = ConfidenceLevel(n, sigma=s).cl
        ctx.check("cl.of-sigma-of-cl", abs(c2 - c) <= ABS_CL, {"n": n, "cl": c, "sigma": s, "cl_back": c2})
        ctx.close("delta_nll", obj.delta_nll, s * s, Tol.ULP, detail={"n": n, "cl": c})
        if prev is not None and c - prev[0] > 1e-13:
            ctx.check("monotone.sigma-in-cl", s > prev[1], {"n": n, "cl_lo": prev[0], "cl_hi": c, "sigma_lo": prev[1], "sigma_hi": s})
        prev = (c, s)
    return informative


NAMED = [(1.0, 0.6827), (2.0, 0.9545), (3.0, 0.9973)]


def run_named(ctx):
    for k, q in NAMED:
        c = ConfidenceLevel(1, sigma=k).cl
        ctx.check("named.one-dimensional", abs(c - q) <= 0.5e-4, {"sigma": k, "cl": c, "quoted": q, "direction": "sigma->cl"})
        s = ConfidenceLevel(1, cl=q).sigma
        # the quoted level is rounded to four digits: half a unit of the last digit, divided by the slope
        tol = 0.5e-4 / float(ref_dcl(1, k))
        ctx.check("named.one-dimensional", abs(s - k) <= tol, {"sigma": s, "cl": q, "expected_sigma": k, "tol": tol, "direction": "cl->sigma"})
        # default dimension is one
        ctx.check("named.one-dimensional", abs(ConfidenceLevel(sigma=k).cl - q) <= 0.5e-4, {"sigma": k, "direction": "default n_dimensions"})
    return True


# ---- setter histories on one instance
def run_setters(ctx, case):
    n = case["n"]
    word = case["word"]
    first = word[0]
    obj = ConfidenceLevel(n, **{first[0][4:]: first[1]})
    # reference state: which quantity was set last and to what
    state = {"n": n, "kind": first[0][4:], "value": float(first[1])}
    read_cached = set()
    nontrivial = False
    ctx.op(first[0])
    for k, op in enumerate(word[1:], start=1):
        name = op[0]
        ctx.op(name)
        before = nviol(ctx)
        if name in ("set_sigma", "set_cl", "set_delta_nll"):
            setattr(obj, name[4:], op[1])
            state.update(kind=name[4:], value=float(op[1]))
            read_cached = set()
        elif name == "set_ndim":
            cached = set(read_cached)
            obj.ndim = op[1]
            old_n = state["n"]
            state["n"] = op[1]
            # whichever quantity the object keeps, cl and sigma must belong together under the new dimension
            s, c = obj.sigma, obj.cl
            both_cached = {"cl", "sigma"} <= (cached | {"sigma" if state["kind"] != "cl" else "cl"})
            if both_cached and old_n != op[1]:
                ctx.stratum("setters", "cached-conversion-then-ndim")
            ok = isinstance(s, float) and s > 0 and abs(ref_cl(op[1], s) - mp.mpf(c)) <= ABS_CL + 4 * EPS * s * ref_dcl(op[1], s)

            def key(s=s, c=c, old_n=old_n, new_n=op[1], both=both_cached):
                # mechanism: the conversion cached under the old dimension is still served after ndim changed
                if both and old_n != new_n and abs(ref_cl(old_n, s) - mp.mpf(c)) <= ABS_CL + 4 * EPS * s * ref_dcl(old_n, s):
                    return "C16/ndim-setter-keeps-conversion-of-old-dimension"
                return None

            ctx.check(
                "setters.after-ndim-change",
                ok,
                lambda: {"op_index": k, "op": op, "old_ndim": old_n, "sigma": s, "cl": c, "cl_expected_for_this_sigma": float(ref_cl(op[1], s)), "cl_under_old_ndim": float(ref_cl(old_n, s))},
                key=key,
            )
            state.update(kind="sigma", value=float(s))
            read_cached = {"cl", "sigma"}
        else:
            q = name[4:]
            got = getattr(obj, q)
            read_cached.add("sigma" if q == "delta_nll" else q)
            if q != ("sigma" if state["kind"] == "delta_nll" else state["kind"]):
                nontrivial = True
            exp_ok, det = setter_read_ok(state, q, got)
            ctx.check("setters.read", exp_ok, lambda: dict(det, op_index=k, op=op, state=dict(state)))
        if nviol(ctx) != before:
            break
    return nontrivial


def setter_read_ok(state, q, got):
    n, kind, v = state["n"], state["kind"], state["value"]
    if not (isinstance(got, float) and math.isfinite(got)):
        return False, {"got": got}
    if kind == "cl":
        if q == "cl":
            return got == v, {"got": got, "expected": v, "tolerance": "EXACT"}
        s = got if q == "sigma" else math.sqrt(got)
        if not s > 0:
            return False, {"got": got}
        err = float(abs(ref_cl(n, s) - mp.mpf(v)))
        tol = ABS_CL + float(4 * EPS * s * ref_dcl(n, s)) * (1 if q == "sigma" else 2)
        return err <= tol, {"got": got, "cl_set": v, "reference_cl_of_got": float(ref_cl(n, s)), "abs_err": err, "tol": tol}
    s = v if kind == "sigma" else math.sqrt(v)
    if q == "sigma":
        return (got == s) if kind == "sigma" else abs(got - s) <= 4 * EPS * s, {"got": got, "expected": s}
    if q == "delta_nll":
        e = s * s if kind == "sigma" else v
        return abs(got - e) <= 8 * EPS * e, {"got": got, "expected": e}
    r = ref_cl(n, s)
    err = float(abs(mp.mpf(got) - r))
    tol = ABS_CL + (float(4 * EPS * s * ref_dcl(n, s)) if kind == "delta_nll" else 0.0)
    return err <= tol, {"got": got, "reference": float(r), "abs_err": err, "tol": tol}


# ------------------------------------------------------------------ (b), (c): small general-linear fits
def line(x, a, b):
    return a * x + b


def parabola(x, a, b, c):
    return a * x**2 + b * x + c


MODELS = {"line": (line, ["a", "b"], lambda x: np.stack([x, np.ones_like(x)], axis=1)), "parabola": (parabola, ["a", "b", "c"], lambda x: np.stack([x**2, x, np.ones_like(x)], axis=1))}


def gls(case):
    x = np.asarray(case["x"], dtype=float)
    y = np.asarray(case["y"], dtype=float)
    e = np.broadcast_to(np.asarray(case["yerr"], dtype=float), x.shape)
    A = MODELS[case["model"]][2](x)
    W = 1.0 / e**2
    H = A.T @ (A * W[:, None])
    C = np.linalg.inv(H)
    p = C @ (A.T @ (W * y))
    return p, C


def build_fit(ctx, case):
    from kafe2 import XYFit

    ctx.reseed_legacy()
    f = XYFit([np.asarray(case["x"], dtype=float), np.asarray(case["y"], dtype=float)], MODELS[case["model"]][0], minimizer=case["backend"])
    f.add_error("y", case["yerr"])
    f.do_fit()
    p, C = gls(case)
    sig = np.sqrt(np.diag(C))
    if not np.all(np.abs(np.asarray(f.parameter_values) - p) <= 1e-2 * sig):
        ctx.discard("fit optimum further than 1e-2 sigma from the GLS solution")
        return None, p, sig
    return f, p, sig


def gen_data(rng, model):
    n = int(rng.integers(5, 9)) if model == "parabola" else int(rng.integers(4, 9))
    x = np.arange(1.0, n + 1.0)
    if rng.random() < 0.5:
        x = x + rng.uniform(-0.3, 0.3, size=n)
    if rng.random() < 0.5:
        yerr = float(np.round(rng.uniform(0.1, 1.0), 3))
        e = np.full(n, yerr)
    else:
        e = np.round(rng.uniform(0.1, 1.0, size=n), 3)
        yerr = [float(v) for v in e]
    pars = rng.uniform(-2, 2, size=3)
    y = (pars[0] * x + pars[1]) if model == "line" else (0.3 * pars[0] * x**2 + pars[1] * x + pars[2])
    y = y + rng.normal(size=n) * e
    return {"x": [float(np.round(v, 4)) for v in x], "y": [float(np.round(v, 4)) for v in y], "yerr": yerr}


def run_contour(ctx, case):
    """the cl handed to Minuit.mncontour for an s-sigma contour must be the two-dimensional 1 - exp(-s^2/2)"""
    f, p, sig = build_fit(ctx, case)
    if f is None:
        return False
    p1, p2 = case["pars"]
    compared = False
    if case["via"] == "fitter":
        for s in case["sigmas"]:
            del STATE["mncontour"][:]
            with time_limit(30.0):
                cont = f._fitter.contour(p1, p2, sigma=s, numpoints=case["numpoints"])
            rec = list(STATE["mncontour"])
            exp = float(-mp.expm1(-mp.mpf(s) ** 2 / 2))
            ok = len(rec) == 1 and isinstance(rec[0]["cl"], float) and abs(rec[0]["cl"] - exp) <= 1e-12
            ctx.check("contour.cl-passed-to-mncontour", ok, lambda: {"sigma": s, "expected_cl": exp, "one_dimensional_cl_of_sigma": float(ref_cl(1, s)), "mncontour_calls": rec})
            compared = True
            if cont is not None:
                ctx.eq("contour.sigma-attribute", float(cont.sigma), float(s))
    else:
        from kafe2.fit.tools.contours_profiler import ContoursProfiler

        cp = ContoursProfiler(f, contour_sigma_values=tuple(case["sigmas"]), contour_method_kwargs={"numpoints": case["numpoints"]})
        del STATE["mncontour"][:]
        with time_limit(60.0):
            out = cp.get_contours(p1, p2)
        rec = list(STATE["mncontour"])
        exp = [float(-mp.expm1(-mp.mpf(s) ** 2 / 2)) for s in case["sigmas"]]
        got = [r["cl"] for r in rec]
        ok = len(got) == len(exp) and all(isinstance(g, float) and abs(g - e) <= 1e-12 for g, e in zip(got, exp))
        ctx.check("contour.profiler-cl-passed", ok, lambda: {"sigmas": case["sigmas"], "expected_cl": exp, "mncontour_calls": rec})
        # the ConfidenceLevel objects returned next to the contours label them: 2-dimensional, same sigma, same cl
        lab = [(o.ndim, float(o.sigma), float(o.cl)) for o, _ in out]
        ok = len(lab) == len(exp) and all(nd == 2 and sg == float(s) and abs(c - e) <= ABS_CL for (nd, sg, c), s, e in zip(lab, case["sigmas"], exp))
        ctx.check("contour.profiler-label-cl", ok, lambda: {"sigmas": case["sigmas"], "expected_cl": exp, "labels(ndim,sigma,cl)": lab})
        compared = True
    return compared


def arrow_call_args(case, p_hat, sig_p):
    low = [p_hat - u * sig_p for u in case["low_u"]] if case.get("low_u") else None
    high = [p_hat + u * sig_p for u in case["high_u"]] if case.get("high_u") else None
    cl = list(case["cl"]) if case.get("cl") else None
    if case.get("scalar"):
        low = low[0] if low and len(low) == 1 else low
        high = high[0] if high and len(high) == 1 else high
        cl = cl[0] if cl and len(cl) == 1 else cl
    return low, high, cl


def run_arrows(ctx, case):
    f, p, sig = build_fit(ctx, case)
    if f is None:
        return False
    names = MODELS[case["model"]][1]
    i = names.index(case["par"])
    p_hat, sig_p = float(p[i]), float(sig[i])
    low, high, cl = arrow_call_args(case, p_hat, sig_p)
    sub = bool(case["subtract_min"])
    min_cost = float(f.cost_function_value)
    base = 0.0 if sub else min_cost
    with time_limit(60.0):
        if case["via"] == "profiler":
            from kafe2.fit.tools.contours_profiler import ContoursProfiler

            ctx.stratum("arrows", "via-profiler")
            prof, arrows = ContoursProfiler(f)._get_profile(case["par"], low, high, None, cl, case["size"], sub, arrows=True)
        else:
            prof, arrows = f._fitter.profile(case["par"], low, high, None, cl, case["size"], sub, True)
    mode = case["mode"]
    ctx.stratum("arrows", case["backend"], mode)
    if sub:
        ctx.stratum("arrows", "subtract_min")
    if case.get("cl") and len(case["cl"]) > 1:
        ctx.stratum("arrows", "cl-list")
    arrows = [dict(a) for a in (arrows or [])]
    left = [a for a in arrows if a.get("side") == "left"]
    right = [a for a in arrows if a.get("side") == "right"]
    cls = list(case.get("cl") or [])
    lows = [p_hat - u * sig_p for u in case.get("low_u") or []]
    highs = [p_hat + u * sig_p for u in case.get("high_u") or []]

    # expected arrows per side: ("fixed", x) or ("level", c_given, outside, sigma_eff)
    def level(c, one_sided):
        if one_sided:
            return ("level", c, 1.0 - c, ref_sigma1(2 * mp.mpf(c) - 1))
        return ("level", c, (1.0 - c) / 2, ref_sigma1(c))

    exp_left = [("fixed", v) for v in lows] if lows else [level(c, bool(highs)) for c in cls]
    exp_right = [("fixed", v) for v in highs] if highs else [level(c, bool(lows)) for c in cls]
    # with cl None and a bound given, kafe2 adds default levels on the open side: not documented -> not counted
    open_default = not cls
    det0 = {"mode": mode, "backend": case["backend"], "p_hat": p_hat, "sigma_p": sig_p, "min_cost": min_cost, "subtract_min": sub, "arrows": arrows}
    ok_count = len(arrows) == len(left) + len(right)
    for side, exp, got, other_fixed in (("left", exp_left, left, bool(lows)), ("right", exp_right, right, bool(highs))):
        if open_default and not other_fixed:
            ctx.note("default levels on the open side (cl=None): %d arrows" % len(got))
            continue
        ok_count = ok_count and len(exp) == len(got)
    ctx.check("arrow.count-and-sides", ok_count, lambda: dict(det0, expected_left=exp_left, expected_right=exp_right))
    if not ok_count:
        return True

    def scipy_slot_key(a, exp_rise):
        # mechanism: MinimizerScipyOptimize.profile passes `arrows` in the subtract_min slot of _get_profile_bound, so with
        # arrows=True the arrow's y has the minimum subtracted although the returned profile has not
        def key():
            if case["backend"] == "scipy" and not sub and abs(min_cost) > 1e-2 and abs(float(a["y"]) - exp_rise) <= 2e-3 + 1e-3 * exp_rise + 4e-2 * 2 * math.sqrt(exp_rise):
                return "C16/scipy-profile-passes-arrows-as-subtract-min"
            return None

        return key

    sgn = {"left": -1.0, "right": 1.0}
    xs_expected = []
    for side, exp, got in (("left", exp_left, left), ("right", exp_right, right)):
        if not exp or (open_default and exp[0][0] != "fixed"):
            # default levels (which ones is not documented): still, every arrow must carry the probability that lies
            # beyond its own position, i.e. the one-dimensional conversion of the reference rise there
            exp = []
            for a in got:
                x, c = float(a["x"]), float(a["cl"])
                u = abs(x - p_hat) / sig_p
                if u > 1e-3:
                    dtail = float(ref_dcl(1, u)) / 2  # |d tail / d u|
                    ctx.check("arrow.default-level-matches-position", abs(c - ref_tail1(u * u)) <= 1e-9 + dtail * 2e-2, lambda: dict(det0, side=side, arrow=a, tail_probability_at_x=ref_tail1(u * u)))
        fixed = [e for e in exp if e[0] == "fixed"]
        levels = [e for e in exp if e[0] == "level"]
        if fixed:
            got_s = sorted(got, key=lambda a: float(a["x"]))
            for e, a in zip(sorted(fixed, key=lambda e: e[1]), got_s):
                x, y, c = float(a["x"]), float(a["y"]), float(a["cl"])
                det = dict(det0, side=side, arrow=a, expected_x=e[1])
                ctx.eq("arrow.x-of-fixed-bound", x, float(e[1]), detail=det)
                rise_ref = ((x - p_hat) / sig_p) ** 2
                rise = y - base
                if ctx.check("arrow.rise-at-fixed-bound", abs(rise - rise_ref) <= 2e-3 + 1e-3 * rise_ref, lambda: dict(det, rise=rise, reference_rise=rise_ref), key=scipy_slot_key(a, rise_ref)):
                    ctx.worst["arrow.rise-at-fixed-bound"] = max(ctx.worst.get("arrow.rise-at-fixed-bound", 0.0), abs(rise - rise_ref))
                # the level shown at a given bound is the probability beyond it: the one-dimensional conversion of its rise
                tail_ref = ref_tail1(rise_ref)
                dtail = float(ref_dcl(1, math.sqrt(rise_ref))) / (4 * math.sqrt(rise_ref))  # |d tail / d rise|
                ctx.check("arrow.level-of-fixed-bound", abs(c - tail_ref) <= 1e-9 + dtail * (2e-3 + 1e-3 * rise_ref), lambda: dict(det, expected_outside=tail_ref))
                xs_expected.append(x)
        if levels:
            got_s = sorted(got, key=lambda a: -float(a["cl"]))
            for e, a in zip(sorted(levels, key=lambda e: -e[2]), got_s):
                _, c_given, outside, s_eff = e
                x, y, c = float(a["x"]), float(a["y"]), float(a["cl"])
                x_exp = p_hat + sgn[side] * s_eff * sig_p
                det = dict(det0, side=side, arrow=a, cl_given=c_given, expected_outside=outside, expected_sigma=s_eff, expected_x=x_exp)
                ctx.check("arrow.outside-probability", abs(c - outside) <= 1e-12, det)
                if ctx.check("arrow.position", abs(x - x_exp) <= 2e-2 * sig_p, lambda: dict(det, deviation_in_sigma_p=(x - x_exp) / sig_p)):
                    ctx.worst["arrow.position (sigma_p)"] = max(ctx.worst.get("arrow.position (sigma_p)", 0.0), abs(x - x_exp) / sig_p)
                ctx.check("arrow.rise", abs((y - base) - s_eff**2) <= 1e-6 * max(1.0, abs(min_cost)) + 1e-9 * s_eff**2, lambda: dict(det, rise=y - base, expected_rise=s_eff**2), key=scipy_slot_key(a, s_eff**2))
                xs_expected.append(x_exp)
    if xs_expected:
        lo, hi = float(np.min(prof[0])), float(np.max(prof[0]))
        ctx.check(
            "profile.range-covers-interval",
            lo <= min(xs_expected) + 2e-2 * sig_p and hi >= max(xs_expected) - 2e-2 * sig_p,
            lambda: dict(det0, profile_range=[lo, hi], needed=[min(xs_expected), max(xs_expected)]),
        )
    return bool(xs_expected)


# ------------------------------------------------------------------ case generation
def gen_points(rng, tier, kind):
    npts = 25 if tier == "quick" else 60
    big = rng.random() < 0.1
    n = int(rng.integers(21, 201)) if big else int(rng.integers(1, NDIM_MAX + 1))
    if kind == "sigma-points":
        v = np.sort(np.exp(rng.uniform(math.log(1e-3), math.log(8.0), size=npts)))
        if rng.random() < 0.3:  # a cluster of close points: monotonicity where differences are small
            c0 = float(np.exp(rng.uniform(math.log(0.05), math.log(6.0))))
            v = np.sort(np.clip(c0 * (1 + rng.uniform(-1e-6, 1e-6, size=npts) * 10 ** rng.uniform(0, 5)), 1.0001e-3, 8.0))
        return {"kind": kind, "n": n, "sigma": [float(x) for x in v]}
    t = np.sort(rng.uniform(-27.6, 27.6, size=npts))
    v = sorted(set(cl_grid_t(float(x)) for x in t))
    return {"kind": kind, "n": n, "cl": v}


def cl_grid_t(t):
    return 1.0 / (1.0 + math.exp(-t)) if t < 0 else 1.0 - 1.0 / (1.0 + math.exp(t))


def rand_sigma(rng):
    return float(np.exp(rng.uniform(math.log(1e-2), math.log(6.0))))


def rand_cl(rng):
    return cl_grid_t(float(rng.uniform(-20, 20)))


def gen_setters(rng, forced=False):
    n = int(rng.integers(1, NDIM_MAX + 1))
    sets = ["set_sigma", "set_cl", "set_delta_nll"]

    def a_set():
        k = sets[int(rng.integers(0, 3))]
        return [k, rand_sigma(rng) if k == "set_sigma" else rand_cl(rng) if k == "set_cl" else rand_sigma(rng) ** 2]

    gets = ["get_cl", "get_sigma", "get_delta_nll"]
    word = [a_set()]
    if forced:
        # set one quantity, read the converted one (now cached), change the dimension, read again
        word = [a_set(), ["get_cl"], ["get_sigma"], ["set_ndim", n % NDIM_MAX + 1], ["get_cl"], ["get_sigma"], ["get_delta_nll"], a_set(), ["get_cl"], ["get_sigma"], ["get_delta_nll"]]
        return {"kind": "setters", "n": n, "word": word}
    for _ in range(int(rng.integers(4, 16))):
        r = rng.random()
        if r < 0.3:
            word.append(a_set())
        elif r < 0.38:
            word.append(["set_ndim", int(rng.integers(1, NDIM_MAX + 1))])
        else:
            word.append([gets[int(rng.integers(0, 3))]])
    return {"kind": "setters", "n": n, "word": word}


def gen_contour(rng, via):
    model = "line" if rng.random() < 0.6 else "parabola"
    names = MODELS[model][1]
    i, j = [int(k) for k in rng.choice(len(names), size=2, replace=False)]
    case = {"kind": "contour", "backend": "iminuit", "model": model, "via": via, "pars": [names[i], names[j]], "numpoints": int(rng.integers(6, 16))}
    case.update(gen_data(rng, model))
    k = int(rng.integers(2, 5))
    s = [1.0, 2.0][: int(rng.integers(0, 3))] + [float(np.round(np.exp(rng.uniform(math.log(0.1), math.log(4.5))), 4)) for _ in range(k)]
    if rng.random() < 0.4:
        # the far end of the property's range (0, ~8]: 1 - exp(-s^2/2) is within 1e-8 .. 1e-14 of one there, still a float below 1
        s.append(float(np.round(rng.uniform(4.5, 8.0), 4)))
    case["sigmas"] = s
    return case


def gen_arrows(rng, backend=None, mode=None, via=None):
    backend = backend or BACKENDS[int(rng.integers(0, 2))]
    mode = mode or ARROW_MODES[int(rng.integers(0, len(ARROW_MODES)))]
    model = "line" if rng.random() < 0.6 else "parabola"
    names = MODELS[model][1]
    case = {"kind": "arrows", "backend": backend, "model": model, "mode": mode, "par": names[int(rng.integers(0, len(names)))], "via": via or ("profiler" if rng.random() < 0.2 else "fitter")}
    case.update(gen_data(rng, model))
    case["subtract_min"] = bool(rng.random() < 0.5)
    case["size"] = int(rng.integers(5, 12))
    k = 1 if rng.random() < 0.55 else int(rng.integers(2, 4))
    one_sided = mode in ("low+cl", "high+cl")

    def a_cl():
        r = rng.random()
        if r < 0.3:
            return [0.6827, 0.9, 0.95, 0.9545, 0.99, 0.9973][int(rng.integers(0, 6))]
        lo = 0.52 if one_sided else 0.02
        return float(np.round(1 - np.exp(rng.uniform(math.log(1e-4), math.log(1 - lo))), 6))

    if mode in ("central", "low+cl", "high+cl"):
        case["cl"] = sorted(set(a_cl() for _ in range(k)))
    nb = 1 if rng.random() < 0.6 else 2
    if mode in ("low+cl", "low+high", "low"):
        case["low_u"] = sorted(set(float(np.round(rng.uniform(0.1, 3.5), 3)) for _ in range(nb)))
    if mode in ("high+cl", "low+high", "high"):
        case["high_u"] = sorted(set(float(np.round(rng.uniform(0.1, 3.5), 3)) for _ in range(nb)))
    case["scalar"] = bool(rng.random() < 0.6)
    return case


def grid_cases(shard, nshards):
    """all grid blocks of this shard; consecutive blocks overlap by one point so that every neighbouring pair is compared"""
    out = []
    b = 0
    for kind in ("sigma-grid", "cl-grid"):
        for n in range(1, NDIM_MAX + 1):
            for i0 in range(0, NGRID, BLOCK):
                if b % nshards == shard:
                    out.append({"kind": kind, "n": n, "i0": i0, "i1": min(NGRID, i0 + BLOCK + 1)})
                b += 1
    return out


def stratified_cases(rng, shard, nshards):
    """one case per stratum first, spread over the shards (every shard still gets every kind)"""
    out = [{"kind": "named"}]
    out.append(gen_setters(rng, forced=True))
    out.append(gen_setters(rng))
    out.append(gen_contour(rng, "fitter"))
    out.append(gen_contour(rng, "profiler"))
    combos = [(b, m) for b in BACKENDS for m in ARROW_MODES]
    for k, (b, m) in enumerate(combos):
        # every shard runs half of the combinations, two shards together cover each of them
        if nshards == 1 or k % 2 == shard % 2:
            out.append(gen_arrows(rng, b, m, via="profiler" if k % 4 == shard % 4 else "fitter"))
    out.append(gen_points(rng, "quick", "sigma-points"))
    out.append(gen_points(rng, "quick", "cl-points"))
    big = gen_points(rng, "quick", "sigma-points")
    big["n"] = int(rng.integers(21, 201))
    out.append(big)
    return out


def random_case(rng, tier):
    r = rng.random()
    if r < 0.33:
        return gen_points(rng, tier, "sigma-points")
    if r < 0.66:
        return gen_points(rng, tier, "cl-points")
    if r < 0.78:
        return gen_setters(rng, forced=rng.random() < 0.15)
    if r < 0.84:
        return gen_contour(rng, "fitter" if rng.random() < 0.6 else "profiler")
    return gen_arrows(rng)


# ------------------------------------------------------------------ driver
def run_case(ctx, case):
    kind = case["kind"]
    ctx.op(kind if kind != "contour" else ("contour" if case["via"] == "fitter" else "contour-profiler"))
    if kind == "sigma-grid":
        ctx.add_to_set("grid-blocks", "s|%d|%d" % (case["n"], case["i0"]))
        return run_sigma_points(ctx, case["n"], [sigma_grid(i) for i in range(case["i0"], case["i1"])])
    if kind == "cl-grid":
        ctx.add_to_set("grid-blocks", "c|%d|%d" % (case["n"], case["i0"]))
        return run_cl_points(ctx, case["n"], [cl_grid(j) for j in range(case["i0"], case["i1"])])
    if kind == "sigma-points":
        if case["n"] > NDIM_MAX:
            ctx.stratum("points", "n>20")
        return run_sigma_points(ctx, case["n"], case["sigma"])
    if kind == "cl-points":
        if case["n"] > NDIM_MAX:
            ctx.stratum("points", "n>20")
        return run_cl_points(ctx, case["n"], case["cl"])
    if kind == "named":
        return run_named(ctx)
    if kind == "setters":
        return run_setters(ctx, case)
    with internal_contract():
        if kind == "contour":
            return run_contour(ctx, case)
        if kind == "arrows":
            return run_arrows(ctx, case)
    raise AssertionError(kind)


def guarded(ctx, case):
    ctx.begin_case(case)
    try:
        nontrivial = run_case(ctx, case)
    except ContractViolation as e:
        ctx.violation(None, "contract.internal-instances", {"error": str(e), "traceback": fmt_exc()})
        nontrivial = False
    except OpTimeout as e:
        ctx.violation(None, "operation-did-not-terminate", {"error": str(e)})
        nontrivial = False
    except Exception:
        ctx.violation(None, "unexpected-exception", {"traceback": fmt_exc()})
        nontrivial = False
    finally:
        STATE["contract"] = False
    ctx.end_case(nontrivial=bool(nontrivial))


def run_shard(ctx):
    install(ctx)
    if not STATE.get("icontract"):
        ctx.note("icontract not importable: internal-instance contract not attached")
    todo = stratified_cases(ctx.rng, ctx.shard, ctx.nshards) + grid_cases(ctx.shard, ctx.nshards)
    for case in todo:
        if not ctx.more():
            return
        guarded(ctx, case)
    while ctx.more():
        guarded(ctx, random_case(ctx.rng, ctx.tier))


def replay(ctx, case):
    install(ctx)
    guarded(ctx, dict(case))
