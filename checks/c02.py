"""C02 — total uncertainty = exact sum of the enabled sources at the current reference.

Shape: history monitor with a shadow model (+ icontract invariants on kafe2.core.error.CovMat).

A case is a JSON list of operations on one container: add_error / add_matrix_error (cov | cor+err_val, absolute |
relative, correlation 0 / (0,1) / 1, scalar / constant / varying / zero-containing errors), disable_error,
enable_error, value changes (data / x / y setters, histogram fill / rebin / set_bins, model `parameters` / `x` setters) and reads
(err, cov_mat, cor_mat, cov_mat_inverse, get_total_error(axis), data) in random interleavings.  The shadow stores only
the *declared* inputs (source specifications, enabled flags, current values) and recomputes

    cov = sum over enabled sources of (sigma sigma^T) o rho,      sigma_rel = rel * current values  (signed)

from scratch at every read; err = sqrt(diag), cor = cov / outer(err, err) where err != 0, inverse @ cov ~ I.
Every cov read is also checked to be exactly symmetric and PSD, and a read in a configuration that was read before
(same values, same enabled flags: i.e. after disable -> enable) must be array_equal to the earlier read.
"""
import itertools

import numpy as np
from kafe2.core import error as kerr
from kafe2.fit import HistContainer, HistParametricModel, IndexedContainer, IndexedParametricModel, UnbinnedContainer, XYContainer, XYParametricModel

from vlib.monitor import Ctx, fmt_exc

PROPERTY = "C02"
TIERS = {"quick": {"shards": 8, "budget_s": 25}, "thorough": {"shards": 16, "budget_s": 400}}
RULE = (
    "random history (<= 14 ops quick / <= 40 thorough, N <= 10) over {add_error, add_matrix_error, disable_error, enable_error, value "
    "change, read} on one of {IndexedContainer, XYContainer, HistContainer, Indexed/XY/HistParametricModel} (+ UnbinnedContainer refusal, "
    "+ direct CovMat histories every 12th case); the first cases of each shard enumerate all (container type x mutator kind x following "
    "read) bigrams, each shard starting at its own offset; every value-change stratum whose read is an uncertainty executes the probe "
    "<relative source on axis A, total of A read (so that it is cached), value change that moves the values of A, uncertainty of A read with "
    "nothing in between> (set stale_probes: container x value change x axis). "
    "non-trivial = the history contains, each followed by a later uncertainty read, "
    "(a) a value change after a read after adding a relative source, or (b) a disable/enable pair of one source, or (c) >= 2 sources of "
    "different kind (simple / cov / cor x absolute / relative); distinct by hash of the executed case"
)
ASSUMPTIONS = [
    "only valid inputs are generated (err >= 0, correlation in [0, 1], symmetric PSD matrices, unit-diagonal correlation matrices); malformed inputs belong to C19",
    "rebin / x setter / set_bins keep the number of points (sources of another size are an invalid specification)",
    "HistContainer.set_bins gets integral heights >= 0 (int or float typed, with or without underflow / overflow); after it fill / rebin are refused by design (documented RuntimeError) and are not generated any more, set_bins may be repeated",
    "histogram entries never coincide with a bin edge (edge semantics belong to C12); model values are recomputed by the shadow with the same closed formula (quadrature accuracy belongs to C13)",
    "relative sources with zero reference values are generated (sigma = 0 there); conversions that divide by the reference (relative size of an absolute source) are not read",
    "cov_mat_inverse @ cov ~ I (both orders) within max(1e-9, 1e-15*cond) * sum|terms| + 1e-12, compared only when cond(shadow cov) <= 1e8; None is accepted only when the shadow matrix is numerically singular (cond >= 1e13); in between the read is counted as discarded",
    "cor_mat is compared only where the shadow pointwise uncertainty is non-zero",
    "cov / err tolerance: |got - shadow| <= 1e-12 * sum over enabled sources of |term| (same operations, other summation order); exact symmetry and exact equality of re-reads / disable-enable restores are demanded because correct code repeats the same arithmetic on the same inputs",
    "a read whose first divergence carries a mechanism key is a genuine defect of the tree under test (see classify_value: the total the object holds equals the documented sum at an earlier value vector); the history ends there",
]
ANCHORS = [
    ("kafe2.core.error", "SimpleGaussianError._calculate_cov_mat"),
    ("kafe2.core.error", "SimpleGaussianError._calculate_cov_mat_generic"),
    ("kafe2.core.error", "SimpleGaussianError.cov_mat"),
    ("kafe2.core.error", "MatrixGaussianError.cov_mat"),
    ("kafe2.core.error", "MatrixGaussianError.error"),
    ("kafe2.core.error", "MatrixGaussianError.cor_mat"),
    ("kafe2.core.error", "MatrixGaussianError.cov_mat_inverse"),
    ("kafe2.core.error", "MatrixGaussianError._calculate_cov_mat_from_cov_rel"),
    ("kafe2.core.error", "MatrixGaussianError._calculate_cov_mat_from_cor_mat_and_error_array"),
    ("kafe2.core.error", "GaussianErrorBase.reference"),
    ("kafe2.core.error", "CovMat.mat"),
    ("kafe2.core.error", "CovMat.cor_mat"),
    ("kafe2.core.error", "CovMat.I"),
    ("kafe2.core.error", "CovMat.chol"),
    ("kafe2.core.error", "CovMat.cond"),
    ("kafe2.core.error", "CovMat._invalidate_cache"),
    ("kafe2.core.error", "CovMat.rescale"),
    ("kafe2.core.error", "CovMat.__iadd__"),
    ("kafe2.core.error", "CovMat.__add__"),
    ("kafe2.fit._base.container", "DataContainerBase._add_error_object"),
    ("kafe2.fit._base.container", "DataContainerBase._on_error_change"),
    ("kafe2.fit._base.container", "DataContainerBase.disable_error"),
    ("kafe2.fit._base.container", "DataContainerBase.enable_error"),
    ("kafe2.fit._base.container", "DataContainerBase.get_total_error"),
    ("kafe2.fit.indexed.container", "IndexedContainer._calculate_total_error"),
    ("kafe2.fit.indexed.container", "IndexedContainer._clear_total_error_cache"),
    ("kafe2.fit.indexed.container", "IndexedContainer._get_error_reference"),
    ("kafe2.fit.indexed.container", "IndexedContainer.data"),
    ("kafe2.fit.indexed.container", "IndexedContainer.add_error"),
    ("kafe2.fit.indexed.container", "IndexedContainer.add_matrix_error"),
    ("kafe2.fit.xy.container", "XYContainer._calculate_total_error"),
    ("kafe2.fit.xy.container", "XYContainer._clear_total_error_cache"),
    ("kafe2.fit.xy.container", "XYContainer._get_error_reference"),
    ("kafe2.fit.xy.container", "XYContainer._find_axis_raise"),
    ("kafe2.fit.xy.container", "XYContainer.add_error"),
    ("kafe2.fit.xy.container", "XYContainer.add_matrix_error"),
    ("kafe2.fit.xy.container", "XYContainer.get_total_error"),
    ("kafe2.fit.xy.container", "XYContainer.data"),
    ("kafe2.fit.xy.container", "XYContainer.x"),
    ("kafe2.fit.xy.container", "XYContainer.y"),
    ("kafe2.fit.histogram.container", "HistContainer._get_error_reference"),
    ("kafe2.fit.histogram.container", "HistContainer._fill_unprocessed"),
    ("kafe2.fit.histogram.container", "HistContainer.fill"),
    ("kafe2.fit.histogram.container", "HistContainer.rebin"),
    ("kafe2.fit.histogram.container", "HistContainer.set_bins"),
    ("kafe2.fit._base.model", "ParametricModelBaseMixin.parameters"),
    ("kafe2.fit.indexed.model", "IndexedParametricModel._recalculate"),
    ("kafe2.fit.xy.model", "XYParametricModel._recalculate"),
    ("kafe2.fit.xy.model", "XYParametricModel.x"),
    ("kafe2.fit.histogram.model", "HistParametricModel._recalculate"),
]

CTYPES = ["indexed", "xy", "hist", "indexed_model", "xy_model", "hist_model"]
ADD_KINDS = ["add_error.abs", "add_error.rel", "add_matrix.cov.abs", "add_matrix.cov.rel", "add_matrix.cor.abs", "add_matrix.cor.rel"]
VALUE_CHANGES = {
    "indexed": ["set_data"],
    "xy": ["set_x", "set_y", "set_data"],
    "hist": ["fill", "rebin", "set_bins"],
    "indexed_model": ["set_parameters"],
    "xy_model": ["set_parameters", "set_x"],
    "hist_model": ["set_parameters"],
}
READS = ["err", "cov_mat", "cor_mat", "cov_mat_inverse", "total_error", "data"]
ALL_VC = sorted(set(v for vs in VALUE_CHANGES.values() for v in vs))


# which axes of the stored values a value change moves (xy model: new support points move the model values too)
VC_AXES = {
    ("indexed", "set_data"): (0,),
    ("xy", "set_x"): (0,),
    ("xy", "set_y"): (1,),
    ("xy", "set_data"): (0, 1),
    ("hist", "fill"): (0,),
    ("hist", "rebin"): (0,),
    ("hist", "set_bins"): (0,),
    ("indexed_model", "set_parameters"): (0,),
    ("xy_model", "set_parameters"): (1,),
    ("xy_model", "set_x"): (0, 1),
    ("hist_model", "set_parameters"): (0,),
}
STALE_PROBES = sorted("%s|%s|%d" % (c, v, a) for (c, v), axes in VC_AXES.items() for a in axes)


def mutator_kinds(ctype):
    return ADD_KINDS + ["disable_error", "enable_error"] + VALUE_CHANGES[ctype]


def all_strata():
    return [(c, m, r) for c in CTYPES for m in mutator_kinds(c) for r in READS]


def floors(tier):
    big = tier == "thorough"
    k = 20 if big else 1
    return {
        "comparisons": {
            "err": 2000 * k,
            "cov_mat": 2000 * k,
            "cor_mat": 2000 * k,
            "cov_mat_inverse": 1000 * k,
            "cov_mat_inverse.none-iff-singular": 500 * k,
            "total_error.cov_mat": 2000 * k,
            "total_error.error": 2000 * k,
            "symmetric": 4000 * k,
            "psd": 4000 * k,
            "restore.exact": 80 * k,
            "reread.exact": 1500 * k,
            "values": 1500 * k,
            "op.accepted": 20000 * k,
            "read.returned": 12000 * k,
            "unbinned.refuses": 20,
            "covmat.cor_mat": 500 * k,
            "covmat.inverse": 500 * k,
            "covmat.mat": 500 * k,
            "covmat.chol": 100 * k,
            "covmat.cond": 100 * k,
        },
        "ops": ["add_error", "add_matrix_error", "disable_error", "enable_error", "read"] + ALL_VC + ["covmat.set_mat", "covmat.iadd", "covmat.add", "covmat.rescale"],
        "reach": ["%s:%s" % a for a in ANCHORS],
        "strata": ["|".join(s) for s in all_strata()],
        "sets": {"bigrams_executed": 300, "source_shapes": 30, "axis_specs": 4, "stale_probes": len(STALE_PROBES)},
        "distinct_nontrivial": 40000 if big else 2000,
    }


# ------------------------------------------------------------------ tolerances (DESIGN.md C02: same operations, other order)
RTOL_SUM = 1e-12  # relative to the sum of |terms| of the shadow sum
COND_MAX = 1e8  # LINALG comparisons of the inverse only below this condition number
COND_SINGULAR = 1e13  # None is accepted for the inverse only above this one
RTOL_LINALG, ATOL_LINALG = 1e-9, 1e-12


# ------------------------------------------------------------------ icontract invariants on the real CovMat class
class CovMatInvariantViolation(AssertionError):
    pass


def covmat_mat_is_square(self):
    m = getattr(self, "_mat", None)
    if m is None:
        return True  # inside __init__, before the first assignment
    return isinstance(m, np.ndarray) and m.ndim == 2 and m.shape[0] == m.shape[1] and getattr(self, "_size", m.shape[0]) == m.shape[0]


def covmat_cached_cor_mat_is_consistent(self):
    c = getattr(self, "_cor_mat", None)
    m = getattr(self, "_mat", None)
    if c is None or m is None:
        return True
    with np.errstate(all="ignore"):
        s = np.sqrt(np.diag(m))
        fresh = m / np.outer(s, s)
    return np.shape(c) == fresh.shape and bool(np.array_equal(np.asarray(c), fresh, equal_nan=True))


def covmat_cached_inverse_is_consistent(self):
    inv = getattr(self, "_inverse", None)
    m = getattr(self, "_mat", None)
    if inv is None or m is None:
        return True
    try:
        fresh = np.linalg.inv(m)
    except np.linalg.LinAlgError:
        return False  # a cached inverse of a matrix that has none
    if np.shape(inv) != fresh.shape:
        return False
    with np.errstate(all="ignore"):
        return bool(np.all((inv == fresh) | (np.abs(inv - fresh) <= 1e-9 * np.max(np.abs(fresh))) | (np.isnan(inv) & np.isnan(fresh))))


def covmat_error_square(self):
    return CovMatInvariantViolation("CovMat._mat is not a square 2-d array of size _size: shape %r" % (np.shape(getattr(self, "_mat", None)),))


def covmat_error_cor(self):
    return CovMatInvariantViolation("CovMat: cached _cor_mat is not the correlation matrix of the current _mat")


def covmat_error_inverse(self):
    return CovMatInvariantViolation("CovMat: cached _inverse is not the inverse of the current _mat")


_contracts_attached = False


def attach_contracts():
    """Decorate the real class (never the repo). Called after the reach monitors resolved the original code objects."""
    global _contracts_attached
    if _contracts_attached:
        return
    _contracts_attached = True
    import icontract

    cls = kerr.CovMat
    cls = icontract.invariant(covmat_mat_is_square, description="mat square", error=covmat_error_square)(cls)
    cls = icontract.invariant(covmat_cached_cor_mat_is_consistent, description="cached cor_mat consistent", error=covmat_error_cor)(cls)
    cls = icontract.invariant(covmat_cached_inverse_is_consistent, description="cached inverse consistent", error=covmat_error_inverse)(cls)
    assert cls is kerr.CovMat


# ------------------------------------------------------------------ small helpers
def r6(x):
    return float("%.6g" % float(x))


def rlist(v):
    return [r6(x) for x in np.asarray(v, dtype=float).ravel()]


def ax_index(spec):
    if spec is None:
        return 0
    return {0: 0, 1: 1, "x": 0, "y": 1}[spec]


def model_values(ctype, init, params, x=None):
    """Closed formulas of the model families (shadow side)."""
    p = [float(q) for q in params]
    if ctype == "indexed_model":
        b0, b1 = np.asarray(init["b0"], dtype=float), np.asarray(init["b1"], dtype=float)
        if init["family"] == "lin2":
            return p[0] * b0 + p[1] * b1
        return p[0] * p[0] * b0 + p[1]  # "sq"
    if ctype == "xy_model":
        x = np.asarray(x, dtype=float)
        if init["family"] == "lin":
            return p[0] * x + p[1]
        return p[0] * x * x + p[1] * x + p[2]  # "quad"
    if ctype == "hist_model":
        e = np.asarray(init["edges"], dtype=float)
        w = e[1:] - e[:-1]
        c = 0.5 * (e[1:] + e[:-1])
        f = lambda t: p[0] + p[1] * t  # noqa: E731
        be = init["bin_evaluation"]
        if be == "rectangle":
            return w * f(c)
        if be == "trapezoid":
            he = f(e)
            return w / 2.0 * (he[:-1] + he[1:])
        he = f(e)
        return w / 6.0 * (he[:-1] + 4.0 * f(c) + he[1:])
    raise AssertionError(ctype)


def make_model_function(ctype, init):
    """Real python functions handed to kafe2 (signature introspection needs plain defs)."""
    if ctype == "indexed_model":
        b0, b1 = np.asarray(init["b0"], dtype=float), np.asarray(init["b1"], dtype=float)
        if init["family"] == "lin2":

            def model(a, b):
                return a * b0 + b * b1

        else:

            def model(a, b):
                return a * a * b0 + b

        return model
    if ctype == "xy_model":
        if init["family"] == "lin":

            def model(x, a, b):
                return a * x + b

        else:

            def model(x, a, b, c):
                return a * x * x + b * x + c

        return model

    def density(x, a, b):
        return a + b * x

    return density


def hist_counts(edges, entries):
    e = np.asarray(edges, dtype=float)
    v = np.asarray(entries, dtype=float)
    return np.array([np.sum((v >= e[i]) & (v < e[i + 1])) for i in range(len(e) - 1)], dtype=float)


# ------------------------------------------------------------------ shadow model
class Shadow:
    """Declared inputs only; everything is recomputed from scratch at every read."""

    def __init__(self, case):
        self.ctype = case["ctype"]
        self.n = case["n"]
        self.init = case["init"]
        self.sources = []  # dicts: name, axis, kind(simple|cov|cor), rel, err, corr, mat, enabled, added_at_version
        self.version = 0  # increments at every value change
        self.toggles = 0  # number of disable/enable operations so far
        self.history = {0: [], 1: []}  # earlier value vectors per axis (classification of stale references only)
        init = self.init
        ct = self.ctype
        if ct == "indexed":
            self.vals = {0: np.asarray(init["data"], dtype=float)}
        elif ct == "xy":
            self.vals = {0: np.asarray(init["x"], dtype=float), 1: np.asarray(init["y"], dtype=float)}
        elif ct == "hist":
            self.edges = np.linspace(init["range"][0], init["range"][1], self.n + 1) if init["edges"] is None else np.asarray(init["edges"], dtype=float)
            self.entries = []
            self.vals = {0: np.zeros(self.n)}
        elif ct == "indexed_model":
            self.params = list(init["parameters"])
            self.vals = {0: model_values(ct, init, self.params)}
        elif ct == "xy_model":
            self.params = list(init["parameters"])
            x = np.asarray(init["x"], dtype=float)
            self.vals = {0: x, 1: model_values(ct, init, self.params, x)}
        elif ct == "hist_model":
            self.params = list(init["parameters"])
            self.vals = {0: model_values(ct, init, self.params)}
        else:
            raise AssertionError(ct)

    @property
    def is_xy(self):
        return self.ctype in ("xy", "xy_model")

    def set_vals(self, ax, v):
        self.history[ax].append(self.vals[ax])
        self.vals[ax] = np.asarray(v, dtype=float)

    def fingerprint(self):
        return (self.version, len(self.sources), tuple(s["enabled"] for s in self.sources))

    def source_cov(self, s, ref):
        """(cov, |terms|) of one source at reference `ref`."""
        n = self.n
        if s["kind"] == "simple":
            e = np.ones(n) * np.asarray(s["err"], dtype=float)
            sigma = e * ref if s["rel"] else e
            rho = np.full((n, n), float(s["corr"]))
            np.fill_diagonal(rho, 1.0)
            return np.outer(sigma, sigma) * rho
        if s["kind"] == "cov":
            m = np.asarray(s["mat"], dtype=float)
        else:
            e = np.ones(n) * np.asarray(s["err_val"], dtype=float)
            m = np.outer(e, e) * np.asarray(s["mat"], dtype=float)
        if s["rel"]:
            return m * np.outer(ref, ref)
        return m

    def total(self, ax, refs=None):
        """Shadow total covariance on axis `ax` and the elementwise sum of |terms|.
        refs: optional {source name: reference vector} overriding the current values (classification only)."""
        n = self.n
        cov = np.zeros((n, n))
        scale = np.zeros((n, n))
        for s in self.sources:
            if not s["enabled"] or s["axis"] != ax:
                continue
            ref = self.vals[ax] if refs is None or s["name"] not in refs else refs[s["name"]]
            c = self.source_cov(s, ref)
            cov = cov + c
            scale = scale + np.abs(c)
        return cov, scale


# ------------------------------------------------------------------ oracles as pure functions of (observable, got, shadow cov)
def cmp_cov(got, cov, scale):
    if not isinstance(got, np.ndarray) or got.shape != cov.shape:
        return False, {"why": "shape/type", "got_type": type(got).__name__, "got_shape": np.shape(got)}
    g = np.asarray(got, dtype=float)
    with np.errstate(all="ignore"):
        d = np.abs(g - cov)
        ok = bool(np.all((g == cov) | (d <= RTOL_SUM * scale)))
    return ok, (None if ok else {"maxdiff": float(np.nanmax(np.where(np.isfinite(d), d, np.inf))) if d.size else 0.0})


def cmp_err(got, cov, scale):
    exp = np.sqrt(np.diag(cov))
    sc = np.sqrt(np.diag(scale))
    if not isinstance(got, np.ndarray) or got.shape != exp.shape:
        return False, {"why": "shape/type", "got_type": type(got).__name__, "got_shape": np.shape(got)}
    g = np.asarray(got, dtype=float)
    with np.errstate(all="ignore"):
        d = np.abs(g - exp)
        ok = bool(np.all((g == exp) | (d <= RTOL_SUM * sc)))
    return ok, (None if ok else {"maxdiff": float(np.nanmax(np.where(np.isfinite(d), d, np.inf))) if d.size else 0.0})


def expected_cor(cov, scale):
    e = np.sqrt(np.diag(cov))
    mask = np.outer(e > 0, e > 0)
    with np.errstate(all="ignore"):
        oo = np.outer(e, e)
        exp = np.where(mask, cov / oo, 0.0)
        tol = np.where(mask, 4 * RTOL_SUM * scale / oo, 0.0)
    return exp, tol, mask


def cmp_cor(got, cov, scale):
    exp, tol, mask = expected_cor(cov, scale)
    if not isinstance(got, np.ndarray) or got.shape != cov.shape:
        return False, {"why": "shape/type", "got_type": type(got).__name__, "got_shape": np.shape(got)}
    g = np.where(mask, np.asarray(got, dtype=float), 0.0)
    with np.errstate(all="ignore"):
        d = np.abs(g - exp)
        ok = bool(np.all((g == exp) | (d <= tol)))
    return ok, (None if ok else {"maxdiff": float(np.nanmax(np.where(np.isfinite(d), d, np.inf))) if d.size else 0.0, "compared_entries": int(mask.sum())})


def cond_of(cov):
    if cov.size == 0:
        return float("inf")
    s = np.linalg.svd(cov, compute_uv=False)
    if s[0] == 0 or s[-1] == 0:
        return float("inf")
    return float(s[0] / s[-1])


def cmp_inv(got, cov, scale):
    """returns (status, detail): status in ok / bad / skip / none-ok"""
    cond = cond_of(cov)
    if got is None:
        if cond >= COND_SINGULAR:
            return "none-ok", None
        if cond <= COND_MAX:
            return "bad", {"why": "inverse is None but the shadow matrix is well conditioned", "cond": cond}
        return "skip", None
    if cond > COND_MAX:
        return "skip", None
    if not isinstance(got, np.ndarray) or got.shape != cov.shape:
        return "bad", {"why": "shape/type", "got_type": type(got).__name__, "got_shape": np.shape(got)}
    g = np.asarray(got, dtype=float)
    eye = np.eye(cov.shape[0])
    # residual of a backward-stable inverse relative to sum|terms| grows like n*u*cond: LINALG (1e-9) up to cond 1e6,
    # 1e-15*cond (<= 1e-7) above; a stale or wrong matrix leaves residuals of order one
    rtol = max(RTOL_LINALG, 1e-15 * cond)
    with np.errstate(all="ignore"):
        s1 = np.abs(g) @ np.abs(cov)
        s2 = np.abs(cov) @ np.abs(g)
        d1 = np.abs(g @ cov - eye)
        d2 = np.abs(cov @ g - eye)
        # the residual bound of an LU/QR-based inverse is norm-wise (componentwise |X||A| bounds do not hold where individual products
        # cancel, e.g. with sources that vanish at some points): every element is held to rtol times the largest |X||A| element
        ok = bool(np.all(d1 <= rtol * np.nanmax(s1) + ATOL_LINALG) and np.all(d2 <= rtol * np.nanmax(s2) + ATOL_LINALG))
    if ok:
        return "ok", None
    return "bad", {"cond": cond, "rtol": rtol, "max|inv@cov-I|": float(np.nanmax(d1)), "max|cov@inv-I|": float(np.nanmax(d2))}


def consistent(what, got, cov, scale):
    """Is the value `got` of read `what` consistent with total covariance `cov`? (used by the oracle with the current
    shadow total and by the classifier with totals in which relative sources sit at an earlier reference)"""
    if what in ("cov_mat", "total_error.cov_mat"):
        return cmp_cov(got, cov, scale)[0]
    if what in ("err", "total_error.error"):
        return cmp_err(got, cov, scale)[0]
    if what == "cor_mat":
        return cmp_cor(got, cov, scale)[0]
    if what == "cov_mat_inverse":
        return cmp_inv(got, cov, scale)[0] in ("ok", "none-ok")
    return False


# ------------------------------------------------------------------ live state: real object + shadow
class State:
    def __init__(self, case):
        self.case = case
        self.sh = Shadow(case)
        ct, init, n = case["ctype"], case["init"], case["n"]
        if ct == "indexed":
            self.obj = IndexedContainer(list(init["data"]))
        elif ct == "xy":
            self.obj = XYContainer(list(init["x"]), list(init["y"]))
        elif ct == "hist":
            if init["edges"] is None:
                self.obj = HistContainer(n_bins=n, bin_range=tuple(init["range"]))
            else:
                self.obj = HistContainer(n_bins=n, bin_range=(init["edges"][0], init["edges"][-1]), bin_edges=list(init["edges"]))
        elif ct == "indexed_model":
            self.obj = IndexedParametricModel(make_model_function(ct, init), list(init["parameters"]))
        elif ct == "xy_model":
            self.obj = XYParametricModel(list(init["x"]), make_model_function(ct, init), list(init["parameters"]))
        elif ct == "hist_model":
            e = init["edges"]
            self.obj = HistParametricModel(n, (e[0], e[-1]), make_model_function(ct, init), list(init["parameters"]), bin_edges=list(e), bin_evaluation=init["bin_evaluation"])
        else:
            raise AssertionError(ct)
        self.snap = {}  # (ax, what, fingerprint) -> (value, toggles at that time)
        self.flags = {"rel_added": False, "read_after_rel": False, "vc_after_read_after_rel": False, "nt_a": False, "pair": False, "nt_b": False, "nt_c": False}
        self.disabled_once = set()
        self.last_mut = None  # (kind, op index)
        self.last_vc = {0: None, 1: None}  # last value-change kind per axis
        self.vc_kinds = []  # all value changes executed so far
        self.reads = 0
        # per axis: the total was read while an enabled relative source sat on the axis and nothing was changed since (= cached)
        self.cached_rel = {0: False, 1: False}
        self.probe = None  # (value-change kind, op index, axes whose cached total had a relative source) of the last value change


def mut_kind(op):
    k, a = op
    if k == "add_error":
        return "add_error.rel" if a["relative"] else "add_error.abs"
    if k == "add_matrix_error":
        return "add_matrix.%s.%s" % (a["matrix_type"], "rel" if a["relative"] else "abs")
    return k


def err_shape(e):
    if np.ndim(e) == 0:
        return "scalar"
    v = np.asarray(e, dtype=float)
    if np.any(v == 0):
        return "zeros"
    return "const" if np.all(v == v[0]) else "varying"


def corr_class(c):
    return "0" if c == 0 else ("1" if c == 1 else "mid")


def n_viol(ctx):
    return sum(ctx._wit_per_key.values())


# ------------------------------------------------------------------ classification of a divergence (mechanism keys)
KEY_SET_BINS = "C02/hist-set_bins-keeps-relative-reference"
STALE_KEYS = {
    "hist": "C02/hist-relative-source-ignores-pending-fill",
    "xy": "C02/xy-data-setter-keeps-relative-reference",
    "indexed_model": "C02/indexed-model-relative-source-lags-model-values",
    "xy_model": "C02/xy-model-relative-source-lags-model-values",
    "hist_model": "C02/hist-model-relative-source-lags-model-values",
}


def stale_explanation(st, what, ax, got):
    """Is the covariance `got` reproduced by the shadow sum when enabled relative sources on this axis are evaluated at an
    *earlier* value vector of the container (at least one of them not at the current one)?  Returns a description or None."""
    assert what == "cov_mat"
    sh = st.sh
    n = sh.n
    rel = [s for s in sh.sources if s["enabled"] and s["axis"] == ax and s["rel"]]
    if not rel or not isinstance(got, np.ndarray) or got.shape != (n, n):
        return None
    cands = list(sh.history[ax])
    if sh.ctype in ("hist", "hist_model", "xy_model"):
        cands.append(np.zeros(n))  # storage right after construction / rebin / x setter, before the lazy recomputation
    uniq = []
    for c in cands:
        if np.array_equal(c, sh.vals[ax]) or any(np.array_equal(c, u) for u in uniq):
            continue
        uniq.append(c)
    if not uniq:
        return None
    opts = [("earlier-%d" % i, u) for i, u in enumerate(uniq)] + [("current", sh.vals[ax])]
    base = np.zeros((n, n))
    base_scale = np.zeros((n, n))
    for s_ in sh.sources:
        if s_["enabled"] and s_["axis"] == ax and not s_["rel"]:
            c = sh.source_cov(s_, sh.vals[ax])
            base = base + c
            base_scale = base_scale + np.abs(c)
    table = [[sh.source_cov(s_, u) for _, u in opts] for s_ in rel]  # per source, per candidate reference
    if len(opts) ** len(rel) > 30000:
        # too many combinations: only "all relative sources at one common earlier vector"
        combos = [tuple([j] * len(rel)) for j in range(len(opts) - 1)]
    else:
        combos = itertools.product(range(len(opts)), repeat=len(rel))
    last = len(opts) - 1
    for combo in combos:
        if all(j == last for j in combo):
            continue
        cov = base
        scale = base_scale
        for k, j in enumerate(combo):
            cov = cov + table[k][j]
            scale = scale + np.abs(table[k][j])
        if cmp_cov(got, cov, scale * 4)[0]:
            return {"relative sources evaluated at": {s_["name"]: opts[j][0] for s_, j in zip(rel, combo)}}
    return None


def _stale_predicate(st):
    """Container types with a value-change path that does not reach the relative sources, and that path was executed."""
    ct = st.sh.ctype
    key = STALE_KEYS.get(ct)
    if key is None:
        return None
    if ct == "xy" and "set_data" not in st.vc_kinds:
        return None
    if ct == "hist" and st.last_vc[0] == "set_bins":
        return KEY_SET_BINS  # the heights were replaced as a whole; the reference is the one from before that call
    if ct == "hist" and not any(k in ("fill", "rebin") for k in st.vc_kinds):
        return None
    if ct in ("indexed_model", "xy_model") and not st.vc_kinds:
        return None
    # hist_model: the constructor itself leaves the values to be computed lazily, no value change needed
    return key


def classify_value(st, what, ax, got):
    """Mechanism key of a value divergence, or None.  All of: (1) container type / executed value change as in
    _stale_predicate; (2) the total covariance the object holds right now (re-reading the cached total changes nothing)
    equals the documented sum with relative sources evaluated at an *earlier* value vector - the arithmetic is right,
    the reference is stale; (3) the value that was read belongs to that covariance (so nothing else is wrong)."""
    key = _stale_predicate(st)
    if key is None:
        return None
    try:
        real_cov = real_cov_now(st, ax)
        if stale_explanation(st, "cov_mat", ax, real_cov) is None:
            return None
        sc = np.abs(real_cov)
        if what == "cov_mat_inverse":
            return key if cmp_inv(got, real_cov, sc)[0] != "bad" else None
        return key if consistent(what, got, real_cov, sc * 4) else None
    except Exception:
        return None


def real_cov_now(st, ax):
    pre = ("x_" if ax == 0 else "y_") if st.sh.is_xy else ""
    return np.array(getattr(st.obj, pre + "cov_mat"))


def classify_restore(st, ax, old_cov, new_cov):
    """Two reads of one configuration differ: the known mechanism is that one of them was computed at a stale reference
    (invisible to the value oracle where the comparison had to be skipped, e.g. inverses of singular totals)."""
    key = _stale_predicate(st)
    if key is None or old_cov is None or new_cov is None:
        return None
    try:
        for c in (old_cov, new_cov):
            if stale_explanation(st, "cov_mat", ax, c) is not None:
                return key
    except Exception:
        return None
    return None


def classify_exception(st, op, exc):
    k, a = op
    if (
        isinstance(exc, IndexError)
        and st.sh.is_xy
        and k == "add_matrix_error"
        and a["relative"]
        and isinstance(a["axis"], str)
    ):
        return "C02/xy-relative-matrix-error-raw-axis-spec"
    return None


# ------------------------------------------------------------------ execution of one op on both sides
def apply_op(ctx, st, op, i):
    k, a = op
    sh, obj = st.sh, st.obj
    ctx.op(k)
    if k == "read":
        return do_read(ctx, st, op, i)

    mk = mut_kind(op)
    raised = None
    try:
        if k == "add_error":
            err = a["err"] if np.ndim(a["err"]) == 0 else np.array(a["err"], dtype=float)
            if sh.is_xy:
                obj.add_error(a["axis"], err, name=a["name"], correlation=a["correlation"], relative=a["relative"])
            else:
                obj.add_error(err, name=a["name"], correlation=a["correlation"], relative=a["relative"])
        elif k == "add_matrix_error":
            mat = np.array(a["matrix"], dtype=float)
            ev = a["err_val"]
            ev = ev if ev is None or np.ndim(ev) == 0 else np.array(ev, dtype=float)
            if sh.is_xy:
                obj.add_matrix_error(a["axis"], mat, a["matrix_type"], name=a["name"], err_val=ev, relative=a["relative"])
            else:
                obj.add_matrix_error(mat, a["matrix_type"], name=a["name"], err_val=ev, relative=a["relative"])
        elif k == "disable_error":
            obj.disable_error(a["name"])
        elif k == "enable_error":
            obj.enable_error(a["name"])
        elif k == "set_data":
            obj.data = np.array(a["data"], dtype=float)
        elif k == "set_x":
            obj.x = np.array(a["x"], dtype=float)
        elif k == "set_y":
            obj.y = np.array(a["y"], dtype=float)
        elif k == "fill":
            obj.fill(list(a["entries"]))
        elif k == "rebin":
            obj.rebin(list(a["edges"]))
        elif k == "set_bins":
            h = np.array(a["heights"], dtype=float if a["float"] else int)
            h = h if a["as_array"] else h.tolist()
            if a["underflow"] is None:
                obj.set_bins(h)
            else:
                obj.set_bins(h, underflow=a["underflow"], overflow=a["overflow"])
        elif k == "set_parameters":
            obj.parameters = list(a["parameters"])
        else:
            raise AssertionError(k)
    except CovMatInvariantViolation as e:
        ctx.violation(None, "covmat.invariant", {"op_index": i, "op": op, "raised": repr(e)})
        return False
    except AssertionError:
        raise
    except Exception as e:  # a valid operation was refused / crashed
        raised = e
        tb = fmt_exc()
    if k not in ("add_error", "add_matrix_error", "disable_error", "enable_error"):
        st.probe = (k, i, tuple(ax for ax in VC_AXES[(sh.ctype, k)] if st.cached_rel[ax]))
    st.cached_rel = {0: False, 1: False}  # every mutator discards (or has to discard) the cached totals
    ok = ctx.check(
        "op.accepted",
        raised is None,
        lambda: {"op_index": i, "op": op, "raised": repr(raised), "traceback": tb, "what": "valid operation raised"},
        key=lambda: classify_exception(st, op, raised),
    )
    if not ok:
        return False

    # ---- mirror on the shadow
    if k in ("add_error", "add_matrix_error"):
        ax = ax_index(a.get("axis"))
        s = {"name": a["name"], "axis": ax, "rel": bool(a["relative"]), "enabled": True, "added_at": sh.version}
        if k == "add_error":
            s.update(kind="simple", err=a["err"], corr=a["correlation"])
            ctx.add_to_set("source_shapes", "simple|%s|%s|corr=%s" % ("rel" if s["rel"] else "abs", err_shape(a["err"]), corr_class(a["correlation"])))
        else:
            s.update(kind=a["matrix_type"], mat=a["matrix"], err_val=a["err_val"])
            ctx.add_to_set("source_shapes", "%s|%s|%s" % (a["matrix_type"], "rel" if s["rel"] else "abs", "-" if a["err_val"] is None else err_shape(a["err_val"])))
        if sh.is_xy:
            ctx.add_to_set("axis_specs", repr(a["axis"]))
        sh.sources.append(s)
        if s["rel"]:
            st.flags["rel_added"] = True
        kinds = set((x["kind"], x["rel"]) for x in sh.sources)
        if len(kinds) >= 2:
            st.flags["kinds2"] = True
    elif k == "disable_error":
        for s in sh.sources:
            if s["name"] == a["name"]:
                s["enabled"] = False
        sh.toggles += 1
        st.disabled_once.add(a["name"])
    elif k == "enable_error":
        for s in sh.sources:
            if s["name"] == a["name"]:
                s["enabled"] = True
        sh.toggles += 1
        if a["name"] in st.disabled_once:
            st.flags["pair"] = True
    else:  # value changes
        sh.version += 1
        st.vc_kinds.append(k)
        if st.flags["read_after_rel"]:
            st.flags["vc_after_read_after_rel"] = True
        if k == "set_data":
            if sh.ctype == "indexed":
                sh.set_vals(0, a["data"])
                st.last_vc[0] = k
            else:
                d = np.array(a["data"], dtype=float)
                d = d if d.shape[0] == 2 else d.T
                sh.set_vals(0, d[0])
                sh.set_vals(1, d[1])
                st.last_vc[0] = st.last_vc[1] = k
        elif k == "set_x":
            sh.set_vals(0, a["x"])
            st.last_vc[0] = k
            if sh.ctype == "xy_model":
                sh.set_vals(1, model_values(sh.ctype, sh.init, sh.params, sh.vals[0]))
                st.last_vc[1] = k
        elif k == "set_y":
            sh.set_vals(1, a["y"])
            st.last_vc[1] = k
        elif k == "fill":
            sh.entries = sh.entries + list(a["entries"])
            sh.set_vals(0, hist_counts(sh.edges, sh.entries))
            st.last_vc[0] = k
        elif k == "rebin":
            sh.edges = np.asarray(a["edges"], dtype=float)
            sh.set_vals(0, hist_counts(sh.edges, sh.entries))
            st.last_vc[0] = k
        elif k == "set_bins":
            sh.entries = []  # the raw entries are given up: the heights are the declared contents from now on
            sh.set_vals(0, a["heights"])
            st.last_vc[0] = k
        elif k == "set_parameters":
            sh.params = list(a["parameters"])
            vax = 1 if sh.ctype == "xy_model" else 0
            sh.set_vals(vax, model_values(sh.ctype, sh.init, sh.params, sh.vals[0] if sh.ctype == "xy_model" else None))
            st.last_vc[vax] = k
    st.last_mut = (mk, i)
    return True


def read_real(st, what, spec):
    """Returns dict observable -> value as delivered by the real object."""
    obj, sh = st.obj, st.sh
    ax = ax_index(spec)
    pre = ("x_" if ax == 0 else "y_") if sh.is_xy else ""
    if what == "err":
        return {"err": getattr(obj, pre + "err")}
    if what == "cov_mat":
        return {"cov_mat": getattr(obj, pre + "cov_mat")}
    if what == "cor_mat":
        return {"cor_mat": getattr(obj, pre + "cor_mat")}
    if what == "cov_mat_inverse":
        return {"cov_mat_inverse": getattr(obj, pre + "cov_mat_inverse")}
    if what == "total_error":
        te = obj.get_total_error(spec) if sh.is_xy else obj.get_total_error()
        return {"total_error.cov_mat": te.cov_mat, "total_error.error": te.error}
    if what == "data":
        if sh.is_xy:
            if spec in (0, 1):
                d = obj.data
                return {"values": np.array(d[ax])}
            return {"values": obj.x if ax == 0 else obj.y}
        return {"values": obj.data}
    raise AssertionError(what)


def do_read(ctx, st, op, i):
    _, a = op
    what, spec = a["what"], a.get("axis")
    sh = st.sh
    ax = ax_index(spec)
    st.reads += 1
    if st.last_mut is not None and st.last_mut[1] == i - 1:
        ctx.add_to_set("bigrams_executed", "%s|%s|%s" % (sh.ctype, st.last_mut[0], what))
    raised = None
    try:
        got_all = read_real(st, what, spec)
    except CovMatInvariantViolation as e:
        ctx.violation(None, "covmat.invariant", {"op_index": i, "op": op, "raised": repr(e)})
        return False
    except AssertionError:
        raise
    except Exception as e:
        raised = e
        tb = fmt_exc()
    if not ctx.check("read.returned", raised is None, lambda: {"op_index": i, "op": op, "raised": repr(raised), "traceback": tb}, key=None):
        return False
    # bookkeeping for the non-triviality rule
    fl = st.flags
    if what != "data":
        if any(s["enabled"] and s["rel"] and s["axis"] == ax for s in sh.sources):
            if st.probe is not None and st.probe[1] == i - 1 and ax in st.probe[2]:
                ctx.add_to_set("stale_probes", "%s|%s|%d" % (sh.ctype, st.probe[0], ax))
            st.cached_rel[ax] = True
        if fl["rel_added"]:
            fl["read_after_rel"] = True
        if fl["vc_after_read_after_rel"]:
            fl["nt_a"] = True
        if fl["pair"]:
            fl["nt_b"] = True
        if fl.get("kinds2"):
            fl["nt_c"] = True

    if what == "data":
        exp = sh.vals[ax]
        got = got_all["values"]
        if sh.ctype.endswith("_model"):
            ok = isinstance(got, np.ndarray) and got.shape == exp.shape and bool(np.all(np.abs(got - exp) <= 1e-12 * np.abs(exp) + 1e-300))
        else:
            ok = isinstance(got, np.ndarray) and got.shape == exp.shape and bool(np.array_equal(np.asarray(got, dtype=float), exp))
        ctx.check("values", ok, lambda: {"op_index": i, "op": op, "got": got, "expected": exp, "what": "container values differ from the declared values (shadow precondition)"}, key=None)
        return ok

    cov, scale = sh.total(ax)
    fp = sh.fingerprint()
    for obs, got in got_all.items():
        if isinstance(got, np.ndarray):
            got = got.copy()
        base = {"op_index": i, "op": op, "ctype": sh.ctype, "axis": ax}
        if obs in ("cov_mat", "total_error.cov_mat"):
            ok, why = cmp_cov(got, cov, scale)
            if not ctx.check(obs, ok, lambda: dict(base, got=got, expected=cov, why=why, tolerance="1e-12 * sum|terms|", values=sh.vals[ax]), key=lambda: classify_value(st, obs, ax, got)):
                return False
            if not ctx.check("symmetric", bool(np.array_equal(got, got.T)), lambda: dict(base, got=got, what="total covariance not exactly symmetric"), key=None):
                return False
            w = np.linalg.eigvalsh((got + got.T) / 2.0) if got.size else np.zeros(0)
            okp = bool(w.size == 0 or w[0] >= -1e-12 * max(w[-1], 0.0) - 1e-300)
            if not ctx.check("psd", okp, lambda: dict(base, got=got, eigenvalues=w, what="total covariance not PSD for valid inputs"), key=None):
                return False
        elif obs in ("err", "total_error.error"):
            ok, why = cmp_err(got, cov, scale)
            if not ctx.check(obs, ok, lambda: dict(base, got=got, expected=np.sqrt(np.diag(cov)), why=why, tolerance="1e-12 * sqrt(sum|terms|)", values=sh.vals[ax]), key=lambda: classify_value(st, obs, ax, got)):
                return False
        elif obs == "cor_mat":
            ok, why = cmp_cor(got, cov, scale)
            if not ctx.check(obs, ok, lambda: dict(base, got=got, expected=expected_cor(cov, scale)[0], why=why, values=sh.vals[ax]), key=lambda: classify_value(st, obs, ax, got)):
                return False
        elif obs == "cov_mat_inverse":
            status, why = cmp_inv(got, cov, scale)
            if status == "skip":
                ctx.discard("inverse-not-compared-cond>1e8")
            elif status == "none-ok":
                ctx.check("cov_mat_inverse.none-iff-singular", True)
            else:
                if got is None:
                    if not ctx.check("cov_mat_inverse.none-iff-singular", False, lambda: dict(base, got=None, shadow_cov=cov, why=why), key=lambda: classify_value(st, obs, ax, got)):
                        return False
                elif not ctx.check(obs, status == "ok", lambda: dict(base, got=got, shadow_cov=cov, why=why, tolerance="LINALG max(1e-9, 1e-15*cond)*sum|terms|+1e-12"), key=lambda: classify_value(st, obs, ax, got)):
                    return False
        # "disable then re-enable restores the previous total exactly" (and re-reads of an unchanged configuration)
        sk = (ax, obs, fp)
        if sk in st.snap:
            old, tog, old_cov = st.snap[sk]
            name = "restore.exact" if sh.toggles > tog else "reread.exact"
            same = (old is None and got is None) or (isinstance(old, np.ndarray) and isinstance(got, np.ndarray) and old.shape == got.shape and bool(np.array_equal(old, got, equal_nan=True)))
            if not ctx.check(
                name,
                same,
                lambda: dict(base, observable=obs, got=got, earlier_read=old, what="same values and same enabled flags as at an earlier read, but a different total"),
                key=lambda: classify_restore(st, ax, old_cov, real_cov_now(st, ax)),
            ):
                return False
        else:
            # the covariance behind this read (cached total: re-reading it changes nothing) is kept for classification only
            try:
                cov_now = real_cov_now(st, ax)
            except Exception:
                cov_now = None
            st.snap[sk] = (got, sh.toggles, cov_now)
    return True


# ------------------------------------------------------------------ case generation
def gen_values(rng, n):
    mode = int(rng.integers(0, 6))
    if mode == 0:
        v = rng.uniform(0.5, 10.0, n)
    elif mode == 1:
        v = rng.uniform(-10.0, 10.0, n)
    elif mode == 2:
        v = rng.uniform(-10.0, 10.0, n) * 10.0 ** int(rng.integers(-3, 4))
    elif mode == 3:
        v = rng.integers(-4, 5, n).astype(float)  # contains zeros, duplicates
    elif mode == 4:
        v = rng.uniform(0.5, 10.0, n)
        v[int(rng.integers(0, n))] = 0.0
    else:
        v = np.sort(rng.uniform(0.0, 20.0, n))
    return rlist(v)


def gen_err(rng, n, rel):
    s = float(rng.uniform(0.01, 0.5)) if rel else float(rng.uniform(0.05, 2.0)) * 10.0 ** int(rng.integers(-1, 2))
    form = int(rng.integers(0, 4))
    if form == 0:
        return r6(s)
    if form == 1:
        return [r6(s)] * n
    v = s * rng.uniform(0.2, 2.0, n)
    if form == 3:
        v[rng.random(n) < 0.35] = 0.0
        if not np.any(v == 0):
            v[int(rng.integers(0, n))] = 0.0
    return rlist(v)


def gen_corr(rng):
    c = int(rng.integers(0, 4))
    return 0 if c == 0 else (1 if c == 1 else (1.0 if c == 2 and rng.random() < 0.3 else r6(rng.uniform(0.02, 0.98))))


def gen_psd(rng, n, s, full=None):
    full = (rng.random() < 0.8) if full is None else full
    if full:
        a = rng.normal(size=(n, n))
        m = a @ a.T / n + np.diag(rng.uniform(0.3, 1.5, n))
    else:
        k = max(1, int(rng.integers(1, n + 1)) - 1) if n > 1 else 1
        a = rng.normal(size=(n, k))
        m = a @ a.T
    m = (m + m.T) / 2.0 * s * s
    return m


class Gen:
    """Generates concrete, always-valid ops for one container while tracking just enough state (names, flags, sizes)."""

    def __init__(self, rng, ctype, n, init):
        self.rng, self.ctype, self.n, self.init = rng, ctype, n, init
        self.sources = []  # dicts name, axis, enabled, rel
        self.past_reads = []
        self.k = 0
        self.is_xy = ctype in ("xy", "xy_model")
        self.manual = False  # hist: set_bins was called, fill / rebin are refused from now on
        self.allow_set_bins = True
        if ctype == "hist":
            self.range = (init["range"][0], init["range"][1]) if init["edges"] is None else (init["edges"][0], init["edges"][-1])

    def axis_spec(self, ax=None):
        if not self.is_xy:
            return None
        ax = int(self.rng.integers(0, 2)) if ax is None else ax
        return [ax, "xy"[ax]][int(self.rng.integers(0, 2))]

    def name(self):
        self.k += 1
        return "e%d" % self.k

    def add(self, kind, ax=None):
        rng, n = self.rng, self.n
        parts = kind.split(".")
        rel = parts[-1] == "rel"
        spec = self.axis_spec(ax)
        nm = self.name()
        self.sources.append({"name": nm, "axis": ax_index(spec), "enabled": True, "rel": rel})
        if parts[0] == "add_error":
            return ["add_error", {"axis": spec, "err": gen_err(rng, n, rel), "name": nm, "correlation": gen_corr(rng), "relative": rel}]
        s = float(rng.uniform(0.02, 0.4)) if rel else float(rng.uniform(0.05, 2.0)) * 10.0 ** int(rng.integers(-1, 2))
        if parts[1] == "cov":
            m = gen_psd(rng, n, s)
            return ["add_matrix_error", {"axis": spec, "matrix": m.tolist(), "matrix_type": "cov", "err_val": None, "name": nm, "relative": rel}]
        m = gen_psd(rng, n, 1.0, full=True)
        d = np.sqrt(np.diag(m))
        c = m / np.outer(d, d)
        c = (c + c.T) / 2.0
        np.fill_diagonal(c, 1.0)
        if rng.random() < 0.15:
            c = np.eye(n)
        return ["add_matrix_error", {"axis": spec, "matrix": c.tolist(), "matrix_type": "cor", "err_val": gen_err(rng, n, rel), "name": nm, "relative": rel}]

    def disable(self):
        pool = [s for s in self.sources if s["enabled"]]
        if not pool:
            return None
        s = pool[int(self.rng.integers(0, len(pool)))]
        s["enabled"] = False
        return ["disable_error", {"name": s["name"]}]

    def enable(self):
        pool = [s for s in self.sources if not s["enabled"]]
        if not pool:
            return None
        s = pool[int(self.rng.integers(0, len(pool)))]
        s["enabled"] = True
        return ["enable_error", {"name": s["name"]}]

    def value_change(self, kind):
        rng, n = self.rng, self.n
        if kind == "set_data":
            if self.ctype == "indexed":
                return ["set_data", {"data": gen_values(rng, n)}]
            d = np.array([gen_values(rng, n), gen_values(rng, n)])
            if n != 2 and rng.random() < 0.5:
                d = d.T
            return ["set_data", {"data": d.tolist()}]
        if kind == "set_x":
            return ["set_x", {"x": gen_values(rng, n)}]
        if kind == "set_y":
            return ["set_y", {"y": gen_values(rng, n)}]
        if kind == "fill":
            lo, hi = self.range
            w = hi - lo
            m = int(rng.integers(1, 25))
            return ["fill", {"entries": [float(x) for x in rng.uniform(lo - 0.15 * w, hi + 0.15 * w, m)]}]
        if kind == "rebin":
            lo, hi = self.range
            w = hi - lo
            e = np.sort(rng.uniform(lo - 0.1 * w, hi + 0.1 * w, n + 1))
            e = e + np.arange(n + 1) * 1e-3 * w  # strictly increasing
            self.range = (float(e[0]), float(e[-1]))
            return ["rebin", {"edges": [float(x) for x in e]}]
        if kind == "set_bins":
            mode = int(rng.integers(0, 4))
            if mode == 0:
                h = rng.integers(0, 6, n)  # small counts, zeros and duplicates
            elif mode == 1:
                h = rng.integers(1, 2000, n)
            elif mode == 2:
                h = rng.integers(0, 50, n) * 10 ** int(rng.integers(0, 5))
            else:
                h = rng.poisson(float(rng.uniform(0.5, 30.0)), n)
            uo = rng.random() < 0.4
            self.manual = True
            return [
                "set_bins",
                {
                    "heights": [float(x) for x in h],
                    "float": bool(rng.random() < 0.3),
                    "as_array": bool(rng.random() < 0.5),
                    "underflow": int(rng.integers(0, 10)) if uo else None,
                    "overflow": int(rng.integers(0, 10)) if uo else None,
                },
            ]
        if kind == "set_parameters":
            npar = len(self.init["parameters"])
            p = rng.uniform(-3.0, 3.0, npar)
            if rng.random() < 0.15:
                p[int(rng.integers(0, npar))] = 0.0
            return ["set_parameters", {"parameters": rlist(p)}]
        raise AssertionError(kind)

    def read(self, what=None, ax=None):
        if what is None and ax is None and self.past_reads and self.rng.random() < 0.5:
            # repeat an earlier read: only then "restores the previous total exactly" can be observed
            what, spec = self.past_reads[int(self.rng.integers(0, len(self.past_reads)))]
            return ["read", {"what": what, "axis": spec}]
        what = what or READS[int(self.rng.integers(0, len(READS)))]
        spec = self.axis_spec(ax)
        if what != "data":
            self.past_reads.append((what, spec))
        return ["read", {"what": what, "axis": spec}]

    def mutator(self, kind, ax=None):
        if kind in ADD_KINDS:
            return self.add(kind, ax)
        if kind == "disable_error":
            return self.disable()
        if kind == "enable_error":
            return self.enable()
        return self.value_change(kind)

    def random_op(self):
        rng = self.rng
        r = rng.random()
        if r < 0.40:
            return self.read()
        if r < 0.65 or not self.sources:
            if len(self.sources) >= 6:
                return self.read()
            return self.add(ADD_KINDS[int(rng.integers(0, len(ADD_KINDS)))])
        if r < 0.82:
            op = self.enable() if rng.random() < 0.7 else self.disable()
            return op or self.disable() or self.enable() or self.read()
        return self.value_change(self.pick_vc())

    def pick_vc(self):
        vcs = VALUE_CHANGES[self.ctype]
        if self.manual:
            vcs = ["set_bins"]
        elif "set_bins" in vcs and (not self.allow_set_bins or self.rng.random() < 0.7):
            vcs = [v for v in vcs if v != "set_bins"]  # set_bins ends fill / rebin for good: keep it the rarer choice
        return vcs[int(self.rng.integers(0, len(vcs)))]


def gen_init(rng, ctype, n):
    if ctype == "indexed":
        return {"data": gen_values(rng, n)}
    if ctype == "xy":
        return {"x": gen_values(rng, n), "y": gen_values(rng, n)}
    if ctype == "hist":
        lo = r6(rng.uniform(-5.0, 5.0))
        hi = r6(lo + rng.uniform(1.0, 10.0))
        if rng.random() < 0.5:
            return {"edges": None, "range": [lo, hi]}
        e = np.sort(rng.uniform(lo, hi, n + 1)) + np.arange(n + 1) * 1e-3 * (hi - lo)
        e = [float(x) for x in e]
        return {"edges": e, "range": [e[0], e[-1]]}
    if ctype == "indexed_model":
        return {"family": ["lin2", "sq"][int(rng.integers(0, 2))], "b0": gen_values(rng, n), "b1": gen_values(rng, n), "parameters": rlist(rng.uniform(-3.0, 3.0, 2))}
    if ctype == "xy_model":
        fam = ["lin", "quad"][int(rng.integers(0, 2))]
        return {"family": fam, "x": gen_values(rng, n), "parameters": rlist(rng.uniform(-3.0, 3.0, 2 if fam == "lin" else 3))}
    if ctype == "hist_model":
        lo = r6(rng.uniform(-5.0, 5.0))
        hi = r6(lo + rng.uniform(1.0, 10.0))
        e = np.sort(rng.uniform(lo, hi, n + 1)) + np.arange(n + 1) * 1e-3 * (hi - lo)
        return {"edges": [float(x) for x in e], "bin_evaluation": ["rectangle", "trapezoid", "simpson"][int(rng.integers(0, 3))], "parameters": rlist(rng.uniform(-3.0, 3.0, 2))}
    raise AssertionError(ctype)


def gen_case(rng, tier, idx, stratum=None):
    """A complete, JSON-able, replayable case. `stratum` = (ctype, mutator kind, read) forces that bigram somewhere."""
    lmax = 14 if tier == "quick" else 40
    ctype = stratum[0] if stratum else CTYPES[int(rng.integers(0, len(CTYPES)))]
    n = int(rng.integers(2, 11)) if rng.random() > 0.04 else 1
    init = gen_init(rng, ctype, n)
    g = Gen(rng, ctype, n, init)
    ops = []
    if ctype == "hist" and rng.random() < 0.7:
        ops.append(g.value_change("fill"))
    if stratum:
        _, mk, rw = stratum
        g.allow_set_bins = mk not in ("fill", "rebin")  # these two must still be accepted when their turn comes
        for _ in range(int(rng.integers(0, 4))):
            ops.append(g.random_op())
        ax = int(rng.integers(0, 2)) if g.is_xy else None
        probe = mk in ALL_VC and rw != "data"
        if probe and len(VC_AXES[(ctype, mk)]) == 2:
            ax = READS.index(rw) % 2  # both axes in every shard, whatever the random numbers
        elif mk in ("set_x", "set_parameters") and ctype == "xy_model":
            ax = 0 if (mk == "set_x" and rng.random() < 0.5) else 1
        elif mk == "set_x":
            ax = 0
        elif mk == "set_y":
            ax = 1
        # prerequisites
        if mk == "disable_error" and not any(s["enabled"] for s in g.sources):
            ops.append(g.add(ADD_KINDS[int(rng.integers(0, 6))], ax))
        if mk == "enable_error" and not any(not s["enabled"] for s in g.sources):
            if not any(s["enabled"] for s in g.sources):
                ops.append(g.add(ADD_KINDS[int(rng.integers(0, 6))], ax))
            if rng.random() < 0.7:
                ops.append(g.read(None, ax))
            ops.append(g.disable())
            if rng.random() < 0.5:
                ops.append(g.read(None, ax))
        if mk in ("disable_error",) and rng.random() < 0.7:
            ops.append(g.read(rw, ax))
        if probe:
            # relative source on the axis, its total read (cached), the value change, the uncertainty again straight away
            ops.append(g.add(["add_error.rel", "add_matrix.cov.rel", "add_matrix.cor.rel"][int(rng.integers(0, 3))], ax))
            ops.append(g.read(rw if rng.random() < 0.5 else READS[int(rng.integers(0, 5))], ax))
        elif mk in ALL_VC and rng.random() < 0.8:
            ops.append(g.add(["add_error.rel", "add_matrix.cov.rel", "add_matrix.cor.rel"][int(rng.integers(0, 3))], ax))
            if rng.random() < 0.8:
                ops.append(g.read(rw if rng.random() < 0.5 else None, ax))
        ops.append(g.mutator(mk, ax if mk in ADD_KINDS else None))
        ops.append(g.read(rw, ax if (probe or rng.random() < 0.85) else None))
        g.allow_set_bins = True
        if mk == "disable_error" and rng.random() < 0.8:
            ops.append(g.enable())
            ops.append(g.read(rw, ax))
    while len(ops) < lmax and (len(ops) < 3 or rng.random() < (0.88 if tier == "quick" else 0.96)):
        ops.append(g.random_op())
    ops = [o for o in ops if o is not None][:lmax]
    return {"property": PROPERTY, "index": idx, "ctype": ctype, "n": n, "init": init, "ops": ops}


# ------------------------------------------------------------------ running
def run_case(ctx, case, planned):
    """Executes `planned` op by op; `case["ops"]` grows with the executed prefix (so a witness carries exactly what ran)."""
    st = State(case)
    for i, op in enumerate(planned):
        case["ops"].append(op)
        nv = n_viol(ctx)
        cont = apply_op(ctx, st, op, i)
        if n_viol(ctx) != nv or not cont:
            break  # first divergence ends the history
    fl = st.flags
    return bool(fl["nt_a"] or fl["nt_b"] or fl["nt_c"])


def run_unbinned(ctx, case):
    data = case["init"]["data"]
    n = len(data)
    obj = UnbinnedContainer(list(data))
    case["ops"] = [["add_error", {}], ["add_matrix_error", {}], ["read", {}]]
    for call in (lambda: obj.add_error(0.1), lambda: obj.add_error(np.ones(n) * 0.1, relative=True), lambda: obj.add_matrix_error(np.eye(n), "cov"), lambda: obj.add_error()):
        raised = None
        try:
            call()
        except Exception as e:
            raised = e
        ctx.check("unbinned.refuses", raised is not None and not obj.has_errors, lambda: {"what": "UnbinnedContainer accepted an uncertainty source", "raised": repr(raised)}, key=None)
    ctx.check("unbinned.refuses", bool(np.array_equal(obj.err, np.zeros(n)) and np.array_equal(obj.cov_mat, np.zeros((n, n)))), lambda: {"what": "UnbinnedContainer total uncertainty not zero", "err": obj.err}, key=None)
    return False


def run_covmat(ctx, case, planned):
    """Direct history on kafe2.core.error.CovMat (the matrix helper with its own caches)."""
    m = np.array(case["init"]["matrix"], dtype=float)
    cm = kerr.CovMat(m)
    scale = np.abs(m)
    for i, op in enumerate(planned):
        case["ops"].append(op)
        k, a = op
        ctx.op("covmat." + k)
        nv = n_viol(ctx)
        try:
            if k == "set_mat":
                m = np.array(a["matrix"], dtype=float)
                scale = np.abs(m)
                cm.mat = m
            elif k == "iadd":
                o = np.array(a["matrix"], dtype=float)
                m = m + o
                scale = scale + np.abs(o)
                cm += kerr.CovMat(o)
            elif k == "add":
                o = np.array(a["matrix"], dtype=float)
                m = m + o
                scale = scale + np.abs(o)
                cm = cm + kerr.CovMat(o)
            elif k == "rescale":
                old, new = np.array(a["old"], dtype=float), np.array(a["new"], dtype=float)
                f = np.outer(new, new) / np.outer(old, old)
                m = m * f
                scale = scale * np.abs(f)
                cm.rescale(old, new)
            elif k == "read":
                w = a["what"]
                if w == "mat":
                    ok, why = cmp_cov(cm.mat, m, scale * 4)
                    ctx.check("covmat.mat", ok and len(cm) == m.shape[0], lambda: {"op_index": i, "got": cm.mat, "expected": m, "why": why}, key=None)
                elif w == "cor_mat":
                    got = cm.cor_mat
                    ok, why = cmp_cor(np.asarray(got), m, scale * 4)
                    ctx.check("covmat.cor_mat", ok, lambda: {"op_index": i, "got": got, "expected": expected_cor(m, scale)[0], "why": why}, key=None)
                elif w == "I":
                    status, why = cmp_inv(cm.I, m, scale)
                    if status == "skip":
                        ctx.discard("covmat-inverse-not-compared-cond>1e8")
                    else:
                        ctx.check("covmat.inverse", status in ("ok", "none-ok"), lambda: {"op_index": i, "got": cm.I, "matrix": m, "why": why}, key=None)
                elif w == "cond":
                    c = cond_of(m)
                    got = cm.cond
                    if np.isfinite(c) and c <= COND_MAX:
                        ctx.check("covmat.cond", bool(abs(got - c) <= 1e-6 * c), lambda: {"op_index": i, "got": got, "expected": c}, key=None)
                elif w == "chol":
                    c = cond_of(m)
                    got = cm.chol
                    if np.isfinite(c) and c <= COND_MAX:
                        ok = got is not None and cmp_cov(got @ got.T, m, np.abs(got) @ np.abs(got.T) * 1e3)[0]
                        ctx.check("covmat.chol", bool(ok), lambda: {"op_index": i, "got": got, "matrix": m}, key=None)
            else:
                raise AssertionError(k)
        except AssertionError as e:
            if isinstance(e, CovMatInvariantViolation):
                ctx.violation(None, "covmat.invariant", {"op_index": i, "op": op, "raised": repr(e)})
            else:
                raise
        except Exception as e:
            ctx.violation(None, "covmat.op-raised", {"op_index": i, "op": op, "raised": repr(e), "traceback": fmt_exc()})
        if n_viol(ctx) != nv:
            break
    return False


def gen_covmat_case(rng, tier, idx):
    n = int(rng.integers(1, 9))
    ops = []
    for _ in range(int(rng.integers(4, 12))):
        r = rng.random()
        if r < 0.5:
            ops.append(["read", {"what": ["mat", "cor_mat", "I", "cond", "chol"][int(rng.integers(0, 5))]}])
        elif r < 0.62:
            ops.append(["set_mat", {"matrix": gen_psd(rng, n, float(rng.uniform(0.1, 3.0))).tolist()}])
        elif r < 0.76:
            ops.append(["iadd", {"matrix": gen_psd(rng, n, float(rng.uniform(0.1, 3.0))).tolist()}])
        elif r < 0.88:
            ops.append(["add", {"matrix": gen_psd(rng, n, float(rng.uniform(0.1, 3.0))).tolist()}])
        else:
            ops.append(["rescale", {"old": rlist(rng.uniform(0.5, 5.0, n) * rng.choice([-1.0, 1.0], n)), "new": rlist(rng.uniform(0.5, 5.0, n) * rng.choice([-1.0, 1.0], n))}])
    # every mutator kind at least once, each followed by the three cached reads
    for k in ("set_mat", "iadd", "add", "rescale"):
        if not any(o[0] == k for o in ops):
            if k == "rescale":
                ops.append(["rescale", {"old": rlist(rng.uniform(0.5, 5.0, n)), "new": rlist(rng.uniform(0.5, 5.0, n))}])
            else:
                ops.append([k, {"matrix": gen_psd(rng, n, 1.0).tolist()}])
            for w in ("cor_mat", "I", "mat"):
                ops.append(["read", {"what": w}])
    return {"property": PROPERTY, "index": idx, "ctype": "covmat", "n": n, "init": {"matrix": gen_psd(rng, n, float(rng.uniform(0.1, 3.0))).tolist()}, "ops": ops}


def execute(ctx, full):
    """Run one complete case under ctx (begin_case .. end_case). Returns nothing; witnesses land in ctx."""
    planned = full["ops"]
    case = dict(full, ops=[])
    ctx.begin_case(case)
    nontrivial = False
    try:
        if full["ctype"] == "unbinned":
            nontrivial = run_unbinned(ctx, case)
        elif full["ctype"] == "covmat":
            nontrivial = run_covmat(ctx, case, planned)
        else:
            nontrivial = run_case(ctx, case, planned)
    except Exception:
        ctx.violation(None, "unexpected-exception", {"traceback": fmt_exc()})
        nontrivial = False
    return case, nontrivial


# ------------------------------------------------------------------ shrinking a witness (shortest failing sub-history)
_shrunk = {}


def first_violation(full, tier):
    c2 = Ctx(PROPERTY, tier, 0)
    execute(c2, full)
    c2.end_case(nontrivial=False)
    if not c2.witnesses:
        return None
    w = c2.witnesses[0]
    return (w["key"], w["observable"]), w


def shrink(full, executed_ops, target, tier):
    """Greedy removal of single ops (never the last one) while the same (key, observable) is still the first violation."""
    ops = list(executed_ops)
    best = None
    changed = True
    rounds = 0
    while changed and rounds < 4:
        changed = False
        rounds += 1
        j = len(ops) - 2
        while j >= 0:
            trial = ops[:j] + ops[j + 1 :]
            try:
                r = first_violation(dict(full, ops=trial), tier)
            except Exception:
                r = None
            if r is not None and r[0] == target:
                ops = trial
                best = r[1]
                changed = True
            j -= 1
    return ops, best


def shrink_new_witnesses(ctx, full, n_before):
    for w in ctx.witnesses[n_before:]:
        if w["observable"] in ("unexpected-exception",) or full["ctype"] in ("unbinned", "covmat"):
            continue
        tgt = (w["key"], w["observable"])
        if _shrunk.get(tgt, 0) >= 3:
            continue
        _shrunk[tgt] = _shrunk.get(tgt, 0) + 1
        try:
            ops, best = shrink(full, w["case"]["ops"], tgt, ctx.tier)
        except Exception:
            continue
        if best is not None:
            w["shrunk_from_ops"] = len(w["case"]["ops"])
            w["case"] = best["case"]
            w["detail"] = best["detail"]


def run_shard(ctx):
    attach_contracts()
    strata = all_strata()
    # every shard walks through all strata, starting at its own offset, before sampling freely
    off = (ctx.shard * len(strata)) // max(1, ctx.nshards)
    order = strata[off:] + strata[:off]
    idx, sj = 0, 0
    while ctx.more():
        if idx == 0 or (idx > 50 and ctx.rng.random() < 0.01):
            full = {"property": PROPERTY, "index": idx, "ctype": "unbinned", "n": 0, "init": {"data": gen_values(ctx.rng, int(ctx.rng.integers(1, 8)))}, "ops": []}
        elif idx % 12 == 1:
            full = gen_covmat_case(ctx.rng, ctx.tier, idx)
        elif sj < len(order):
            s = order[sj]
            sj += 1
            ctx.stratum(*s)
            full = gen_case(ctx.rng, ctx.tier, idx, stratum=s)
        else:
            full = gen_case(ctx.rng, ctx.tier, idx)
        idx += 1
        nw = len(ctx.witnesses)
        case, nontrivial = execute(ctx, full)
        if len(ctx.witnesses) > nw:
            shrink_new_witnesses(ctx, full, nw)
        ctx.end_case(nontrivial=nontrivial)


def replay(ctx, case):
    attach_contracts()
    full = dict(case)
    execute(ctx, full)
    ctx.end_case(nontrivial=True)
