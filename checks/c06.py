"""C06 — the reported optimum is a true local minimum within bounds; fixed values untouched.

Shape: post-condition monitor on do_fit using an independent objective.  The reference full cost
(vlib.ref: parameter-dependent V(p) with analytic slopes, model-relative sigma, documented -2 ln L) is
evaluated at the reported optimum, at probe points around it and polished by Nelder-Mead; a strictly lower
admissible point (by more than the minimizer tolerance) refutes the local-minimum clause.  Fixed parameters
must keep exactly their values, limited ones stay inside their closed limits, both backends must agree to a
small fraction of the reference uncertainty, and the iterative algorithm must return a fixed point.
Case kinds: single fits (xy / indexed / hist / unbinned) and 'multi' (two xy / indexed members sharing parameters, joined by MultiFit;
reference objective = sum of the members' reference costs; members with and without parameter-dependent uncertainties in all
combinations; fixed / limited parameters declared on the MultiFit or on a member before the MultiFit is created).
"""
import numpy as np
from scipy import optimize

from vlib import gen
from vlib.fitcase import Member
from vlib.models import Model
from vlib.monitor import fmt_exc
from vlib.ref import COST_ALIASES, NEEDS_ERRORS, POISSON, cost_formula, pd_info

PROPERTY = "C06"
TIERS = {"quick": {"shards": 8, "budget_s": 50}, "thorough": {"shards": 16, "budget_s": 600}}
RULE = (
    "nonlinear family (exponential, powerlaw, gausspeak, lorentz, sinusoid, logistic; densities normal/expdens/mixture) as xy / indexed / hist / unbinned fit; "
    "data = model + declared noise; sources: y / x / model-relative / correlated; costs chi2, chi2_pointwise, nll_gaussian, nll_poisson, nllr_poisson, gauss_approximation, unbinned nll; "
    "dynamic_error_algorithm in {nonlinear, iterative}; random fixed / limited subsets incl. limits that cut the optimum off; both backends fitted on every case; "
    "every fifth case of a shard is a MultiFit of two xy / indexed members of nonlinear families (same family: all parameters shared; exponential+powerlaw, gausspeak+lorentz: "
    "partly shared; signature order permuted with p = 0.3), data of both members drawn from one truth, every member with its own sources, no shared source; per member "
    "'dynamic' (x source or source relative to the model) or 'static' (absolute y sources only) in all combinations and both orders (mixed : all-dynamic : none-dynamic = 4 : 1 : 1); "
    "fixed / limited parameters declared on the MultiFit or (a third of the multi-fits, enumerated: fixed + active limit / active limit / random) on a member fit before the MultiFit is created from the members; start values 7 % (all families) or up to 30 % (monotone families, p = 0.7) off the defaults; "
    "the xy cases of every fourth round of a shard are the stratum 'flat-start-correlated-x' (monotone family, correlated x source, start amplitude 0); "
    "non-trivial = parameter-dependent covariance (x or model-relative source) or an active limit or a fixed parameter; distinct by case hash"
)
ASSUMPTIONS = [
    "well-posed problems only: data drawn from the model with independent noise (the base y source is uncorrelated; correlated sources come on top), start within the basin of the truth; a backend disagreement where each backend started at the other optimum stays there (two stable local minima) is discarded and counted; cases whose reference Hessian (at the optimum over interior free parameters, and at any lower point found over all free parameters) is not positive definite or has cond > 1e4 are discarded and counted",
    "local-minimum clause: violation iff an admissible point (probes at +-{0.1,0.5,1} sigma per free axis, 8 random directions, Nelder-Mead polish) has reference cost lower than at the reported optimum by more than 1e-3 (iminuit) / 5e-3 (scipy)",
    "iterative algorithm: the local-minimum clause is replaced by the fixed-point clause (minimising the cost with the covariance frozen at the reported optimum must stay within 2e-2 reference sigma for iminuit, 1e-1 for scipy = two scipy states of 5e-2 each; observed 0.061)",
    "multi-fits: the reference objective is the sum of the members' reference costs over the union of the parameter names (members share parameters only; sources shared through MultiFit.add_error are the workload of C10 / C11); the members use the default 'nonlinear' algorithm (the MultiFit's own dynamic_error_algorithm argument is not consulted by kafe2); a parameter fixed / limited on a member fit before the MultiFit is created counts as fixed / limited for the combined fit (for a shared parameter: declared on one of the members that have it); the same clauses, tolerances and well-posedness rules as for single fits apply to the joint optimum",
    "a local-minimum alarm of the scipy backend is attributed to the open scipy-adapter finding by the 'do_fit() again continues' signature only if iminuit's optimum of the same case passed the clause (or rests on a limit): a failure that both backends share is not a property of the scipy adapter",
    "a fixed-point alarm is attributed to the finding 'the iterative algorithm returns unconverged after max_iterations' iff (a) a fresh do_fit() of the same case runs all 1 + max_iterations passes (counted at FitBase._post_fit_iteration) and (b) the reference iteration map T (covariance frozen at a point, documented cost minimised over the interior free parameters) alternates at the reported optimum p without contracting by a factor 2: with q = T(p), (T(q) - q).(q - p) < 0 and |T(q) - q| >= 0.5 |q - p| in reference sigma (a result that stopped short of a fixed point the iteration settles on has T(q) next to q and stays unclassified, as does any result reached in fewer passes)",
    "cross-backend clause uses sigma from the reference Hessian over interior free parameters (1e-1 sigma = sum of the per-backend tolerances of C05, rounded up); a parameter on a limit must be on the same limit for both backends",
]
ANCHORS = [
    ("kafe2.fit._base.fit", "FitBase.do_fit"),
    ("kafe2.fit._base.fit", "FitBase._set_data_as_model_ref"),
    ("kafe2.fit._base.fit", "FitBase._pre_fit_iteration"),
    ("kafe2.fit._base.fit", "FitBase._post_fit_iteration"),
    ("kafe2.fit._base.fit", "FitBase._iterative_fits_needed"),
    ("kafe2.fit._base.fit", "FitBase._second_fit_needed"),
    ("kafe2.fit.xy.fit", "XYFit._get_node_names_to_freeze"),
    ("kafe2.fit.xy.fit", "XYFit._second_fit_needed"),
    ("kafe2.fit.xy.fit", "XYFit._iterative_fits_needed"),
    ("kafe2.fit.multi.fit", "MultiFit.do_fit"),
    ("kafe2.fit.multi.fit", "MultiFit._second_fit_needed"),
    ("kafe2.fit.multi.fit", "MultiFit._iterative_fits_needed"),
    ("kafe2.fit.multi.fit", "MultiFit._set_data_as_model_ref"),
    ("kafe2.fit.multi.fit", "MultiFit._pre_fit_iteration"),
    ("kafe2.fit.multi.fit", "MultiFit._post_fit_iteration"),
    ("kafe2.fit.multi.fit", "MultiFit.fix_parameter"),
    ("kafe2.fit.multi.fit", "MultiFit._init_nexus"),
    ("kafe2.core.fitters.nexus_fitter", "NexusFitter.fix_parameter"),
    ("kafe2.core.fitters.nexus_fitter", "NexusFitter.limit_parameter"),
    ("kafe2.core.minimizers.iminuit_minimizer", "MinimizerIMinuit.limit"),
    ("kafe2.core.minimizers.iminuit_minimizer", "MinimizerIMinuit.fix"),
    ("kafe2.core.minimizers.scipy_optimize_minimizer", "MinimizerScipyOptimize.limit"),
    ("kafe2.core.minimizers.scipy_optimize_minimizer", "MinimizerScipyOptimize.fix"),
    ("kafe2.core.minimizers.scipy_optimize_minimizer", "MinimizerScipyOptimize.minimize"),
    ("kafe2.core.minimizers.scipy_optimize_minimizer", "MinimizerScipyOptimize._func_wrapper"),
]


def floors(tier):
    return {
        "comparisons": {"local-minimum": 60, "fixed-exact": 30, "within-limits": 30, "backends-agree": 40, "iterative-fixed-point": 15,
                        "local-minimum(multi, mixed)": 16, "local-minimum(multi, all-dynamic)": 4, "local-minimum(multi, none-dynamic)": 4, "backends-agree(multi)": 12, "fixed-exact(multi)": 4,
                        "fixed-exact(multi, fixed on a member before creation)": 4, "within-limits(multi, limited on a member before creation)": 6},
        "ops": ["do_fit", "multi.do_fit", "member.fix_parameter(before MultiFit)", "member.limit_parameter(before MultiFit)"],
        "reach": ["%s:%s" % a for a in ANCHORS],
        "strata": ["xy", "indexed", "hist", "unbinned", "x-source", "model-relative-source", "iterative", "nonlinear", "fixed", "limited", "active-limit", "flat-start-correlated-x", "staged:limited-parameter-fixed-then-released", "staged:limit-first", "staged:fix-first",
                   "multi", "multi:mixed", "multi:mixed:dynamic-first", "multi:mixed:static-first", "multi:all-dynamic", "multi:none-dynamic", "multi:x-source", "multi:model-relative-source", "multi:far-start", "multi:partly-shared-parameters",
                   "multi:member-fixed-before-creation", "multi:member-limited-before-creation", "multi:member-active-limit-before-creation"],
        "sets": {"multi-member": 12},
        "distinct_nontrivial": 40,
    }


# ------------------------------------------------------------------ generation
MULTI_COMBOS = [("dynamic", "static"), ("static", "dynamic"), ("dynamic", "dynamic"), ("dynamic", "static"), ("static", "static"), ("static", "dynamic")]
MULTI_FAMILIES = [("exponential", "exponential"), ("powerlaw", "powerlaw"), ("exponential", "powerlaw"), ("logistic", "logistic"), ("gausspeak", "gausspeak"), ("gausspeak", "lorentz"), ("lorentz", "lorentz"), ("sinusoid", "sinusoid")]
MONOTONE = ("exponential", "powerlaw", "logistic")


def multi_names(case):
    """parameter names of the multi-fit: union of the members' names in order of first appearance"""
    names = []
    for mbr in case["members"]:
        for nm in Model.from_spec(mbr["spec"]["model"]).pnames:
            if nm not in names:
                names.append(nm)
    return names


def gen_fixed_limited(rng, pnames, defaults, force_fixed=False, force_active_limit=False):
    fixed, limited = {}, {}
    if len(pnames) >= 2 and (rng.random() < 0.35 or force_fixed):
        nm = pnames[int(rng.integers(0, len(pnames)))]
        fixed[nm] = float(np.round(defaults[pnames.index(nm)] * rng.uniform(0.97, 1.03), 5))
    if rng.random() < 0.45 or force_active_limit:
        cand = [q for q in pnames if q not in fixed]
        nm = cand[int(rng.integers(0, len(cand)))]
        c = float(defaults[pnames.index(nm)])
        w = abs(c) * 0.6 + 0.3
        if rng.random() < 0.5 or force_active_limit:
            # limits that cut the optimum off on one side (active limit)
            off = (abs(c) * 0.03 + 0.02) * (1 if rng.random() < 0.5 else -1)
            limited[nm] = [float(np.round(c + off, 4)), float(np.round(c + off + w, 4))] if off > 0 else [float(np.round(c + off - w, 4)), float(np.round(c + off, 4))]
        else:
            limited[nm] = [float(np.round(c - w, 4)), float(np.round(c + w, 4))]
    return fixed, limited


def gen_multi(rng, tier, k, shard):
    """two xy / indexed members joined by MultiFit: same-named parameters are shared (one truth), every member declares its own sources;
    per member either 'dynamic' (an x source or a source relative to the model: the covariance follows the parameters) or 'static'
    (absolute y sources only); all four combinations, both orders"""
    combo = MULTI_COMBOS[(k + shard) % len(MULTI_COMBOS)]
    fams = MULTI_FAMILIES[int(rng.choice(len(MULTI_FAMILIES), p=[0.2, 0.15, 0.15, 0.15, 0.1, 0.1, 0.05, 0.1]))]
    if rng.random() < 0.5:
        fams = fams[::-1]
    truth, defaults = {}, {}
    members = []
    for j, (fam, mode) in enumerate(zip(fams, combo)):
        m0 = Model(fam)
        for nm, d in zip(m0.pnames, m0.defaults):
            if nm not in truth:
                defaults[nm] = float(d)
                truth[nm] = float(np.round(d * (1.0 + rng.uniform(-0.1, 0.1)) + rng.uniform(-0.02, 0.02), 6))
        dyn = None
        if mode == "dynamic":
            dyn = "x" if rng.random() < 0.55 else "model-relative"
        ftype = "xy" if dyn == "x" else str(rng.choice(["xy", "indexed"], p=[0.65, 0.35]))
        order = list(range(len(m0.pnames)))
        if rng.random() < 0.3:
            order = [int(i) for i in rng.permutation(len(order))]  # the same model with another signature order
        m = Model(fam, order=order, name="m%d_%s_model" % (j, fam), defaults=[defaults[m0.pnames[i]] for i in order])
        npts = int(rng.integers(len(m.pnames) + 4, 14))
        x = gen.gen_x(rng, npts, kind="increasing" if fam == "powerlaw" else None)
        if fam == "powerlaw":
            x = [abs(v) + 0.2 for v in x]
        y = m.f(np.array(x), [truth[nm] for nm in m.pnames])
        y = y + rng.normal(size=npts) * 0.04 * (np.abs(y).mean() + 0.1)
        y = [float(np.round(v, 5)) for v in y]
        cost = str(rng.choice(["chi2", "chi2", "chi2_pointwise", "nll_gaussian"]))
        spec = {"type": ftype, "model": m.spec(), "cost": cost, "x": x, "minimizer": None, "dea": "nonlinear"}
        spec["y" if ftype == "xy" else "data"] = y
        ys = float(np.mean(np.abs(y)) + 0.3)
        pre = "m%d" % j
        setup = [gen.gen_source(rng, npts, ftype, pre + "e0", yscale=ys * 0.5, force={"axis": "y", "reference": "data", "kind": "simple", "shape": "vec", "relative": False, "corr": 0.0})]
        if dyn == "x":
            setup.append(["add_error", {"axis": "x", "err": float(np.round(rng.uniform(0.03, 0.12), 4)), "relative": False, "reference": str(rng.choice(["data", "model"])), "corr": float(rng.choice([0.0, 0.0, 0.6])), "name": pre + "e1"}])
        elif dyn == "model-relative":
            setup.append(["add_error", dict({"err": float(np.round(rng.uniform(0.03, 0.1), 4)), "relative": True, "reference": "model", "corr": float(rng.choice([0.0, 0.0, 0.3])), "name": pre + "e1"}, **({"axis": "y"} if ftype == "xy" else {}))])
        elif rng.random() < 0.3:
            setup.append(gen.gen_source(rng, npts, ftype, pre + "e1", yscale=ys * 0.4, force={"axis": "y", "reference": "data", "kind": "matrix", "relative": False}))
        members.append({"spec": spec, "setup": setup, "mode": mode, "dynamic": dyn})
    case = {"property": "C06", "kind": "multi", "members": members}
    names = multi_names(case)
    dvals = [defaults[nm] for nm in names]
    # where the fixed / limited parameters are declared: on the MultiFit, or (a third of the multi-fits, enumerated) on a member fit that
    # has the parameter, BEFORE the MultiFit is created from the members; of these, by turns: one fixed parameter and a limit that cuts
    # the optimum off / such a limit only / random
    on_member = ((k // 6) + k) % 3 == 0
    sub = (k // 3) % 3 if on_member else 2
    fixed, limited = gen_fixed_limited(rng, names, dvals, force_fixed=sub == 0, force_active_limit=sub in (0, 1))
    declared_on = {}
    if on_member:
        for _ in range(20):
            if fixed or limited:
                break
            fixed, limited = gen_fixed_limited(rng, names, dvals)
        for nm in list(fixed) + list(limited):
            owners = [j for j, mbr in enumerate(members) if nm in Model.from_spec(mbr["spec"]["model"]).pnames]
            declared_on[nm] = int(owners[int(rng.integers(0, len(owners)))])
    # the covariance of the first (frozen) pass is the one at the start values: start well away from the optimum where the family
    # has a single basin
    far = all(f in MONOTONE for f in fams) and rng.random() < 0.7
    lo_, hi_ = (0.75, 1.3) if far else (0.93, 1.07)
    start = {nm: float(np.round(d * rng.uniform(lo_, hi_), 5)) for nm, d in zip(names, dvals) if nm not in fixed}
    for nm, (lo, hi) in limited.items():
        if nm in start:
            start[nm] = float(np.clip(start[nm], lo + 1e-3 * (hi - lo), hi - 1e-3 * (hi - lo)))
    case.update({"fixed": fixed, "limited": limited, "start": start, "far_start": bool(far), "declared_on_member": declared_on})
    return case


def gen_case(rng, tier, idx, shard, nshards):
    if idx % 5 == 1:
        return gen_multi(rng, tier, idx // 5, shard)
    idx = idx - (idx + 3) // 5  # the single-fit cases keep their own enumeration
    gi = idx * nshards + shard
    ftype = ["xy", "xy", "indexed", "hist", "unbinned", "xy"][gi % 6]
    dea = ["nonlinear", "iterative"][(gi // 6) % 2] if ftype != "unbinned" else "nonlinear"
    setup = []
    if ftype == "unbinned":
        spec = gen.gen_unbinned_spec(rng, density=str(rng.choice(["normal", "expdens", "mixture"], p=[0.5, 0.3, 0.2])), n=int(rng.integers(40, 120)))
    elif ftype == "hist":
        cost = str(rng.choice(["nll_poisson", "nllr_poisson", "gauss_approximation", "chi2"]))
        spec = gen.gen_hist_spec(rng, density=str(rng.choice(["normal", "expdens"])), cost=cost, n_bins=int(rng.integers(6, 11)), n_entries=int(rng.integers(200, 600)))
        if cost == "chi2":
            n = len(spec["edges"]) - 1
            setup.append(["add_error", {"err": [float(np.round(v, 4)) for v in rng.uniform(3.0, 8.0, size=n)], "relative": False, "reference": "data", "corr": 0.0, "name": "e0"}])
    else:
        # stratum 'flat-start-correlated-x' (monotone family, correlated x source, zero start amplitude) is enumerated, not left to chance:
        # the xy slots of every fourth round of a shard (a round = 3 consecutive cases of the shard = one pass over its slots; counted per
        # shard, because gi-based selectors alias with the slot and algorithm pattern)
        force_flat = ftype == "xy" and (idx // 3) % 4 == 1
        fam = str(rng.choice(["exponential", "powerlaw", "gausspeak", "lorentz", "sinusoid", "logistic"]))
        cost = str(rng.choice(["chi2", "chi2", "chi2", "chi2_pointwise", "nll_gaussian", "nll_poisson", "chi2_fast"]))
        if force_flat:
            fam = str(rng.choice(list(MONOTONE)))
            cost = str(rng.choice(["chi2", "chi2", "chi2_pointwise", "nll_gaussian"]))
        counts = COST_ALIASES[cost] in POISSON
        npts = int(rng.integers(len(Model(fam).pnames) + 4, 14))
        spec = (gen.gen_xy_spec if ftype == "xy" else gen.gen_indexed_spec)(rng, family=fam, cost=cost, counts=counts, n=npts, noise=0.04, counts_from_model=8.0)
        ys = float(np.mean(np.abs(spec.get("y") or spec["data"])) + 0.3)
        if not counts:
            setup.append(gen.gen_source(rng, npts, ftype, "e0", yscale=ys * 0.5, force={"axis": "y", "reference": "data", "kind": "simple", "shape": "vec", "relative": False, "corr": 0.0}))
            r = rng.random()
            if force_flat:
                setup.append(["add_error", {"axis": "x", "err": float(np.round(rng.uniform(0.03, 0.12), 4)), "relative": False, "reference": str(rng.choice(["data", "model"])), "corr": float(rng.choice([0.3, 0.6])), "name": "e1"}])
            elif r < 0.35:
                setup.append(["add_error", dict({"err": float(np.round(rng.uniform(0.03, 0.1), 4)), "relative": True, "reference": "model", "corr": float(rng.choice([0.0, 0.0, 0.3])), "name": "e1"}, **({"axis": "y"} if ftype == "xy" else {}))])
            elif r < 0.6 and ftype == "xy":
                # declared on the data or on the model (x_model = x_data: the same numbers, but kept by another container)
                setup.append(["add_error", {"axis": "x", "err": float(np.round(rng.uniform(0.03, 0.12), 4)), "relative": False, "reference": str(rng.choice(["data", "model"])), "corr": float(rng.choice([0.0, 0.0, 0.6])), "name": "e1"}])
            elif r < 0.75:
                setup.append(gen.gen_source(rng, npts, ftype, "e1", yscale=ys * 0.4, force={"axis": "y", "reference": "data", "kind": "matrix", "relative": False}))
    spec["dea"] = dea
    m = Model.from_spec(spec["model"])
    fixed, limited = gen_fixed_limited(rng, list(m.pnames), list(m.defaults))
    # density parameters: keep widths positive by limits (well-posedness)
    if spec["type"] in ("hist", "unbinned"):
        for nm in m.pnames:
            if nm in ("sigma", "s1", "s2", "tau") and nm not in limited and nm not in fixed:
                # keep the whole admissible interval inside the region where the likelihood is finite in double precision
                d0 = float(m.defaults[m.pnames.index(nm)])
                limited[nm] = [float(np.round(0.3 * d0, 4)), float(np.round(4.0 * d0, 4))]
            if nm == "f" and nm not in limited and nm not in fixed:
                limited[nm] = [0.02, 0.98]
    start = {nm: float(np.round(d * rng.uniform(0.93, 1.07), 5)) for nm, d in zip(m.pnames, m.defaults) if nm not in fixed}
    if dea == "iterative" and spec["type"] in ("xy", "indexed") and spec["model"]["family"] in ("exponential", "powerlaw", "logistic") and rng.random() < 0.6:
        # monotone families have one basin: start further away, so that the covariance of the first pass (evaluated at the start values)
        # is visibly not the covariance at the optimum and the iteration has to do real work
        start = {nm: float(np.round(d * rng.uniform(0.75, 1.3), 5)) for nm, d in zip(m.pnames, m.defaults) if nm not in fixed}
    for nm, (lo, hi) in limited.items():
        if nm in start:
            start[nm] = float(np.clip(start[nm], lo + 1e-3 * (hi - lo), hi - 1e-3 * (hi - lo)))
    flat = False
    fam_ = spec["model"]["family"]
    if spec["type"] == "xy" and fam_ in ("exponential", "powerlaw", "logistic") and any(gen.norm_axis(o[1].get("axis")) == "x" and o[1].get("corr") for o in setup) and (rng.random() < 0.6 or (idx // 3) % 4 == 1):
        # start with zero amplitude: the model is flat in x there, so the projected x uncertainties (and their correlations) vanish at the
        # start values although they do not at the optimum
        from vlib.models import UNIT_PARAMS

        amp = UNIT_PARAMS[fam_][0]
        if amp in start and amp not in limited:
            start[amp] = 0.0
            flat = True
    case = {"property": "C06", "spec": spec, "setup": setup, "fixed": fixed, "limited": limited, "start": start, "flat_start": flat}
    lim_free = [nm for nm in limited if nm not in fixed]
    if dea != "iterative" and lim_free and len([q for q in m.pnames if q not in fixed]) >= 2 and ((idx // 2) % 3 == 0 or rng.random() < 0.2):
        # staged fit: a LIMITED parameter is held fixed (inside its limits) for a first fit, then released for the final one; the limits
        # declared for it have to be in force in the final fit (and the result is the same as that of the direct fit)
        nm = lim_free[int(rng.integers(0, len(lim_free)))]
        lo, hi = limited[nm]
        case["staged"] = {"name": nm, "value": float(np.round(lo + (hi - lo) * rng.uniform(0.2, 0.8), 5)), "order": str(rng.choice(["limit-first", "fix-first"])), "first_fit": bool(rng.random() < 0.7)}
    return case


# ------------------------------------------------------------------ reference objective
def make_objective(mb, names, fixed, limited, frozen_V=None):
    """reference cost as a function of the full parameter vector; +inf outside the admissible region"""
    ref = mb.ref
    fid = mb.fid

    def cost(p):
        p = np.asarray(p, dtype=float)
        for nm, (lo, hi) in limited.items():
            v = p[names.index(nm)]
            if v < lo - 1e-12 * max(1.0, abs(lo)) or v > hi + 1e-12 * max(1.0, abs(hi)):
                return np.inf
        try:
            if frozen_V is not None:
                mv = ref.model_values(p)
                if not np.all(np.isfinite(mv)):
                    return np.inf
                # documented cost of this fit with the covariance held at its value at the reported optimum
                return cost_formula(fid, ref.d, mv, frozen_V, with_logdet=False) + ref.constraint_cost(p)
            if not mb.admissible(p):
                return np.inf
            c = mb.cost(p)
            return c if np.isfinite(c) else np.inf
        except Exception:
            return np.inf

    return cost


def ref_sigma(cost, p, free_idx):
    """sigma_ref = sqrt(diag(2 H^-1)) over the given free interior parameters; None if not positive definite"""
    import numdifftools as nd

    if not free_idx:
        return None, None

    def f(q):
        pp = np.array(p, dtype=float)
        pp[free_idx] = q
        return cost(pp)

    try:
        H = nd.Hessian(f)(np.array(p, dtype=float)[free_idx])
    except Exception:
        return None, None
    if not np.all(np.isfinite(H)):
        return None, None
    H = (H + H.T) / 2.0
    ok, cond = pd_info(H)
    if not ok:
        return None, cond
    C = 2.0 * np.linalg.inv(H)
    return np.sqrt(np.diag(C)), cond


class MultiMember:
    """two member fits joined by kafe2's MultiFit, with the reference objective of the joint fit: the sum of the members' reference
    costs (each member owns its sources; nothing is shared but the parameters), over the union of the parameter names"""

    def __init__(self, case, minimizer):
        from kafe2.fit import MultiFit

        self.members = [Member(m["spec"], m["setup"], minimizer=minimizer) for m in case["members"]]
        for nm, j in case.get("declared_on_member", {}).items():
            # declared on a member fit before the MultiFit exists: stays in force for the combined fit
            if nm in case["fixed"]:
                self.members[j].fit.fix_parameter(nm, case["fixed"][nm])
            if nm in case["limited"]:
                self.members[j].fit.limit_parameter(nm, case["limited"][nm][0], case["limited"][nm][1])
        self.names = multi_names(case)
        self.idx = [[self.names.index(nm) for nm in mb.ref.model.pnames] for mb in self.members]
        self.fit = MultiFit([mb.fit for mb in self.members], minimizer=minimizer)
        self.ref = self
        self.fid = None

    def optimum(self):
        d = {str(k): float(v) for k, v in zip(self.fit.parameter_names, self.fit.parameter_values)}
        return np.array([d[nm] for nm in self.names], dtype=float)

    def model_values(self, p):
        p = np.asarray(p, dtype=float)
        return np.concatenate([mb.ref.model_values(p[ix]) for mb, ix in zip(self.members, self.idx)])

    def admissible(self, p):
        p = np.asarray(p, dtype=float)
        return all(mb.admissible(p[ix]) for mb, ix in zip(self.members, self.idx))

    def cost(self, p):
        p = np.asarray(p, dtype=float)
        return float(sum(mb.cost(p[ix]) for mb, ix in zip(self.members, self.idx)))

    def sync_from_fit(self):
        p = self.optimum()
        for mb, ix in zip(self.members, self.idx):
            mb.ref.p = p[ix].copy()


def optimum(mb):
    """reported parameter values in the order of the reference objective"""
    if isinstance(mb, MultiMember):
        return mb.optimum()
    return np.array(mb.fit.parameter_values, dtype=float)


def run_backend(case, minimizer, before_fit=None):
    mb = MultiMember(case, minimizer) if case.get("kind") == "multi" else Member(case["spec"], case["setup"], minimizer=minimizer)
    fit = mb.fit
    on_member = case.get("declared_on_member", {})
    st = case.get("staged")
    if st and st["order"] == "fix-first":
        fit.fix_parameter(st["name"], st["value"])
    for nm, v in case["fixed"].items():
        if nm not in on_member:
            fit.fix_parameter(nm, v)
    for nm, (lo, hi) in case["limited"].items():
        if nm not in on_member:
            fit.limit_parameter(nm, lo, hi)
    if st and st["order"] != "fix-first":
        fit.fix_parameter(st["name"], st["value"])
    if case["start"]:
        fit.set_parameter_values(**{k: v for k, v in case["start"].items() if not (st and k == st["name"])})
    if before_fit is not None:
        before_fit(mb)
    if st:
        if st["first_fit"]:
            fit.do_fit()
        fit.release_parameter(st["name"])
    fit.do_fit()
    mb.sync_from_fit()
    return mb


def run_case(ctx, case):
    ctx.reseed_legacy()
    multi = case.get("kind") == "multi"
    if multi:
        spec = {"dea": "nonlinear"}
        names = multi_names(case)
        modes = [m["mode"] for m in case["members"]]
        mix = "mixed" if len(set(modes)) == 2 else ("all-dynamic" if modes[0] == "dynamic" else "none-dynamic")
        ctx.stratum("multi")
        ctx.stratum("multi:" + mix)
        if mix == "mixed":
            ctx.stratum("multi:mixed:" + modes[0] + "-first")
        if case.get("far_start"):
            ctx.stratum("multi:far-start")
        for m in case["members"]:
            ctx.add_to_set("multi-member", "%s:%s:%s:%s" % (m["spec"]["type"], m["spec"]["model"]["family"], m["spec"]["cost"], m["dynamic"] or "static"))
        if len(set(m["spec"]["model"]["family"] for m in case["members"])) == 2:
            ctx.stratum("multi:partly-shared-parameters")
        setup_all = [o for m in case["members"] for o in m["setup"]]
        on_member = case.get("declared_on_member", {})
        if any(nm in on_member for nm in case["fixed"]):
            ctx.stratum("multi:member-fixed-before-creation")
            ctx.op("member.fix_parameter(before MultiFit)")
        if any(nm in on_member for nm in case["limited"]):
            ctx.stratum("multi:member-limited-before-creation")
            ctx.op("member.limit_parameter(before MultiFit)")
    else:
        spec = case["spec"]
        ctx.stratum(spec["type"])
        ctx.stratum(spec.get("dea", "nonlinear"))
        names = list(Model.from_spec(spec["model"]).pnames)
        setup_all = case["setup"]
    fixed, limited = case["fixed"], {k: tuple(v) for k, v in case["limited"].items()}
    if case.get("flat_start"):
        ctx.stratum("flat-start-correlated-x")
    if case.get("staged"):
        ctx.stratum("staged:limited-parameter-fixed-then-released")
        ctx.stratum("staged:" + case["staged"]["order"])
        ctx.op("release_parameter.then-do_fit")
    if fixed:
        ctx.stratum("fixed")
    if limited:
        ctx.stratum("limited")
    has_x = any(gen.norm_axis(o[1].get("axis")) == "x" for o in setup_all)
    has_mrel = any(o[1].get("reference") == "model" and o[1].get("relative") for o in setup_all)
    if has_x:
        ctx.stratum("multi:x-source" if multi else "x-source")
    if has_mrel:
        ctx.stratum("multi:model-relative-source" if multi else "model-relative-source")
    iterative = spec.get("dea") == "iterative" and (has_x or has_mrel)
    results = {}
    for minimizer in ("iminuit", "scipy"):
        ctx.op("multi.do_fit" if multi else "do_fit")
        try:
            results[minimizer] = run_backend(case, minimizer)
        except (np.linalg.LinAlgError, AssertionError, FloatingPointError):
            ctx.discard("do_fit-failed-numerically-" + minimizer)
            return False
        except Exception as e:
            import sys

            tb = sys.exc_info()[2]
            while tb.tb_next:
                tb = tb.tb_next
            if isinstance(e, (IndexError, RuntimeError, ZeroDivisionError, OverflowError)) and "site-packages" in tb.tb_frame.f_code.co_filename:
                ctx.discard("do_fit-failed-numerically-" + minimizer)  # nan cost inside numdifftools / scipy
                return False
            ctx.violation(None, "do_fit.no-exception", {"minimizer": minimizer, "traceback": fmt_exc()})
            return False
    nontrivial = bool(has_x or has_mrel or fixed)
    sig_by = {}
    on_limit_by = {}
    premature = {}
    stuck = {}
    oscillating = {}
    for minimizer, mb in results.items():
        p = optimum(mb)
        if not np.all(np.isfinite(p)):
            ctx.discard("non-finite-optimum")
            return nontrivial
        d = {"minimizer": minimizer, "optimum": p}
        # fixed untouched, limits respected
        for nm, v in fixed.items():
            ctx.eq("fixed-exact", float(p[names.index(nm)]), float(v), detail=d)
            if multi:
                ctx._count("fixed-exact(multi)")
                if nm in on_member:
                    ctx._count("fixed-exact(multi, fixed on a member before creation)")
        on_limit = {}
        for nm, (lo, hi) in limited.items():
            v = p[names.index(nm)]
            ctx.check("within-limits", lo - 1e-12 * max(1.0, abs(lo)) <= v <= hi + 1e-12 * max(1.0, abs(hi)), dict(d, name=nm, limits=[lo, hi], value=v))
            if multi and nm in on_member:
                ctx._count("within-limits(multi, limited on a member before creation)")
            if abs(v - lo) <= 1e-6 * max(1.0, abs(lo)) + 1e-4 * (hi - lo):
                on_limit[nm] = lo
            elif abs(v - hi) <= 1e-6 * max(1.0, abs(hi)) + 1e-4 * (hi - lo):
                on_limit[nm] = hi
        on_limit_by[minimizer] = on_limit
        if on_limit:
            ctx.stratum("active-limit")
            nontrivial = True
            if multi and any(nm in on_member for nm in on_limit):
                ctx.stratum("multi:member-active-limit-before-creation")
        cost = make_objective(mb, names, fixed, limited)
        c0 = cost(p)
        if not np.isfinite(c0):
            ctx.discard("reference-cost-not-finite-at-optimum")
            return nontrivial
        free_idx = [i for i, nm in enumerate(names) if nm not in fixed]
        interior_idx = [i for i in free_idx if names[i] not in on_limit]
        sig, cond = ref_sigma(cost, p, interior_idx)
        if sig is None or cond is None or cond > 1e4:
            ctx.discard("reference-hessian-not-pd-or-ill-conditioned")
            return nontrivial
        sig_full = np.zeros(len(names))
        sig_full[interior_idx] = sig
        sig_by[minimizer] = sig_full
        tol = 1e-3 if minimizer == "iminuit" else 5e-3
        if iterative:
            # fixed-point clause: freeze V at the reported optimum, minimise over the interior free parameters
            Vhat = mb.ref.total_cov(p)
            okV, condV = pd_info(Vhat)
            if not okV or condV > 1e8:
                ctx.discard("frozen-cov-not-pd")
                return nontrivial
            fcost = make_objective(mb, names, fixed, limited, frozen_V=Vhat)

            def g(q):
                pp = p.copy()
                pp[interior_idx] = q
                return fcost(pp)

            res = optimize.minimize(g, p[interior_idx], method="Nelder-Mead", options={"xatol": 1e-7, "fatol": 1e-10, "maxiter": 4000, "initial_simplex": simplex(p[interior_idx], sig * 0.05)})
            shift = np.abs(res.x - p[interior_idx]) / sig
            fp_ok = bool(np.all(shift <= (2e-2 if minimizer == "iminuit" else 1e-1)))
            ctx.check(
                "iterative-fixed-point",
                fp_ok,
                lambda: dict(d, refit_optimum=res.x, shift_in_sigma=shift, frozen_cost_at_optimum=g(p[interior_idx]), frozen_cost_refit=float(res.fun)),
                key=lambda: unconverged_iteration(case, minimizer, mb, names, fixed, limited, p, interior_idx, res.x, sig, oscillating),
            )
            ctx.worst["iterative_shift_sigma_" + minimizer] = max(ctx.worst.get("iterative_shift_sigma_" + minimizer, 0.0), float(shift.max()))
        else:
            best, best_p = c0, p
            rng = np.random.default_rng(abs(hash(minimizer)) % (2**31))
            probes = []
            for i in interior_idx:
                for k in (0.1, 0.5, 1.0):
                    for s in (1.0, -1.0):
                        q = p.copy()
                        q[i] += s * k * sig_full[i]
                        probes.append(q)
            # inward probes for parameters resting on a limit
            for nm, lim in on_limit.items():
                i = names.index(nm)
                lo, hi = limited[nm]
                for k in (0.001, 0.01, 0.05):
                    q = p.copy()
                    q[i] = lim + (k * (hi - lo) if lim == lo else -k * (hi - lo))
                    probes.append(q)
            for _ in range(8):
                dvec = rng.normal(size=len(interior_idx))
                dvec /= np.linalg.norm(dvec) + 1e-300
                q = p.copy()
                q[interior_idx] += dvec * sig * rng.uniform(0.1, 1.0)
                probes.append(q)
            for q in probes:
                c = cost(q)
                if c < best:
                    best, best_p = c, q
            # polish: Nelder-Mead over all free parameters (limits enforced by +inf)

            def h(qf):
                pp = p.copy()
                pp[free_idx] = qf
                return cost(pp)

            step = np.where(sig_full[free_idx] > 0, sig_full[free_idx] * 0.1, np.abs(p[free_idx]) * 1e-3 + 1e-4)
            try:
                res = optimize.minimize(h, best_p[free_idx], method="Nelder-Mead", options={"xatol": 1e-8, "fatol": 1e-9, "maxiter": 3000, "initial_simplex": simplex(best_p[free_idx], step)})
                if res.fun < best:
                    best = float(res.fun)
                    bp = p.copy()
                    bp[free_idx] = res.x
                    best_p = bp
            except Exception:
                pass
            if best < c0 - tol:
                # well-posedness at the lower point: a nearly flat valley (Hessian over all free parameters ill-conditioned) is
                # outside the quantifier; count and drop
                s2, cond2 = ref_sigma(cost, best_p, [i for i in free_idx if names[i] not in on_limit or abs(best_p[i] - on_limit[names[i]]) > 1e-3 * (limited[names[i]][1] - limited[names[i]][0])])
                if s2 is None or cond2 is None or cond2 > 1e4:
                    ctx.discard("lower-point-in-ill-conditioned-valley")
                    return nontrivial
            if best < c0 - tol and not on_limit:
                # explain-check: "local minimum" is a statement about a neighbourhood of the optimum, the probes reach out to one sigma.
                # If the cost first RISES on the way to the lower point (a barrier) and a descent with a tiny simplex (0.01 sigma)
                # started at the optimum stays there, the optimum is a genuine local minimum and the lower point belongs to a
                # neighbouring basin (seen on an unbinned two-Gaussian mixture: barrier 0.003, second minimum 0.4 sigma away, 1.2 deeper;
                # MINUIT: valid minimum, EDM 1e-5)
                try:
                    line = [cost(p + t * (best_p - p)) for t in np.linspace(0.0, 1.0, 81)]
                    first_below = next((k for k, v in enumerate(line) if v < c0 - tol), len(line))
                    barrier = max(line[: max(first_below, 1)]) - c0
                    loc = optimize.minimize(h, p[free_idx], method="Nelder-Mead", options={"xatol": 1e-9, "fatol": 1e-10, "maxiter": 3000, "initial_simplex": simplex(p[free_idx], np.where(sig_full[free_idx] > 0, sig_full[free_idx] * 0.01, 1e-5))})
                    stays = bool(np.all(np.abs(loc.x - p[free_idx]) <= 0.05 * np.where(sig_full[free_idx] > 0, sig_full[free_idx], 1.0))) and loc.fun >= c0 - tol
                    if barrier > 1e-9 * (1.0 + abs(c0)) and stays:
                        ctx.discard("lower-point-in-a-neighbouring-basin-behind-a-barrier")
                        return nontrivial
                except Exception:
                    pass
            ctx.check(
                "local-minimum",
                best >= c0 - tol,
                lambda: dict(d, reference_cost_at_optimum=c0, lower_point=best_p, reference_cost_there=best, improvement=c0 - best, tolerance=tol, sigma_ref=sig_full, on_limit=on_limit),
                key=(lambda: premature_scipy(case, results["scipy"], names, fixed, limited, tol, refit_signature=not (premature.get("iminuit") and not stuck.get("iminuit")))) if minimizer == "scipy" else (lambda: stuck_on_limit(case, results["iminuit"], names, fixed, limited, dict(on_limit), best_p, best, tol)),
            )
            if multi:
                ctx._count("local-minimum(multi, %s)" % mix)
            if best < c0 - tol:
                premature[minimizer] = True
                if minimizer == "iminuit" and on_limit:
                    stuck["iminuit"] = True
            ctx.worst["improvement_found_" + minimizer] = max(ctx.worst.get("improvement_found_" + minimizer, 0.0), float(max(0.0, c0 - best)))
    # backends agree
    if len(sig_by) == 2:
        pa = optimum(results["iminuit"])
        pb = optimum(results["scipy"])
        if multi:
            ctx._count("backends-agree(multi)")
        la, lb = on_limit_by["iminuit"], on_limit_by["scipy"]
        same_limits = set(la) == set(lb) and all(la[k] == lb[k] for k in la)
        if not same_limits:
            # one backend on a limit, the other not: compare costs instead (the optimum may sit within tolerance of the limit)
            ca = make_objective(results["iminuit"], names, fixed, limited)(pa)
            cb = make_objective(results["scipy"], names, fixed, limited)(pb)
            s_any = np.where(np.isfinite(sig_by["scipy"]) & (sig_by["scipy"] > 0), sig_by["scipy"], np.where(np.isfinite(sig_by["iminuit"]) & (sig_by["iminuit"] > 0), sig_by["iminuit"], 0.0))
            if abs(ca - cb) > 1e-2 and not premature.get("scipy") and not premature.get("iminuit") and not stuck.get("iminuit") and two_attractors(case, names, pa, pb, s_any):
                ctx.discard("backends-in-different-local-minima-both-stable")
                return nontrivial
            ctx.check(
                "backends-agree",
                abs(ca - cb) <= 1e-2,
                lambda: {"iminuit": pa, "scipy": pb, "on_limit": [la, lb], "costs": [ca, cb]},
                key=lambda: "C06/scipy-backend-accepts-unconverged-result" if premature.get("scipy") else ("C06/iminuit-stays-on-limit-it-was-started-next-to" if stuck.get("iminuit") else (UNCONVERGED_ITERATION_KEY if iterative and any(oscillating.values()) else None)),
            )
        else:
            s = np.maximum(sig_by["iminuit"], sig_by["scipy"])
            idx = [i for i, nm in enumerate(names) if nm not in fixed and nm not in la and s[i] > 0]
            dev = np.abs(pa - pb)[idx] / s[idx] if idx else np.zeros(0)
            # scipy alone is up to 5e-2 sigma away from the optimum (see C05), iminuit 1e-2: the two may differ by their sum
            tolb = 1.5e-1 if iterative else 1e-1
            agree = bool(np.all(dev <= tolb))
            if not agree:
                # parameter sets related by a symmetry of the model (sign of a width, phase + pi, ...) describe the same optimum:
                # same reference cost and same model values
                ca = make_objective(results["iminuit"], names, fixed, limited)(pa)
                cb = make_objective(results["scipy"], names, fixed, limited)(pb)
                ma, mbv = results["iminuit"].ref.model_values(pa), results["scipy"].ref.model_values(pb)
                if abs(ca - cb) <= 1e-2 and np.allclose(ma, mbv, rtol=1e-3, atol=1e-3 * (np.abs(ma).max() + 1e-300)):
                    agree = True
                    ctx.note("backends-agree-up-to-model-symmetry")
            if not agree and not premature.get("scipy") and not premature.get("iminuit") and two_attractors(case, names, pa, pb, s):
                # the cost has two separate local minima next to the start values and each backend, started in the other's minimum,
                # stays there: not the well-posed single-basin problem of the quantifier
                ctx.discard("backends-in-different-local-minima-both-stable")
                return nontrivial
            ctx.check(
                "backends-agree",
                agree,
                lambda: {"iminuit": pa, "scipy": pb, "deviation_in_sigma_ref": dev, "sigma_ref": s, "tolerance": tolb},
                key=lambda: "C06/scipy-backend-accepts-unconverged-result" if premature.get("scipy") else (UNCONVERGED_ITERATION_KEY if iterative and any(oscillating.values()) else None),
            )
            if dev.size:
                ctx.worst["backend_deviation_sigma"] = max(ctx.worst.get("backend_deviation_sigma", 0.0), float(dev.max()))
    return nontrivial


def two_attractors(case, names, pa, pb, s):
    """explain-check for a backend disagreement: True iff iminuit started at scipy's optimum and scipy started at iminuit's optimum
    both stay where they were started (within 0.1 reference sigma)"""
    try:
        for minimizer, start, in (("iminuit", pb), ("scipy", pa)):
            c2 = dict(case, start={nm: float(v) for nm, v in zip(names, start) if nm not in case["fixed"]}, staged=None)  # (a direct fit from there)
            mb = run_backend(c2, minimizer)
            p2 = optimum(mb)
            idx = [i for i, nm in enumerate(names) if nm not in case["fixed"] and s[i] > 0]
            if np.any(np.abs(p2 - start)[idx] > 0.1 * s[idx]):
                return False
        return True
    except Exception:
        return False


UNCONVERGED_ITERATION_KEY = "C06/iterative-algorithm-returns-unconverged-after-max-iterations"


def frozen_refit(mb, names, fixed, limited, at, interior_idx, start, step):
    """one step of the reference iteration map T: covariance frozen at the point `at`, documented cost minimised over the interior free
    parameters (the others stay where they are in `at`), started at `start`"""
    V = mb.ref.total_cov(at)
    ok, cond = pd_info(V)
    if not ok or cond > 1e8:
        return None
    fcost = make_objective(mb, names, fixed, limited, frozen_V=V)

    def g(q):
        pp = np.array(at, dtype=float)
        pp[interior_idx] = q
        return fcost(pp)

    res = optimize.minimize(g, np.asarray(start, dtype=float), method="Nelder-Mead", options={"xatol": 1e-7, "fatol": 1e-10, "maxiter": 4000, "initial_simplex": simplex(start, step)})
    return res.x


def count_passes(case, minimizer):
    """number of minimisations one do_fit() of this case runs (a fresh object; observed at FitBase._post_fit_iteration)"""
    n = [0]

    def hook(mb):
        post = mb.fit._post_fit_iteration

        def counted(*a, **kw):
            n[0] += 1
            return post(*a, **kw)

        mb.fit._post_fit_iteration = counted

    run_backend(case, minimizer, before_fit=hook)
    return n[0]


def unconverged_iteration(case, minimizer, mb, names, fixed, limited, p, interior_idx, q, sig, flags):
    """open finding: the iterative algorithm (refit with the uncertainties frozen at the previous optimum until the cost changes by less
    than convergence_limit, at most max_iterations times) gives up silently when the iteration alternates around the fixed point
    without settling (2-cycle, or an alternation that shrinks too slowly); do_fit() then reports the point of the last pass.
    Signature / explain-check, both parts needed:
    (a) observed on a fresh object of the same case: do_fit() ran all 1 + max_iterations passes (the loop ended because the passes were
        used up, not because the cost had settled);
    (b) reference model only: the reference iteration map T sends the reported optimum p to q = T(p) and q back towards p, by at least
        half the way: (T(q) - q).(q - p) < 0 and |T(q) - q| >= 0.5 |q - p| in reference sigma, i.e. the iteration itself alternates and
        contracts by less than a factor 2 per pass (a result that is short of a fixed point the iteration settles on has T(q) next to q)."""
    try:
        from kafe2.config import kc

        if count_passes(case, minimizer) != 1 + int(kc("fit", "iterative_do_fit", "max_iterations")):
            return None
        at = np.array(p, dtype=float)
        at[interior_idx] = q
        tq = frozen_refit(mb, names, fixed, limited, at, interior_idx, q, sig * 0.05)
        if tq is None:
            return None
        step1 = (np.asarray(q) - p[interior_idx]) / sig
        step2 = (tq - np.asarray(q)) / sig
        if float(np.dot(step1, step2)) < 0 and float(np.linalg.norm(step2)) >= 0.5 * float(np.linalg.norm(step1)):
            flags[minimizer] = True
            return UNCONVERGED_ITERATION_KEY
    except Exception:
        pass
    return None


def premature_scipy(case, mb, names, fixed, limited, tol, refit_signature=True):
    """open finding: the scipy adapter accepts whatever scipy.optimize.minimize returns (success flag ignored; with limits L-BFGS-B runs
    with ftol = 1e-6 relative reduction per iteration).  Signature / explain-check: simply calling do_fit() again on the same object
    (same backend, nothing else changed) lowers the reference cost by more than the tolerance."""
    try:
        cost = make_objective(mb, names, fixed, limited)
        c0 = cost(optimum(mb))
        # signature 2: the line search ran into an infinite cost (typically at the corner of the limits) and scipy handed the
        # start point back: no free parameter moved although the gradient scipy itself reports there is far from zero
        p_now = optimum(mb)
        start = np.array([case["start"].get(nm, fixed.get(nm, np.nan)) for nm in names], dtype=float)
        res = mb.fit._fitter.minimizer._opt_result
        if res is not None and np.array_equal(p_now, start) and np.any(np.abs(np.asarray(res.jac, dtype=float)) > 1e-2):
            return "C06/scipy-backend-accepts-unconverged-result"
        # signature 3: L-BFGS-B (used when limits are declared) stopped on its relative-reduction criterion (kafe2 passes tol=1e-6 as
        # ftol) although the gradient scipy reports at that point is not small
        msg = str(getattr(res, "message", ""))
        if res is not None and limited and "REDUCTION OF F" in msg.upper() and np.any(np.abs(np.asarray(res.jac, dtype=float)) > 1e-3):
            return "C06/scipy-backend-accepts-unconverged-result"
        # signature 4: scipy itself flags the result as failed (e.g. "Desired error not necessarily achieved due to precision loss") and
        # the adapter hands it out as the fit result (the caller has established that a lower admissible point exists)
        if res is not None and not bool(getattr(res, "success", True)):
            return "C06/scipy-backend-accepts-unconverged-result"
        # signature 1: calling do_fit() again (nothing else changed) continues to a lower cost
        if not refit_signature:
            return None
        mb.fit.do_fit()
        c1 = cost(optimum(mb))
        if c1 < c0 - tol:
            return "C06/scipy-backend-accepts-unconverged-result"
    except Exception:
        pass
    return None


def stuck_on_limit(case, mb, names, fixed, limited, on_limit, best_p, best, tol):
    """open finding: MIGRAD works in an internal coordinate whose derivative vanishes at a limit; started next to a limit it can
    run onto the limit and stay there although the optimum is interior.  Signature / explain-check: the reported optimum rests on a
    limit, and the very same fit object restarted from the lower interior point converges to (at most) the lower cost."""
    try:
        if not on_limit:
            return None
        cost = make_objective(mb, names, fixed, limited)
        mb.fit.set_parameter_values(**{nm: float(best_p[names.index(nm)]) for nm in names if nm not in fixed})
        mb.fit.do_fit()
        p2 = optimum(mb)
        still_on = any(abs(p2[names.index(nm)] - lim) <= 1e-6 * max(1.0, abs(lim)) for nm, lim in on_limit.items())
        if cost(p2) <= best + 10 * tol and not still_on:
            return "C06/iminuit-stays-on-limit-it-was-started-next-to"
    except Exception:
        pass
    return None


def simplex(x0, step):
    x0 = np.asarray(x0, dtype=float)
    n = len(x0)
    s = np.tile(x0, (n + 1, 1))
    for i in range(n):
        s[i + 1, i] += step[i] if step[i] != 0 else 1e-4
    return s


def run_shard(ctx):
    idx = 0
    while ctx.more():
        case = gen_case(ctx.rng, ctx.tier, idx, ctx.shard, ctx.nshards)
        idx += 1
        ctx.begin_case(case)
        nontrivial = False
        try:
            nontrivial = run_case(ctx, case)
        except Exception:
            ctx.violation(None, "unexpected-exception", {"traceback": fmt_exc()})
        ctx.end_case(nontrivial=nontrivial)


def replay(ctx, case):
    ctx.begin_case(case)
    try:
        run_case(ctx, case)
    except Exception:
        ctx.violation(None, "unexpected-exception", {"traceback": fmt_exc()})
    ctx.end_case(nontrivial=True)
