"""C07 — reported parameter uncertainties obey their definitions.

Shape: definitional oracles evaluated on the fitted object, all computed on the *reference* cost (vlib.ref, no kafe2 code):
 (a) parameter_cov_mat == 2 H_ref^-1 over the free parameters (zero rows/columns for fixed), errors == sqrt(diag), cor == normalisation;
     at adapter level (analytic test functions) cov == 2 * errordef * H^-1 for errordef in {1, 0.5};
 (b) every profile point == reference cost re-minimised over the other free parameters with that parameter pinned;
 (c) every asymmetric uncertainty is a displacement at which the reference profile has risen by 1;
 (d) every point of an n-sigma contour lies where the reference two-parameter profile has risen by n^2;
 (e) error_band(x) == sqrt(diag(J C J^T)) with the analytic Jacobian over the free parameters (float and integer x, outside the data range);
 (m) multi-fits (two xy members sharing >= 1 parameter, member signatures in random relative order): (a) and (c) for the MultiFit on the joint
     reference cost (sum of the members' reference costs) over the combined free parameters; after MultiFit.do_fit every member reports, for ITS
     parameters in ITS order, the entries of that covariance / errors / correlation / asymmetric errors selected BY PARAMETER NAME, and every
     member's error_band is the propagation of that sub-block through the member model's analytic parameter derivatives.
"""
import numpy as np
from scipy import optimize

from vlib import gen
from vlib.fitcase import Member
from vlib.models import Model
from vlib.monitor import OpTimeout, fmt_exc, numerical_failure, time_limit
from vlib.ref import pd_info

PROPERTY = "C07"
TIERS = {"quick": {"shards": 8, "budget_s": 50}, "thorough": {"shards": 16, "budget_s": 600}}
RULE = (
    "fitted problem (xy linear/nonlinear with y / x / correlated / model-relative sources, hist with Poisson likelihood; fixed subsets; both backends) x "
    "{covariance, errors, correlation, profile of every free parameter, asymmetric errors, 1/2-sigma contour of a parameter pair, error band at float/int/outside x}; "
    "plus adapter-level cases (quadratic + quartic test functions, errordef 1 and 0.5); "
    "plus multi-fits (every 16th case, alternating with the adapter cases: 2 xy members from family pairs with 1-4 common parameter names, linear and nonlinear, y / x / correlated / model-relative sources, "
    "member order and both signatures permuted at random; stratified: in 3 of 4 the later member's parameter order is not a subsequence of the multi-fit's; a fixed parameter in every third block of 4; both backends) x "
    "{multi-fit covariance / errors / correlation on the joint reference cost, every member's covariance / errors / correlation = sub-block by name, every member's error band inside and outside its data range, "
    "MINOS errors of the multi-fit and the rows the members report}; non-trivial = >= 2 free parameters and correlated or non-parabolic cost or a fixed parameter; distinct by case hash"
)
ASSUMPTIONS = [
    "no parameter rests on a limit (limits are not declared here; C06 covers them)",
    "covariance tolerance |C - C_ref|_ij / sqrt(C_ii C_jj): linear problems 5e-3 (scipy) / max(5e-3, 2e-7 cond) (iminuit HESSE; after fixing / releasing a parameter MINUIT re-uses its previous state: 1e-1 as in the nonlinear case); nonlinear problems 3e-2 (scipy) / 1e-1 (iminuit HESSE at strategy 1)",
    "profile points within 1e-3 + 1e-3 * rise of the reference profile (5e-3 for scipy); asymmetric errors: reference rise 1 +- 3e-2 (iminuit MINOS) / 6e-2 (scipy); contour points: rise within [0.8, 1.25] n^2",
    "multi-fits: no shared uncertainty sources and no constraints (the joint cost is the sum of the members' costs; C10/C11 cover shared sources); same tolerances as single fits, "
    "a problem is 'linear' only if both members are; member values are compared with the reference 2 H^-1 selected by name (tolerance as for the multi-fit; correlation 2x that), the member error band with the "
    "multi-fit's own covariance selected by name (2e-3 relative); quick tier: MINOS errors of two parameters (a shared one first) per case",
    "error band relative 2e-3 + the analytic bound of the implementation's numerical parameter derivative; problems whose reference Hessian has cond > 1e4 are discarded (MINUIT's HESSE / MNPROFILE lose accuracy in proportion to it)",
]
ANCHORS = [
    ("kafe2.core.minimizers.minimizer_base", "MinimizerBase.hessian"),
    ("kafe2.core.minimizers.minimizer_base", "MinimizerBase.hessian_inv"),
    ("kafe2.core.minimizers.minimizer_base", "MinimizerBase.cov_mat"),
    ("kafe2.core.minimizers.minimizer_base", "MinimizerBase.cor_mat"),
    ("kafe2.core.minimizers.minimizer_base", "MinimizerBase._remove_zeroes_for_fixed"),
    ("kafe2.core.minimizers.minimizer_base", "MinimizerBase._fill_in_zeroes_for_fixed"),
    ("kafe2.core.minimizers.minimizer_base", "MinimizerBase._find_cost_cut"),
    ("kafe2.core.minimizers.minimizer_base", "MinimizerBase._calculate_asymmetric_parameter_errors"),
    ("kafe2.core.minimizers.iminuit_minimizer", "MinimizerIMinuit.cov_mat"),
    ("kafe2.core.minimizers.iminuit_minimizer", "MinimizerIMinuit.hessian"),
    ("kafe2.core.minimizers.iminuit_minimizer", "MinimizerIMinuit._calculate_asymmetric_parameter_errors"),
    ("kafe2.core.minimizers.iminuit_minimizer", "MinimizerIMinuit.profile"),
    ("kafe2.core.minimizers.iminuit_minimizer", "MinimizerIMinuit.contour"),
    ("kafe2.core.minimizers.scipy_optimize_minimizer", "MinimizerScipyOptimize.profile"),
    ("kafe2.core.minimizers.scipy_optimize_minimizer", "MinimizerScipyOptimize.contour"),
    ("kafe2.fit.xy.fit", "XYFit.error_band"),
    ("kafe2.fit.xy.model", "XYParametricModel.eval_model_function_derivative_by_parameters"),
    ("kafe2.fit.multi.fit", "MultiFit._update_singular_fits"),
    ("kafe2.fit.multi.fit", "MultiFit._get_parameter_indices"),
]


def floors(tier):
    return {
        "comparisons": {"cov=2Hinv": 40, "errors=sqrt-diag": 40, "cor=normalised": 40, "profile-point": 100, "asymmetric-rise": 30, "contour-point-rise": 30, "error-band": 40, "adapter.cov=2*errordef*Hinv": 8, "cov=2Hinv.after-fix": 15, "error-band.plot-adapter.after-fix": 8, "profile.subtract_min": 20, "errors=sqrt-diag.after-fix": 15,
                        "multi.cov=2Hinv": 8, "multi.errors=sqrt-diag": 8, "multi.cor=normalised": 8, "multi.member.cov=subblock-by-name": 15, "multi.member.errors=subblock-by-name": 15,
                        "multi.member.cor=subblock-by-name": 15, "multi.member.error-band": 15, "multi.asymmetric-rise": 4, "multi.member.asymmetric-rise": 4},
        "ops": ["do_fit", "profile", "asymmetric", "contour", "error_band", "multi.do_fit", "multi.member.error_band", "multi.asymmetric", "multi.case.member-order-not-subsequence"],
        "reach": ["%s:%s" % a for a in ANCHORS],
        "strata": ["iminuit", "scipy", "fixed", "xy", "hist", "int-x-band", "outside-range-band", "errordef-0.5", "errordef-1.0", "limited-inactive",
                   "multi", "multi:iminuit", "multi:scipy", "multi:member-order-not-subsequence", "multi:fixed"],
        "sets": {"multi.family-pair": 4},
        "distinct_nontrivial": 40,
    }


# ------------------------------------------------------------------ generation
def gen_case(rng, tier, idx, shard, nshards):
    gi = idx * nshards + shard
    if gi % 8 == 7:
        # the cheap slot (an adapter case takes milliseconds) is shared: adapter cases and multi-fit cases alternate; both are indexed by their own
        # counter so that backend / errordef / order strata do not alias with the alternation
        k = gi // 8
        if k % 2 == 1:
            return gen_multi_case(rng, tier, k // 2)
        ai = k // 2
        return {"property": "C07", "kind": "adapter", "minimizer": ["iminuit", "scipy"][ai % 2], "errordef": [1.0, 0.5][(ai // 2) % 2], "seed": int(rng.integers(0, 2**31)), "quartic": bool(rng.random() < 0.4), "npar": int(rng.integers(2, 5)), "fix": bool(rng.random() < 0.4)}
    minimizer = ["iminuit", "scipy"][gi % 2]
    ftype = ["xy", "xy", "xy", "hist"][(gi // 2) % 4]
    setup = []
    if ftype == "xy":
        fam = str(rng.choice(["poly1", "poly2", "trig", "exponential", "gausspeak", "logistic", "poly3"], p=[0.2, 0.2, 0.1, 0.2, 0.1, 0.1, 0.1]))
        if gi % 16 in (3, 10) and len(Model(fam).pnames) < 3:
            # the slot of the stratum "last-listed parameter fixed, the others free" needs >= 3 parameters: it always realises its stratum
            fam = str(rng.choice(["poly2", "trig", "poly3", "logistic"]))
        npts = int(rng.integers(len(Model(fam).pnames) + 4, 13))
        spec = gen.gen_xy_spec(rng, family=fam, cost="chi2", n=npts, noise=0.04)
        ys = float(np.mean(np.abs(spec["y"])) + 0.3)
        setup.append(gen.gen_source(rng, npts, "xy", "e0", yscale=ys * 0.5, force={"axis": "y", "reference": "data", "kind": "simple", "shape": "vec", "relative": False, "corr": 0.0}))
        r = rng.random()
        if r < 0.25:
            setup.append(["add_error", {"axis": "y", "err": float(np.round(rng.uniform(0.03, 0.08), 4)), "relative": True, "reference": "model", "corr": 0.0, "name": "e1"}])
        elif r < 0.45:
            setup.append(["add_error", {"axis": "x", "err": float(np.round(rng.uniform(0.03, 0.1), 4)), "relative": False, "reference": "data", "corr": 0.0, "name": "e1"}])
        elif r < 0.7:
            setup.append(gen.gen_source(rng, npts, "xy", "e1", yscale=ys * 0.4, force={"axis": "y", "reference": "data", "kind": "matrix", "relative": False}))
    else:
        spec = gen.gen_hist_spec(rng, density=str(rng.choice(["normal", "expdens"])), cost="nll_poisson", n_bins=int(rng.integers(7, 11)), n_entries=int(rng.integers(300, 700)))
    spec["minimizer"] = minimizer
    m = Model.from_spec(spec["model"])
    fixed = {}
    if len(m.pnames) >= 3 and rng.random() < 0.35:
        nm = m.pnames[int(rng.integers(0, len(m.pnames)))]
        fixed[nm] = float(np.round(m.defaults[m.pnames.index(nm)] * rng.uniform(0.98, 1.02), 5))
    force_last_fixed = gi % 16 in (3, 10) and len(m.pnames) >= 3
    if force_last_fixed:
        # the last-listed parameter fixed, the others free: the generic searches (asymmetric errors, cl= profiles) have to re-minimise over
        # the remaining free parameters although the parameter they meet last is fixed
        nm = m.pnames[-1]
        fixed = {nm: float(np.round(m.defaults[-1] * rng.uniform(0.98, 1.02), 5))}
    start = {nm: float(np.round(d * rng.uniform(0.95, 1.05), 5)) for nm, d in zip(m.pnames, m.defaults) if nm not in fixed}
    limited = {}
    if ftype == "xy" and rng.random() < 0.3:
        # a limit that is declared but not active (the statement excludes parameters *resting* on a limit, not limited ones)
        cand = [nm for nm in m.pnames if nm not in fixed]
        nm = cand[int(rng.integers(0, len(cand)))]
        d0 = float(m.defaults[m.pnames.index(nm)])
        w = abs(d0) * rng.uniform(0.3, 0.8) + 0.3
        limited[nm] = [float(np.round(d0 - w, 4)), float(np.round(d0 + w * rng.uniform(0.6, 1.6), 4))]
    # which extras: profiles are cheap with iminuit, scipy asymmetric errors (~2 s) and contours (~5 s) are sampled sparsely
    extras = {"profile": True, "asymmetric": bool(minimizer == "iminuit" or gi % 6 == 1), "contour": bool((minimizer == "iminuit" and gi % 3 == 0) or gi % 24 == 5), "sigma": float(rng.choice([1.0, 2.0]))}
    if force_last_fixed:
        extras["asymmetric"] = True
        limited = {}
    return {"property": "C07", "kind": "fit", "spec": spec, "setup": setup, "fixed": fixed, "limited": limited, "start": start, "extras": extras, "aux_seed": int(rng.integers(0, 2**31))}


# ------------------------------------------------------------------ multi-fit cases (generation)
# pairs of families with at least one common parameter name (same-named parameters of the members of a MultiFit are one parameter);
# the truth of a shared parameter is the default of the first family of the pair
MULTI_PAIRS = [("poly1", "poly2"), ("poly0", "poly1"), ("poly1", "poly1"), ("poly1", "poly3"), ("poly2", "poly2"), ("trig", "expbasis"), ("trig", "trig"),
               ("exponential", "gausspeak"), ("exponential", "logistic"), ("trig", "gausspeak"), ("exponential", "exponential")]


def combined_names(member_names):
    """parameter names of a multi-fit: member by member, in order of first appearance"""
    out = []
    for mn in member_names:
        for q in mn:
            if q not in out:
                out.append(q)
    return out


def is_subsequence(sub, seq):
    it = iter(seq)
    return all(q in it for q in sub)


def gen_multi_case(rng, tier, mi):
    """two xy members sharing >= 1 parameter; signatures in random relative order; stratified: 3 of 4 cases have a later member whose own
    parameter order is NOT a subsequence of the multi-fit's order (its index list into the multi-fit is not increasing)"""
    minimizer = ["iminuit", "scipy"][mi % 2]
    want_nonsub = (mi // 2) % 4 != 3
    want_fixed = (mi // 4) % 3 == 1
    for _attempt in range(200):
        fams = list(MULTI_PAIRS[int(rng.integers(0, len(MULTI_PAIRS)))])
        truth_by_name = {}
        for fam in fams:  # first family of the pair decides the truth of a shared parameter
            m0 = Model(fam)
            for q, v in zip(m0.pnames, m0.defaults):
                truth_by_name.setdefault(q, float(v))
        if rng.random() < 0.5:
            fams = fams[::-1]
        orders = [[int(i) for i in rng.permutation(len(Model(fam).pnames))] for fam in fams]
        mnames = [[Model(fam).pnames[i] for i in o] for fam, o in zip(fams, orders)]
        comb = combined_names(mnames)
        nonsub = not is_subsequence(mnames[1], comb)
        if want_fixed and len(comb) < 3:
            continue
        if not want_nonsub or nonsub:
            break
    true_by_name = {q: float(np.round(v * rng.uniform(0.93, 1.07), 6)) for q, v in truth_by_name.items()}
    members = []
    for j, (fam, o) in enumerate(zip(fams, orders)):
        dflt = [truth_by_name[q] for q in mnames[j]]
        m = Model(fam, order=o, defaults=dflt, name="%s_member%d" % (fam, j))
        npts = int(rng.integers(len(m.pnames) + 3, 12))
        x = gen.gen_x(rng, npts)
        ptrue = [true_by_name[q] for q in m.pnames]
        y = m.f(np.array(x), ptrue)
        y = y + rng.normal(size=npts) * 0.04 * (np.abs(y).mean() + 0.1)
        spec = {"type": "xy", "model": m.spec(), "cost": "chi2", "x": x, "y": [float(np.round(v, 5)) for v in y], "minimizer": minimizer, "dea": "nonlinear"}
        ys = float(np.mean(np.abs(spec["y"])) + 0.3)
        setup = [gen.gen_source(rng, npts, "xy", "e0", yscale=ys * 0.5, force={"axis": "y", "reference": "data", "kind": "simple", "shape": "vec", "relative": False, "corr": 0.0})]
        r = rng.random()
        if r < 0.15:
            setup.append(["add_error", {"axis": "y", "err": float(np.round(rng.uniform(0.03, 0.08), 4)), "relative": True, "reference": "model", "corr": 0.0, "name": "e1"}])
        elif r < 0.3:
            setup.append(["add_error", {"axis": "x", "err": float(np.round(rng.uniform(0.03, 0.1), 4)), "relative": False, "reference": "data", "corr": 0.0, "name": "e1"}])
        elif r < 0.5:
            setup.append(gen.gen_source(rng, npts, "xy", "e1", yscale=ys * 0.4, force={"axis": "y", "reference": "data", "kind": "matrix", "relative": False}))
        members.append({"spec": spec, "setup": setup})
    fixed = {}
    if len(comb) >= 3 and (want_fixed or rng.random() < 0.15):
        q = comb[int(rng.integers(0, len(comb)))]
        fixed[q] = float(np.round(truth_by_name[q] * rng.uniform(0.98, 1.02), 5))
    start = {q: float(np.round(truth_by_name[q] * rng.uniform(0.95, 1.05), 5)) for q in comb if q not in fixed}
    # asymmetric errors (MINOS; the reference profile is expensive): every third iminuit case; quick tier: of two parameters, a shared one first
    free = [q for q in comb if q not in fixed]
    shared = [q for q in free if q in mnames[0] and q in mnames[1]]
    apars = [shared[int(rng.integers(0, len(shared)))]] if shared else []
    rest = [q for q in free if q not in apars]
    if rest:
        apars.append(rest[int(rng.integers(0, len(rest)))])
    if tier != "quick":
        apars = free
    return {"property": "C07", "kind": "multi", "minimizer": minimizer, "members": members, "fixed": fixed, "start": start,
            "extras": {"asymmetric": bool(minimizer == "iminuit" and (mi // 2) % 3 == 0), "asymmetric_parameters": apars}, "aux_seed": int(rng.integers(0, 2**31))}


# ------------------------------------------------------------------ reference helpers
def ref_objective(mb):
    def cost(p):
        try:
            if not mb.admissible(p):
                return np.inf
            c = mb.cost(p)
            return c if np.isfinite(c) else np.inf
        except Exception:
            return np.inf

    return cost


def ref_hessian(cost, p, free_idx, scale):
    import numdifftools as nd

    p = np.array(p, dtype=float)

    def f(u):
        q = p.copy()
        q[free_idx] = p[free_idx] + u * scale
        return cost(q)

    H = nd.Hessian(f)(np.zeros(len(free_idx)))
    H = (H + H.T) / 2.0
    return H / np.outer(scale, scale)


def ref_profile_value(cost, p_hat, free_idx, pinned, sig, warm=None):
    """min over the other free parameters with `pinned` = {index: value}; multi-start (optimum, warm start of the neighbouring
    profile point, +-1 sigma perturbations) because the reference must really be the minimum"""
    others = [i for i in free_idx if i not in pinned]
    starts = [np.array(p_hat, dtype=float)]
    if warm is not None:
        starts.append(np.array(warm, dtype=float))
    for k in others[:3]:
        for sgn in (1.0, -1.0):
            q = np.array(p_hat, dtype=float)
            q[k] += sgn * sig[k]
            starts.append(q)
    best_val, best_q = np.inf, None
    for q0 in starts:
        v, q = _ref_profile_from(cost, q0, others, pinned, sig)
        if v < best_val:
            best_val, best_q = v, q
    if warm is not None and isinstance(warm, np.ndarray) and best_q is not None:
        warm[:] = best_q  # hand the solution on to the next point of the same profile
    return best_val


def inner_problem_has_local_minimum_at(cost, p_hat, free_idx, pinned, sig, target, tol, seed=0):
    """explain-check for a reported profile point ABOVE the reference: is the reported value itself a local minimum of the inner
    problem (minimum over the other free parameters with `pinned` held)?  Then the inner problem has two minima and the backend's
    local minimiser, which walks along the profile from point to point, sits on the other one (Minuit flags the point as valid):
    the profile of a multimodal inner problem is not something a local minimiser can be held to (same policy as the two-attractor
    cases of C06).  Multi-start from the optimum +- 1, 2, 3 sigma in every other parameter and 12 random starts within 3 sigma."""
    others = [i for i in free_idx if i not in pinned]
    if not others:
        return False
    rng = np.random.default_rng(seed)
    starts = []
    for k in others:
        for mult in (1.0, -1.0, 2.0, -2.0, 3.0, -3.0):
            q = np.array(p_hat, dtype=float)
            q[k] += mult * sig[k]
            starts.append(q)
    for _ in range(12):
        q = np.array(p_hat, dtype=float)
        q[others] += rng.uniform(-3.0, 3.0, size=len(others)) * sig[others]
        starts.append(q)
    for q0 in starts:
        v, _q = _ref_profile_from(cost, q0, others, pinned, sig)
        if np.isfinite(v) and abs(v - target) <= tol:
            return True
    return False


def _ref_profile_from(cost, q_start, others, pinned, sig):
    q0 = np.array(q_start, dtype=float)
    for i, v in pinned.items():
        q0[i] = v
    if not others:
        return cost(q0), q0

    def g(v):
        q = q0.copy()
        q[others] = v
        return cost(q)

    step = np.where(sig[others] > 0, sig[others] * 0.2, 1e-3)
    best = None
    x0 = q0[others]
    for method in ("BFGS", "Nelder-Mead"):
        try:
            if method == "BFGS":
                res = optimize.minimize(g, x0, method="BFGS", options={"gtol": 1e-8})
            else:
                n = len(others)
                simplex = np.tile(x0 if best is None else best.x, (n + 1, 1))
                for k in range(n):
                    simplex[k + 1, k] += step[k]
                res = optimize.minimize(g, x0 if best is None else best.x, method="Nelder-Mead", options={"xatol": 1e-9, "fatol": 1e-10, "maxiter": 4000, "initial_simplex": simplex})
            if np.isfinite(res.fun) and (best is None or res.fun < best.fun):
                best = res
        except Exception:
            pass
    if best is None:
        return np.inf, q0
    qb = q0.copy()
    qb[others] = best.x
    return float(best.fun), qb


# ------------------------------------------------------------------ adapter-level cases
class ScipyRecorder:
    """records the success flag of every scipy.optimize.minimize call kafe2's scipy adapter makes while the context is active
    (explain-check for the open finding 'the adapter hands out results scipy itself flags as failed')"""

    def __enter__(self):
        import kafe2.core.minimizers.scipy_optimize_minimizer as som

        self.som, self.orig, self.flags = som, som.opt.minimize, []

        def wrapped(*a, **kw):
            res = self.orig(*a, **kw)
            self.flags.append(bool(getattr(res, "success", True)))
            return res

        self.wrapped = wrapped
        som.opt.minimize = wrapped
        return self

    def __exit__(self, *exc):
        self.som.opt.minimize = self.orig
        return False

    def flag_for_point(self, k, n):
        # the profile ends with one constrained minimisation per grid point, in grid order
        if len(self.flags) < n:
            return None
        return self.flags[len(self.flags) - n + k]


def run_adapter(ctx, case):
    from kafe2.core.minimizers import get_minimizer

    rng = np.random.default_rng(case["seed"])
    n = case["npar"]
    A = rng.normal(size=(n, n))
    Hm = A @ A.T + np.eye(n) * 0.5  # 0.5 * x^T Hm x  -> Hessian Hm
    x0 = rng.normal(size=n)
    quart = rng.uniform(0.1, 0.5, size=n) if case["quartic"] else np.zeros(n)

    def fcn(*x):
        d = np.asarray(x, dtype=float) - x0
        return float(0.5 * d @ Hm @ d + np.sum(quart * d**4)) + 3.0

    names = ["q%d" % i for i in range(n)]
    cls = get_minimizer(case["minimizer"])
    start = list(x0 + rng.normal(size=n) * 0.3)
    mini = cls(names, start, [0.1] * n, fcn, errordef=case["errordef"])
    fixed = []
    if case["fix"] and n >= 3:
        fixed = [int(rng.integers(0, n))]
        mini.set(names[fixed[0]], float(x0[fixed[0]]))
        mini.fix(names[fixed[0]])
        ctx.stratum("fixed")
    ctx.stratum(case["minimizer"])
    ctx.stratum("errordef-%s" % case["errordef"])
    ctx.op("do_fit")
    mini.minimize()
    free = [i for i in range(n) if i not in fixed]
    pv = np.array(mini.parameter_values, dtype=float)
    # at the minimum (d = 0 for free parameters) the quartic term does not contribute to the Hessian
    Hff = Hm[np.ix_(free, free)]
    C = np.zeros((n, n))
    C[np.ix_(free, free)] = 2.0 * case["errordef"] * np.linalg.inv(Hff)
    cm = np.array(mini.cov_mat, dtype=float)
    sig = np.sqrt(np.diag(C))
    ss = np.where(sig > 0, sig, 1.0)
    dev = np.abs(cm - C) / np.outer(ss, ss)
    tol = 5e-3 if not case["quartic"] else 3e-2
    ctx.check("adapter.cov=2*errordef*Hinv", bool(np.all(dev <= tol)), lambda: {"got": cm, "expected": C, "max_normalised_deviation": float(dev.max()), "errordef": case["errordef"], "tolerance": tol, "fixed": fixed})
    ctx.check("adapter.minimum", bool(np.all(np.abs(pv - x0)[free] <= 5e-2 * sig[free])), lambda: {"got": pv, "expected": x0})
    pe = np.array(mini.parameter_errors, dtype=float)
    ctx.check("adapter.errors=sqrt-diag", bool(np.all(np.abs(pe - np.sqrt(np.diag(cm))) <= 1e-6 * ss + 1e-12)), lambda: {"errors": pe, "sqrt_diag_cov": np.sqrt(np.diag(cm))})
    return True


# ------------------------------------------------------------------ fit-level cases
def run_fit_case(ctx, case):
    spec = case["spec"]
    minimizer = spec["minimizer"]
    ctx.stratum(minimizer)
    ctx.stratum(spec["type"])
    mb = Member(spec, case["setup"])
    fit = mb.fit
    names = list(fit.parameter_names)
    for nm, v in case["fixed"].items():
        fit.fix_parameter(nm, v)
        ctx.stratum("fixed")
    for nm, (lo, hi) in (case.get("limited") or {}).items():
        fit.limit_parameter(nm, lo, hi)
    fit.set_parameter_values(**case["start"])
    ctx.op("do_fit")
    try:
        fit.do_fit()
    except Exception as e:
        if numerical_failure(e):
            ctx.discard("do_fit-failed-numerically")
            return False
        raise
    mb.sync_from_fit()
    p_hat = np.array(fit.parameter_values, dtype=float)
    free_idx = [i for i, nm in enumerate(names) if nm not in case["fixed"]]
    cost = ref_objective(mb)
    c_hat = cost(p_hat)
    pe = np.array(fit.parameter_errors, dtype=float)
    if not np.isfinite(c_hat) or not np.all(np.isfinite(pe)) or np.any(pe[free_idx] <= 0):
        ctx.discard("fit-result-not-usable")
        return False
    try:
        H = ref_hessian(cost, p_hat, free_idx, pe[free_idx])
    except Exception:
        ctx.discard("reference-hessian-failed")
        return False
    ok, cond = pd_info(H) if np.all(np.isfinite(H)) else (False, np.inf)
    if not ok or cond > 1e4:
        ctx.discard("reference-hessian-not-pd-or-ill-conditioned")
        return False
    Cf = 2.0 * np.linalg.inv(H)
    C = np.zeros((len(names), len(names)))
    C[np.ix_(free_idx, free_idx)] = Cf
    sig = np.sqrt(np.diag(C))
    ss = np.where(sig > 0, sig, 1.0)
    for nm, (lo, hi) in (case.get("limited") or {}).items():
        k_ = names.index(nm)
        if min(p_hat[k_] - lo, hi - p_hat[k_]) < 4.0 * sig[k_]:
            ctx.discard("optimum-within-4-sigma-of-a-limit")
            return False
        ctx.stratum("limited-inactive")
    linear = Model.from_spec(spec["model"]).linear and not any(o[1].get("reference") == "model" or gen.norm_axis(o[1].get("axis")) == "x" for o in case["setup"]) and spec["type"] == "xy"
    nontrivial = len(free_idx) >= 2 and (not linear or bool(case["fixed"]) or np.any(np.abs(Cf - np.diag(np.diag(Cf))) > 1e-12))
    # the optimum itself must be (close to) the reference optimum, otherwise the definitions are evaluated at the wrong place
    g_dev = np.abs(p_hat - p_hat)  # placeholder for symmetry with C06 (the local-minimum clause is C06's)
    # ---- (a) covariance, errors, correlation
    cm = fit.parameter_cov_mat
    if cm is None:
        ctx.violation(None, "cov=2Hinv", {"got": None})
        return nontrivial
    cm = np.array(cm, dtype=float)
    dev = np.abs(cm - C) / np.outer(ss, ss)
    if linear:
        tol = 5e-3 if minimizer == "scipy" else max(5e-3, 2e-7 * cond)
    else:
        tol = 3e-2 if minimizer == "scipy" else 1e-1
    d = {"minimizer": minimizer, "linear": linear, "cond": cond, "fixed": case["fixed"]}
    ctx.check("cov=2Hinv", bool(np.all(dev <= tol)), lambda: dict(d, got=cm, expected=C, max_normalised_deviation=float(dev.max()), tolerance=tol))
    ctx.worst["cov_dev_%s_%s" % (minimizer, "lin" if linear else "nonlin")] = max(ctx.worst.get("cov_dev_%s_%s" % (minimizer, "lin" if linear else "nonlin"), 0.0), float(dev.max()))
    ctx.check("errors=sqrt-diag", bool(np.all(np.abs(pe - np.sqrt(np.diag(cm))) <= 1e-3 * ss + 1e-12)), lambda: dict(d, errors=pe, sqrt_diag_cov=np.sqrt(np.diag(cm))))
    cor = fit.parameter_cor_mat
    if cor is not None:
        cor = np.array(cor, dtype=float)
        dd = np.sqrt(np.diag(cm))
        dd = np.where(dd > 0, dd, 1.0)
        exp = cm / np.outer(dd, dd)
        sub = np.ix_(free_idx, free_idx)
        ctx.check("cor=normalised", bool(np.all(np.abs(cor[sub] - exp[sub]) <= 1e-9)), lambda: dict(d, got=cor, expected=exp))
    # the adapter's own Hessian and its inverse (same definitions, other accessors)
    mini = fit._fitter.minimizer
    Hk = mini.hessian
    if Hk is not None:
        Hk = np.array(Hk, dtype=float)[np.ix_(free_idx, free_idx)]
        hs = np.sqrt(np.abs(np.diag(H)))
        hdev = np.abs(Hk - H) / np.outer(hs, hs)
        ctx.check("hessian", bool(np.all(hdev <= tol)), lambda: dict(d, got=Hk, expected=H, max_normalised_deviation=float(hdev.max()), tolerance=tol))
    Hi = mini.hessian_inv
    if Hi is not None:
        ctx.check("hessian_inv=cov/2", bool(np.all(np.abs(np.array(Hi, dtype=float) * 2.0 * mini.errordef - cm) <= 1e-9 * np.outer(ss, ss) + 1e-300)), lambda: dict(d, hessian_inv=Hi, cov=cm, errordef=mini.errordef))
    nv = sum(ctx._wit_per_key.values())
    rng = np.random.default_rng(case["aux_seed"])
    ptol = 1e-3 if minimizer == "iminuit" else 5e-3
    # ---- (b) profiles
    if case["extras"]["profile"]:
        for i in free_idx[: 3 if ctx.tier == "quick" else len(free_idx)]:
            ctx.op("profile")
            rec = ScipyRecorder() if minimizer == "scipy" else None
            try:
                with time_limit(60):
                    if rec:
                        with rec:
                            prof, _arrows = fit._fitter.profile(names[i], sigma=2.0, size=7, subtract_min=False)
                    else:
                        prof, _arrows = fit._fitter.profile(names[i], sigma=2.0, size=7, subtract_min=False)
            except OpTimeout:
                ctx.discard("profile-timeout")
                continue
            except Exception as e:
                if numerical_failure(e):
                    ctx.discard("profile-failed-numerically")
                    continue
                ctx.violation(None, "profile.no-exception", dict(d, parameter=names[i], traceback=fmt_exc()))
                return nontrivial
            xs, ys = np.array(prof[0], dtype=float), np.array(prof[1], dtype=float)
            order = np.argsort(np.abs(xs - p_hat[i]))  # outward from the optimum, warm-starting each side separately
            warm_lo, warm_hi = p_hat.copy(), p_hat.copy()
            for kk in order:
                xv, yv = xs[kk], ys[kk]
                r = ref_profile_value(cost, p_hat, free_idx, {i: float(xv)}, sig, warm=warm_lo if xv < p_hat[i] else warm_hi)
                if not np.isfinite(r):
                    ctx.discard("reference-profile-not-finite")
                    continue
                rise = max(r - c_hat, 0.0)
                # (both backends since the seed-6 sweep: for a Gaussian peak on 8 points with model-relative errors both backends, and
                # independent refits from the optimum with the parameter fixed, agreed on -22.7226 while the reference search had jumped
                # into a deeper, disconnected basin at -22.9027; a walk that stops short of a minimum is still reported, because the
                # reported point must be a local minimum of the inner problem)
                if yv - r > ptol + ptol * rise and yv - r > 5e-2:
                    if inner_problem_has_local_minimum_at(cost, p_hat, free_idx, {i: float(xv)}, sig, float(yv), 10 * (ptol + ptol * rise), seed=case["aux_seed"]):
                        ctx.discard("profile-point-on-a-second-local-minimum-of-the-inner-problem")
                        continue
                ctx.check("profile-point", abs(yv - r) <= ptol + ptol * rise, lambda: dict(d, parameter=names[i], x=float(xv), got=float(yv), expected=r, rise=rise, tolerance=ptol + ptol * rise, scipy_success=(rec.flag_for_point(kk, len(xs)) if rec else None)),
                          key=(lambda: "C06/scipy-backend-accepts-unconverged-result" if (rec and yv > r and rec.flag_for_point(kk, len(xs)) is False) else None))
                ctx.worst["profile_dev_" + minimizer] = max(ctx.worst.get("profile_dev_" + minimizer, 0.0), float(abs(yv - r) / (1.0 + rise)))
            if sum(ctx._wit_per_key.values()) != nv:
                return nontrivial
            if i == free_idx[0]:
                # the same profile relative to the minimum, on a coarse grid with an even number of points (the grid misses the optimum):
                # "subtract_min" means the cost at the minimum, so every point is the absolute profile minus the fit's cost
                ctx.op("profile.subtract_min")
                try:
                    with time_limit(60):
                        p_abs, _ = fit._fitter.profile(names[i], sigma=2.0, size=4, subtract_min=False)
                        p_sub, _ = fit._fitter.profile(names[i], sigma=2.0, size=4, subtract_min=True)
                    ya, ysub = np.array(p_abs[1], dtype=float), np.array(p_sub[1], dtype=float)
                    cmin = float(fit.cost_function_value)
                    ctx.check("profile.subtract_min", bool(np.all(np.abs((ya - cmin) - ysub) <= ptol * (1.0 + np.abs(ya - cmin)))), lambda: dict(d, parameter=names[i], x=p_abs[0], absolute_minus_cost_at_minimum=ya - cmin, subtract_min_profile=ysub))
                except OpTimeout:
                    ctx.discard("profile-timeout")
                except Exception as e:
                    if numerical_failure(e):
                        ctx.discard("profile-failed-numerically")
                    else:
                        ctx.violation(None, "profile.no-exception", dict(d, parameter=names[i], traceback=fmt_exc()))
                        return nontrivial
                if sum(ctx._wit_per_key.values()) != nv:
                    return nontrivial
    # ---- (c) asymmetric errors
    if case["extras"]["asymmetric"]:
        ctx.op("asymmetric")
        try:
            with time_limit(90):
                ae = fit.asymmetric_parameter_errors
        except OpTimeout:
            ae = None
            ctx.discard("asymmetric-timeout")
        except Exception as e:
            if numerical_failure(e):
                ae = None
                ctx.discard("asymmetric-failed-numerically")
            else:
                ctx.violation(None, "asymmetric.no-exception", dict(d, traceback=fmt_exc()))
                return nontrivial
        if ae is not None:
            ae = np.array(ae, dtype=float)
            atol = 3e-2 if minimizer == "iminuit" else 6e-2
            for i in free_idx:
                for j, side in ((0, "down"), (1, "up")):
                    e = ae[i, j]
                    if not np.isfinite(e) or e == 0 or abs(e) > 20 * sig[i]:
                        ctx.discard("asymmetric-error-not-usable")
                        continue
                    r = ref_profile_value(cost, p_hat, free_idx, {i: float(p_hat[i] + e)}, sig)
                    if not np.isfinite(r):
                        ctx.discard("reference-profile-not-finite")
                        continue
                    ctx.check("asymmetric-rise", abs((r - c_hat) - 1.0) <= atol and (e < 0 if side == "down" else e > 0), lambda: dict(d, parameter=names[i], side=side, error=float(e), reference_rise=r - c_hat, tolerance=atol))
                    ctx.worst["asym_rise_dev_" + minimizer] = max(ctx.worst.get("asym_rise_dev_" + minimizer, 0.0), float(abs((r - c_hat) - 1.0)))
            for i in [k for k in range(len(names)) if k not in free_idx]:
                ctx.check("asymmetric-fixed-zero", bool(np.all(ae[i] == 0) or np.all(np.isnan(ae[i]))), lambda: dict(d, parameter=names[i], got=ae[i]))
            if sum(ctx._wit_per_key.values()) != nv:
                return nontrivial
    # ---- (d) contour
    if case["extras"]["contour"] and len(free_idx) >= 2:
        ctx.op("contour")
        i, j = [int(v) for v in rng.choice(free_idx, size=2, replace=False)]
        nsig = case["extras"]["sigma"]
        try:
            with time_limit(120):
                cont = fit._fitter.contour(names[i], names[j], sigma=nsig)
        except OpTimeout:
            cont = None
            ctx.discard("contour-timeout")
        except Exception as e:
            if numerical_failure(e):
                cont = None
                ctx.discard("contour-failed-numerically")
            else:
                ctx.violation(None, "contour.no-exception", dict(d, traceback=fmt_exc()))
                return nontrivial
        pts = None
        if cont is not None:
            if cont.xy_points is not None:
                xy = np.array(cont.xy_points, dtype=float)
                pts = xy.T[:: max(1, xy.shape[1] // 10)]
            elif cont.grid_z is not None:
                import contourpy

                gx, gy, gz = np.array(cont.grid_x, dtype=float), np.array(cont.grid_y, dtype=float), np.array(cont.grid_z, dtype=float)
                # the grid holds sqrt(cost - minimum) (ContoursProfiler draws the level `contour.sigma` of grid_z.T); cells that were
                # never evaluated are nan: they lie outside the contour
                z = np.where(np.isfinite(gz.T), gz.T, 10.0 * nsig)  # contourpy expects z[iy, ix]
                try:
                    lines = contourpy.contour_generator(x=gx, y=gy, z=z).lines(nsig)
                    if lines:
                        L = max(lines, key=len)
                        pts = L[:: max(1, len(L) // 10)]
                except Exception:
                    pts = None
        if pts is not None:
            lims = case.get("limited") or {}
            for (xv, yv) in pts:
                if any(nm in lims and min(abs(v - lims[nm][0]), abs(v - lims[nm][1])) <= 1e-3 * (lims[nm][1] - lims[nm][0]) for nm, v in ((names[i], xv), (names[j], yv))):
                    ctx.discard("contour-point-on-a-declared-limit")  # the contour is cut off by the limit there
                    continue
                r = ref_profile_value(cost, p_hat, free_idx, {i: float(xv), j: float(yv)}, sig)
                if not np.isfinite(r):
                    ctx.discard("reference-profile-not-finite")
                    continue
                rise = r - c_hat
                ctx.check("contour-point-rise", 0.8 * nsig**2 <= rise <= 1.25 * nsig**2, lambda: dict(d, parameters=[names[i], names[j]], point=[float(xv), float(yv)], sigma=nsig, reference_rise=rise, expected=nsig**2))
                ctx.worst["contour_rise_ratio_dev_" + minimizer] = max(ctx.worst.get("contour_rise_ratio_dev_" + minimizer, 0.0), float(abs(rise / nsig**2 - 1.0)))
            if sum(ctx._wit_per_key.values()) != nv:
                return nontrivial
    # ---- (e) error band
    if spec["type"] == "xy":
        ctx.op("error_band")
        m = mb.ref.model
        xd = np.array(mb.ref.x, dtype=float)
        lo, hi = xd.min(), xd.max()
        xs_list = [("float", np.linspace(lo, hi, 6)), ("outside-range-band", np.array([lo - 1.5, lo - 0.3, hi + 0.4, hi + 2.0]))]
        if lo >= 0.5 and m.family != "powerlaw":
            xs_list.append(("int-x-band", np.arange(int(np.ceil(lo)), int(np.floor(hi)) + 1)))
        cmf = np.array(fit.parameter_cov_mat, dtype=float)[np.ix_(free_idx, free_idx)]
        for label, xs in xs_list:
            if len(xs) == 0:
                continue
            ctx.stratum(label)
            try:
                got = np.array(fit.error_band(xs), dtype=float)
            except Exception:
                ctx.violation(None, "error_band.no-exception", dict(d, x=xs, traceback=fmt_exc()))
                return nontrivial
            J = m.dfdp(np.asarray(xs, dtype=float), p_hat)[free_idx]  # (nfree, N)
            exp = np.sqrt(np.maximum(np.einsum("in,ij,jn->n", J, cmf, J), 0.0))
            # numerical derivative of the implementation: numdifftools, accurate to ~1e-6 relative on these families
            ok = np.all(np.abs(got - exp) <= 2e-3 * np.abs(exp) + 1e-9 * (np.abs(exp).max() + 1e-300))
            ctx.check("error-band", bool(ok), lambda: dict(d, which=label, x=xs, got=got, expected=exp))
    if sum(ctx._wit_per_key.values()) != nv:
        return nontrivial
    # ---- (f) a parameter is fixed where it stands (no new fit): the uncertainties are now those over the remaining free parameters
    if len(free_idx) >= 2 and not (case.get("limited") or {}):
        k = free_idx[int(rng.integers(0, len(free_idx)))]
        rest = [i for i in free_idx if i != k]
        adapter = None
        if spec["type"] == "xy":
            # the band as a plot draws it (the adapter a Plot keeps for the fit), asked for before AND after the covariance changes
            try:
                from kafe2.fit.xy.plot import XYPlotAdapter

                adapter = XYPlotAdapter(fit)
                ax_ = np.array(adapter.model_line_x, dtype=float)
                got = np.array(adapter.y_error_band, dtype=float)
                J = mb.ref.model.dfdp(ax_, p_hat)[free_idx]
                exp = np.sqrt(np.maximum(np.einsum("in,ij,jn->n", J, cm[np.ix_(free_idx, free_idx)], J), 0.0))
                ctx.op("plot-adapter.y_error_band")
                ctx.check("error-band.plot-adapter", bool(np.all(np.abs(got - exp) <= 2e-3 * np.abs(exp) + 1e-9 * (np.abs(exp).max() + 1e-300))), lambda: dict(d, x=ax_, got=got, expected=exp))
            except Exception as e:
                if numerical_failure(e):
                    adapter = None
                else:
                    ctx.violation(None, "plot-adapter.y_error_band.no-exception", dict(d, traceback=fmt_exc()))
                    return nontrivial
        ctx.op("fix_parameter.after-fit")
        try:
            fit.fix_parameter(names[k])
            if not fit.did_fit:
                ctx.discard("fix-after-fit-clears-did_fit")
                return nontrivial
            H2 = H[np.ix_([free_idx.index(i) for i in rest], [free_idx.index(i) for i in rest])]
            C2 = np.zeros_like(C)
            C2[np.ix_(rest, rest)] = 2.0 * np.linalg.inv(H2)
            s2 = np.sqrt(np.diag(C2))
            ss2 = np.where(s2 > 0, s2, 1.0)
            cm2 = np.array(fit.parameter_cov_mat, dtype=float)
            pe2 = np.array(fit.parameter_errors, dtype=float)
            dev2 = np.abs(cm2 - C2) / np.outer(ss, ss)
            d2 = dict(d, fixed_after_fit=names[k])
            # HESSE started from the state MINUIT kept from the previous parameter set (no MIGRAD estimate to refine): with strategy 1
            # its second derivatives are iterated until they change by < 5 % (MnStrategy HessianG2Tolerance); a relative error eps in a
            # diagonal element H_kk moves C_kk by eps * C_kk (C^-1)_kk = eps / (1 - rho_k^2), rho_k the global correlation coefficient
            # (thorough tier, poly3 with rho^2 = 0.985: variances 6-11 % off after fix + release, H itself good to 0.2 %)
            amp = float(np.max(np.diag(C[np.ix_(free_idx, free_idx)]) * np.diag(H) / 2.0))
            tol2 = tol if minimizer == "scipy" else max(tol, min(0.3, max(1e-1, 5e-2 * amp)))
            ctx.check("cov=2Hinv.after-fix", bool(np.all(dev2 <= tol2)), lambda: dict(d2, got=cm2, expected=C2, max_normalised_deviation=float(dev2.max()), tolerance=tol2))
            ctx.check("errors=sqrt-diag.after-fix", bool(np.all(np.abs(pe2 - np.sqrt(np.diag(cm2))) <= 1e-3 * ss + 1e-12)), lambda: dict(d2, errors=pe2, sqrt_diag_cov=np.sqrt(np.diag(cm2))))
            cor2 = fit.parameter_cor_mat
            if cor2 is not None and len(rest) >= 2:
                cor2 = np.array(cor2, dtype=float)
                dd2 = np.where(np.diag(cm2) > 0, np.sqrt(np.abs(np.diag(cm2))), 1.0)
                e2 = cm2 / np.outer(dd2, dd2)
                sub2 = np.ix_(rest, rest)
                ctx.check("cor=normalised.after-fix", bool(np.all(np.abs(cor2[sub2] - e2[sub2]) <= 1e-9)), lambda: dict(d2, got=cor2, expected=e2))
            if spec["type"] == "xy":
                xs = np.linspace(float(np.min(mb.ref.x)), float(np.max(mb.ref.x)), 5)
                got = np.array(fit.error_band(xs), dtype=float)
                J = mb.ref.model.dfdp(xs, p_hat)[rest]
                exp = np.sqrt(np.maximum(np.einsum("in,ij,jn->n", J, cm2[np.ix_(rest, rest)], J), 0.0))
                ctx.check("error-band.after-fix", bool(np.all(np.abs(got - exp) <= 2e-3 * np.abs(exp) + 1e-9 * (np.abs(exp).max() + 1e-300))), lambda: dict(d2, x=xs, got=got, expected=exp))
                if adapter is not None:
                    ax_ = np.array(adapter.model_line_x, dtype=float)
                    got = np.array(adapter.y_error_band, dtype=float)
                    J = mb.ref.model.dfdp(ax_, p_hat)[rest]
                    exp = np.sqrt(np.maximum(np.einsum("in,ij,jn->n", J, cm2[np.ix_(rest, rest)], J), 0.0))
                    ctx.check("error-band.plot-adapter.after-fix", bool(np.all(np.abs(got - exp) <= 2e-3 * np.abs(exp) + 1e-9 * (np.abs(exp).max() + 1e-300))), lambda: dict(d2, x=ax_, got=got, expected=exp, which="the adapter that drew the band before the parameter was fixed"))
            ctx.op("release_parameter.after-fit")
            fit.release_parameter(names[k])
            cm3 = np.array(fit.parameter_cov_mat, dtype=float)
            pe3 = np.array(fit.parameter_errors, dtype=float)
            dev3 = np.abs(cm3 - C) / np.outer(ss, ss)
            ctx.check("cov=2Hinv.after-release", bool(np.all(dev3 <= tol2)), lambda: dict(d2, got=cm3, expected=C, max_normalised_deviation=float(dev3.max()), tolerance=tol2))
            ctx.check("errors=sqrt-diag.after-release", bool(np.all(np.abs(pe3 - np.sqrt(np.diag(cm3))) <= 1e-3 * ss + 1e-12)), lambda: dict(d2, errors=pe3, sqrt_diag_cov=np.sqrt(np.diag(cm3))))
        except Exception as e:
            if numerical_failure(e):
                ctx.discard("fix-after-fit-failed-numerically")
            else:
                ctx.violation(None, "fix-after-fit.no-exception", dict(d, traceback=fmt_exc()))
    return nontrivial


# ------------------------------------------------------------------ multi-fit cases
def run_multi_case(ctx, case):
    """a MultiFit of xy members with shared parameters: the multi-fit's uncertainties obey the definitions on the joint reference cost (sum of
    the members' reference costs), and what every member reports afterwards is the part of it that belongs to the member's own parameters,
    attributed BY NAME (the member's signature order is in general not the multi-fit's order)"""
    from kafe2.fit import MultiFit

    minimizer = case["minimizer"]
    ctx.stratum(minimizer)
    ctx.stratum("multi")
    ctx.stratum("multi:" + minimizer)
    mbs = [Member(dict(m["spec"], minimizer=minimizer), m["setup"]) for m in case["members"]]
    mnames = [list(mb.ref.model.pnames) for mb in mbs]
    multi = MultiFit([mb.fit for mb in mbs], minimizer=minimizer)
    names = list(multi.parameter_names)
    if sorted(names) != sorted(combined_names(mnames)) or any(list(mb.fit.parameter_names) != mn for mb, mn in zip(mbs, mnames)):
        ctx.violation(None, "multi.parameter-names", {"multi": names, "members": mnames, "reported_member_names": [list(mb.fit.parameter_names) for mb in mbs]})
        return False
    idx = [[names.index(q) for q in mn] for mn in mnames]  # member position -> multi-fit position, by name
    ctx.add_to_set("multi.family-pair", "+".join(sorted(mb.ref.model.family for mb in mbs)))
    ctx.add_to_set("multi.signatures", "|".join(",".join(mn) for mn in mnames))
    for j in range(1, len(mbs)):
        if any(b < a for a, b in zip(idx[j], idx[j][1:])):
            ctx.stratum("multi:member-order-not-subsequence")
            ctx.op("multi.case.member-order-not-subsequence")
    if all(ix == sorted(ix) for ix in idx):
        ctx.stratum("multi:member-orders-agree")
    ctx.stratum("multi:shared-%d" % min(sum(q in mnames[0] for q in mnames[1]), 3))
    for q, v in case["fixed"].items():
        multi.fix_parameter(q, v)
        ctx.stratum("multi:fixed")
    multi.set_parameter_values(**case["start"])
    ctx.op("multi.do_fit")
    try:
        with time_limit(120):
            multi.do_fit()
    except OpTimeout:
        ctx.discard("do_fit-timeout")
        return False
    except Exception as e:
        if numerical_failure(e):
            ctx.discard("do_fit-failed-numerically")
            return False
        raise
    p_hat = np.array(multi.parameter_values, dtype=float)
    free_idx = [i for i, q in enumerate(names) if q not in case["fixed"]]

    def cost(p):
        try:
            tot = 0.0
            for mb, ix in zip(mbs, idx):
                pm = np.asarray(p, dtype=float)[ix]
                if not mb.admissible(pm):
                    return np.inf
                tot += mb.cost(pm)
            return tot if np.isfinite(tot) else np.inf
        except Exception:
            return np.inf

    c_hat = cost(p_hat)
    pe = np.array(multi.parameter_errors, dtype=float)
    if not np.isfinite(c_hat) or not np.all(np.isfinite(pe)) or np.any(pe[free_idx] <= 0):
        ctx.discard("fit-result-not-usable")
        return False
    try:
        H = ref_hessian(cost, p_hat, free_idx, pe[free_idx])
    except Exception:
        ctx.discard("reference-hessian-failed")
        return False
    ok, cond = pd_info(H) if np.all(np.isfinite(H)) else (False, np.inf)
    if not ok or cond > 1e4:
        ctx.discard("reference-hessian-not-pd-or-ill-conditioned")
        return False
    n = len(names)
    C = np.zeros((n, n))
    C[np.ix_(free_idx, free_idx)] = 2.0 * np.linalg.inv(H)
    sig = np.sqrt(np.diag(C))
    ss = np.where(sig > 0, sig, 1.0)
    cor_ref = C / np.outer(ss, ss)
    linear = all(mb.ref.model.linear and not any(o[1].get("reference") == "model" or gen.norm_axis(o[1].get("axis")) == "x" for o in m["setup"]) for mb, m in zip(mbs, case["members"]))
    nontrivial = len(free_idx) >= 2
    if linear:
        tol = 5e-3 if minimizer == "scipy" else max(5e-3, 2e-7 * cond)
    else:
        tol = 3e-2 if minimizer == "scipy" else 1e-1
    d = {"minimizer": minimizer, "linear": linear, "cond": cond, "fixed": case["fixed"], "multi_names": names, "member_names": mnames}
    nv = sum(ctx._wit_per_key.values())
    # ---- the multi-fit itself: (a) on the joint cost
    cm = multi.parameter_cov_mat
    if cm is None:
        ctx.violation(None, "multi.cov=2Hinv", dict(d, got=None))
        return nontrivial
    cm = np.array(cm, dtype=float)
    dev = np.abs(cm - C) / np.outer(ss, ss)
    ctx.check("multi.cov=2Hinv", bool(np.all(dev <= tol)), lambda: dict(d, got=cm, expected=C, max_normalised_deviation=float(dev.max()), tolerance=tol))
    wk = "multi_cov_dev_%s_%s" % (minimizer, "lin" if linear else "nonlin")
    ctx.worst[wk] = max(ctx.worst.get(wk, 0.0), float(dev.max()))
    ctx.check("multi.errors=sqrt-diag", bool(np.all(np.abs(pe - np.sqrt(np.diag(cm))) <= 1e-3 * ss + 1e-12)), lambda: dict(d, errors=pe, sqrt_diag_cov=np.sqrt(np.diag(cm))))
    cor = multi.parameter_cor_mat
    if cor is not None:
        cor = np.array(cor, dtype=float)
        dd = np.sqrt(np.diag(cm))
        dd = np.where(dd > 0, dd, 1.0)
        exp = cm / np.outer(dd, dd)
        sub = np.ix_(free_idx, free_idx)
        ctx.check("multi.cor=normalised", bool(np.all(np.abs(cor[sub] - exp[sub]) <= 1e-9)), lambda: dict(d, got=cor, expected=exp))
    if sum(ctx._wit_per_key.values()) != nv:
        return nontrivial
    # ---- every member: its covariance / errors / correlation are the entries of 2 H^-1 that belong to ITS parameters, in ITS order
    for j, (mb, mn, ix) in enumerate(zip(mbs, mnames, idx)):
        f = mb.fit
        dj = dict(d, member=j, member_parameter_names=mn, index_into_multi_fit=ix)
        sub = np.ix_(ix, ix)
        Cj, sj, ssj = C[sub], sig[ix], ss[ix]
        fr = [k for k, q in enumerate(mn) if q not in case["fixed"]]
        cmj = f.parameter_cov_mat
        if cmj is None:
            ctx.violation(None, "multi.member.cov=subblock-by-name", dict(dj, got=None))
            return nontrivial
        cmj = np.array(cmj, dtype=float)
        if cmj.shape != Cj.shape:
            ctx.violation(None, "multi.member.cov=subblock-by-name", dict(dj, got=cmj, expected=Cj))
            return nontrivial
        devj = np.abs(cmj - Cj) / np.outer(ssj, ssj)
        ctx.check("multi.member.cov=subblock-by-name", bool(np.all(devj <= tol)), lambda: dict(dj, got=cmj, expected=Cj, max_normalised_deviation=float(devj.max()), tolerance=tol, multi_fit_cov=cm))
        pej = np.array(f.parameter_errors, dtype=float)
        ctx.check("multi.member.errors=subblock-by-name", bool(pej.shape == sj.shape and np.all(np.abs(pej - sj) <= tol * ssj + 1e-12)), lambda: dict(dj, got=pej, expected=sj, tolerance=tol, multi_fit_errors=pe))
        ctx.check("multi.member.errors=sqrt-diag", bool(pej.shape == sj.shape and np.all(np.abs(pej - np.sqrt(np.diag(cmj))) <= 1e-3 * ssj + 1e-12)), lambda: dict(dj, errors=pej, sqrt_diag_cov=np.sqrt(np.diag(cmj))))
        corj = f.parameter_cor_mat
        if corj is not None:
            corj = np.array(corj, dtype=float)
            fs = np.ix_(fr, fr)
            ddj = np.where(np.diag(cmj) > 0, np.sqrt(np.abs(np.diag(cmj))), 1.0)
            ctx.check("multi.member.cor=normalised", bool(corj.shape == cmj.shape and np.all(np.abs(corj[fs] - (cmj / np.outer(ddj, ddj))[fs]) <= 1e-9)), lambda: dict(dj, got=corj, expected=cmj / np.outer(ddj, ddj)))
            ctx.check("multi.member.cor=subblock-by-name", bool(corj.shape == cmj.shape and np.all(np.abs(corj[fs] - cor_ref[sub][fs]) <= 2.0 * tol)), lambda: dict(dj, got=corj, expected=cor_ref[sub], tolerance=2.0 * tol))
    # ---- (e) every member's error band: the covariance of the member's parameters (taken by name from the multi-fit's, which was just
    # compared with the definition) propagated through the member model's analytic parameter derivatives (no state changed since the
    # previous block: evaluated also if that block diverged)
    for j, (mb, mn, ix) in enumerate(zip(mbs, mnames, idx)):
        ctx.op("multi.member.error_band")
        m = mb.ref.model
        pm = p_hat[ix]
        fr = [k for k, q in enumerate(mn) if q not in case["fixed"]]
        cj = cm[np.ix_(ix, ix)][np.ix_(fr, fr)]
        xd = np.array(mb.ref.x, dtype=float)
        lo, hi = xd.min(), xd.max()
        xs = np.concatenate([np.linspace(lo, hi, 5), [lo - 0.4, hi + 0.7]])
        try:
            got = np.array(mb.fit.error_band(xs), dtype=float)
        except Exception:
            ctx.violation(None, "multi.member.error_band.no-exception", dict(d, member=j, x=xs, traceback=fmt_exc()))
            return nontrivial
        J = m.dfdp(xs, pm)[fr]
        exp = np.sqrt(np.maximum(np.einsum("in,ij,jn->n", J, cj, J), 0.0))
        ctx.check("multi.member.error-band", bool(np.all(np.abs(got - exp) <= 2e-3 * np.abs(exp) + 1e-9 * (np.abs(exp).max() + 1e-300))), lambda: dict(d, member=j, member_parameter_names=mn, x=xs, got=got, expected=exp, covariance_of_member_parameters_by_name=cj))
    if sum(ctx._wit_per_key.values()) != nv:
        return nontrivial
    # ---- (c) asymmetric errors of the multi-fit on the joint reference profile; the members report them for their own parameters
    if case["extras"].get("asymmetric"):
        ctx.op("multi.asymmetric")
        try:
            with time_limit(90):
                ae = multi.asymmetric_parameter_errors
        except OpTimeout:
            ae = None
            ctx.discard("asymmetric-timeout")
        except Exception as e:
            if numerical_failure(e):
                ae = None
                ctx.discard("asymmetric-failed-numerically")
            else:
                ctx.violation(None, "multi.asymmetric.no-exception", dict(d, traceback=fmt_exc()))
                return nontrivial
        if ae is not None:
            ae = np.array(ae, dtype=float)
            atol = 3e-2 if minimizer == "iminuit" else 6e-2
            apars = case["extras"].get("asymmetric_parameters") or [names[i] for i in free_idx]
            rises = {}

            def rise_at(i, e):
                k = (i, float(e))
                if k not in rises:
                    r = ref_profile_value(cost, p_hat, free_idx, {i: float(p_hat[i] + e)}, sig)
                    rises[k] = (r - c_hat) if np.isfinite(r) else None
                return rises[k]

            def check_rows(obs, rows, ix, extra):
                for k, i in enumerate(ix):
                    if names[i] not in apars and i in free_idx:
                        continue
                    if i not in free_idx:
                        ctx.check(obs + ".fixed-zero", bool(np.all(rows[k] == 0) or np.all(np.isnan(rows[k]))), lambda: dict(d, parameter=names[i], got=rows[k], **extra))
                        continue
                    for c_, side in ((0, "down"), (1, "up")):
                        e = rows[k, c_]
                        if not np.isfinite(e) or e == 0 or abs(e) > 20 * sig[i]:
                            ctx.discard("asymmetric-error-not-usable")
                            continue
                        rs = rise_at(i, e)
                        if rs is None:
                            ctx.discard("reference-profile-not-finite")
                            continue
                        ctx.check(obs, abs(rs - 1.0) <= atol and (e < 0 if side == "down" else e > 0), lambda: dict(d, parameter=names[i], side=side, error=float(e), reference_rise=rs, tolerance=atol, multi_fit_asymmetric_errors=ae, **extra))

            check_rows("multi.asymmetric-rise", ae, list(range(n)), {})
            if sum(ctx._wit_per_key.values()) != nv:
                return nontrivial
            for j, (mb, mn, ix) in enumerate(zip(mbs, mnames, idx)):
                aej = np.array(mb.fit.asymmetric_parameter_errors, dtype=float)
                if aej.shape != (len(mn), 2):
                    ctx.violation(None, "multi.member.asymmetric-rise", dict(d, member=j, got=aej))
                    return nontrivial
                check_rows("multi.member.asymmetric-rise", aej, ix, {"member": j, "member_parameter_names": mn, "member_asymmetric_errors": aej})
    return nontrivial


def run_case(ctx, case):
    ctx.reseed_legacy()
    if case["kind"] == "adapter":
        return run_adapter(ctx, case)
    if case["kind"] == "multi":
        return run_multi_case(ctx, case)
    return run_fit_case(ctx, case)


def run_shard(ctx):
    idx = 0
    while ctx.more():
        case = gen_case(ctx.rng, ctx.tier, idx, ctx.shard, ctx.nshards)
        idx += 1
        ctx.begin_case(case)
        nontrivial = False
        try:
            nontrivial = run_case(ctx, case)
        except Exception:
            ctx.violation(None, "unexpected-exception", {"traceback": fmt_exc()})
        ctx.end_case(nontrivial=nontrivial)


def replay(ctx, case):
    ctx.begin_case(case)
    try:
        run_case(ctx, case)
    except Exception:
        ctx.violation(None, "unexpected-exception", {"traceback": fmt_exc()})
    ctx.end_case(nontrivial=True)
