"""C19 — invalid specifications are rejected loudly and leave the object unchanged.

Shape: negative-testing trace monitor with a twin object.
A valid history is run on two identical objects A and B (data containers through their own API, fits
through the vlib.dsl op alphabet on both minimizer backends, computation graphs through
kafe2.core.fitters.nexus).  At a random position a *malformed variant of a valid call* is issued on A
only; then the rest of the history (reads included) runs on both.

Oracle
 (1) the malformed call raises an exception at the call (any Exception; the type goes into a coverage set);
 (2) all observables of A immediately after the rejection equal those before it (EXACT) — "before" is A's own
     snapshot ("warm" cases) or, by twin identity, B's observables at the same position ("cold" cases, A's
     caches are not touched before the malformed call);
 (3) every later read agrees between A and B (EXACT for bookkeeping, LINALG for floats, OPTIM after do_fit on
     both), and every later valid call has the same outcome on A as on B.
Malformed constructor calls (reserved parameter names, Poisson cost with bad data, unsorted edges in the
HistContainer constructor) have no object to leave unchanged: only (1) applies; the valid variant of the same
constructor call must be accepted, otherwise the case is discarded.

Only the malformation classes named in the statement are generated, one operator per class (OPERATORS below), on
data containers, single fits and MultiFits (sources shared between member fits).  Two more operators (CONDITIONAL)
issue calls that are malformed in a way the statement does not list (bin heights that do not fit the binning, a shared
source whose name is already taken in a member fit): for those clause (1) is not demanded (an accepted call is counted
and the history ends), only the second sentence of the statement: IF the call is rejected, (2) and (3) apply.
"""
import copy
import re

import numpy as np

from kafe2.core.fitters import nexus as nx
from vlib import dsl, gen
from vlib.models import Model
from vlib.monitor import OpTimeout, Tol, allclose, fmt_exc, time_limit

PROPERTY = "C19"
TIERS = {"quick": {"shards": 8, "budget_s": 30}, "thorough": {"shards": 16, "budget_s": 400}}
RULE = (
    "twin history: (container xy/indexed/hist | fit xy/indexed/hist/unbinned x {iminuit, scipy} | MultiFit of 2-4 xy/indexed chi2 members, sources shared by "
    "fits='all' or a list, optionally one member of another size outside the sharing group | nexus graph) + valid setup + valid op word "
    "(<=8 ops quick / <=20 thorough, reads anywhere, optional do_fit) + ONE malformed variant of a valid call (one operator per class of the statement, "
    "see OPERATORS/VARIANTS) issued on twin A only at a random position, optionally followed by the valid original on both; constructor-time classes "
    "as single calls. Poisson data: negative entry, non-integer entry, non-integer counts of large magnitude (1e3..1e7, one entry or all entries large). "
    "Two conditional operators (a raise is not demanded, 'unchanged if rejected' is): HistContainer.set_bins with heights that do not fit the binning "
    "(followed by fill / rebin), a shared source whose name is taken in a later / the first member. First cases of every shard enumerate every required "
    "(operator, target) pair, every required (operator, target, variant) triple (unknown parameter: variant x backend; Poisson data: variant x entry point; "
    "conditional operators; shared size mismatch) and every (operator, variant), then random. "
    "non-trivial = the malformed call was issued (valid variant accepted / history reached the position); distinct by case hash"
)
ASSUMPTIONS = [
    "a size mismatch is generated with a malformed length >= 2: a length-1 vector is indistinguishable from the documented scalar broadcast",
    "non-unit correlation diagonals deviate by >= 1e-3 (the data-side check is documented as 'close to one', np.allclose)",
    "reserved names are exactly the members of <FitClass>.RESERVED_NODE_NAMES of the fit type under test",
    "valid calls of the history that the clean twin B rejects are generator errors: the rest of that history is discarded (counted), never a verdict",
    "a Function node handed to Nexus.add(existing_behavior='replace') was wired to its parameters by its own constructor; only nodes registered in the "
    "nexus are part of the graph observables",
    "sources shared between members of a MultiFit are absolute (a relative shared source demands identical reference data in all members) and are given with "
    "axis 'x'/'y'/None; a source of a single indexed member is declared on the member fit (MultiFit.add_error(fits=<int>) passes an axis keyword on)",
    "conditional operators (CONDITIONAL): the malformation is not in the list of the statement, so an accepted call is no violation (counted, history ends); a taken "
    "name means taken in the container (data / model) the shared source refers to",
    "twins run in one process on the same inputs: EXACT/LINALG agreement is expected; after do_fit on both, parameters agree within 1e-3 sigma, cost within 1e-3",
]
_HC = "kafe2.fit.histogram.container"
ANCHORS = [
    ("kafe2.core.error", "SimpleGaussianError.__init__"),
    ("kafe2.core.error", "SimpleGaussianError.error"),
    ("kafe2.core.error", "SimpleGaussianError.error_rel"),
    ("kafe2.core.error", "MatrixGaussianError.__init__"),
    ("kafe2.core.error", "MatrixGaussianError._calculate_cov_mat_from_cor_mat_and_error_array"),
    ("kafe2.core.error", "CovMat.mat"),
    ("kafe2.core.constraint", "GaussianMatrixParameterConstraint.__init__"),
    ("kafe2.core.fitters.nexus", "Nexus.add"),
    ("kafe2.core.fitters.nexus", "Nexus.add_dependency"),
    ("kafe2.core.fitters.nexus", "NodeCycleChecker.run"),
    ("kafe2.core.fitters.nexus", "Nexus.get_value_dict"),
    ("kafe2.core.fitters.nexus_fitter", "NexusFitter.set_fit_parameter_values"),
    ("kafe2.core.fitters.nexus_fitter", "NexusFitter.fix_parameter"),
    ("kafe2.core.fitters.nexus_fitter", "NexusFitter.release_parameter"),
    ("kafe2.core.fitters.nexus_fitter", "NexusFitter.limit_parameter"),
    ("kafe2.core.minimizers.iminuit_minimizer", "MinimizerIMinuit.limit"),
    ("kafe2.core.minimizers.iminuit_minimizer", "MinimizerIMinuit.fix"),
    ("kafe2.core.minimizers.iminuit_minimizer", "MinimizerIMinuit.release"),
    ("kafe2.core.minimizers.scipy_optimize_minimizer", "MinimizerScipyOptimize.limit"),
    ("kafe2.core.minimizers.scipy_optimize_minimizer", "MinimizerScipyOptimize.fix"),
    ("kafe2.core.minimizers.scipy_optimize_minimizer", "MinimizerScipyOptimize.release"),
    ("kafe2.fit._base.container", "DataContainerBase._add_error_object"),
    ("kafe2.fit._base.container", "DataContainerBase._get_error_by_name_raise"),
    ("kafe2.fit._base.fit", "FitBase.__init__"),
    ("kafe2.fit._base.fit", "FitBase.data"),
    ("kafe2.fit._base.fit", "FitBase.set_parameter_values"),
    ("kafe2.fit._base.fit", "FitBase.fix_parameter"),
    ("kafe2.fit._base.fit", "FitBase.release_parameter"),
    ("kafe2.fit._base.fit", "FitBase.limit_parameter"),
    ("kafe2.fit._base.fit", "FitBase.add_parameter_constraint"),
    ("kafe2.fit._base.fit", "FitBase.add_matrix_parameter_constraint"),
    ("kafe2.fit._base.fit", "FitBase.disable_error"),
    ("kafe2.fit._base.fit", "FitBase.enable_error"),
    ("kafe2.fit._base.cost", "CostFunction_NegLogLikelihood.is_data_compatible"),
    (_HC, "HistContainer.__init__"),
    (_HC, "HistContainer.rebin"),
    (_HC, "HistContainer.set_bins"),
    ("kafe2.core.fitters.nexus_fitter", "NexusFitter.unlimit_parameter"),
    ("kafe2.fit._base.fit", "FitBase.unlimit_parameter"),
    ("kafe2.fit.multi.fit", "MultiFit.add_error"),
    ("kafe2.fit.multi.fit", "MultiFit.add_matrix_error"),
    ("kafe2.fit.multi.fit", "MultiFit._add_error_object"),
    ("kafe2.fit.xy.container", "XYContainer._find_axis_raise"),
    ("kafe2.fit.xy.container", "XYContainer.add_error"),
    ("kafe2.fit.xy.container", "XYContainer.add_matrix_error"),
]

# ------------------------------------------------------------------ operators, variants, required (operator, target) pairs
ERR_TYPES = ["xy", "indexed", "hist"]
ALL_TYPES = ["xy", "indexed", "hist", "unbinned"]
BACKENDS = ["iminuit", "scipy"]
VARIANTS = {
    "size-off": ["simple", "simple-relative-length-one", "matrix-cov", "matrix-cov-nonsquare", "matrix-cor-errval", "matrix-cor-matrix", "matrix-cor-both"],
    "negative-entry": ["simple-vector", "simple-scalar", "cor-err_val"],
    "corr-out-of-range": ["-0.1", "1.1", "inf", "-inf", "nan"],
    "cor-nonunit-diagonal": ["source", "constraint"],
    "constraint-matrix": ["nonsymmetric", "wrong-shape-bigger", "wrong-shape-nonsquare", "wrong-shape-flat", "names-values-short", "names-values-long", "uncertainties-long", "uncertainties-short", "uncertainties-not-positive", "simple-uncertainty-not-positive"],
    "unknown-parameter": ["set", "set-mixed", "fix", "fix-value", "limit", "unlimit", "constraint", "mconstraint", "release"],
    "unknown-source": ["disable", "enable"],
    "unknown-fit-index": ["negative", "too-large"],
    "reserved-name": ["rename"],
    "poisson-data": ["negative", "non-integer", "non-integer-large"],
    "unsorted-edges": ["swap", "descending", "inner-form-swap"],
    "cycle": ["dep-single", "dep-self", "dep-list-first", "dep-list-last", "add-replace"],
    # conditional operators (not a class of the statement: a raise is not demanded, "unchanged if rejected" is)
    "bin-heights-shape": ["too-few", "too-many", "two-dimensional"],
    "name-taken-in-member": ["in-later-member", "in-first-member"],
}
OPERATORS = list(VARIANTS)
CONDITIONAL = ("bin-heights-shape", "name-taken-in-member")
SOURCE_OPERATORS = ("size-off", "negative-entry", "corr-out-of-range", "cor-nonunit-diagonal")
MULTI_KINDS = {"xy": ["xy", "xy"], "indexed": ["indexed", "indexed"], "mixed": ["xy", "indexed"]}
MULTI_TARGETS = ["multi:%s" % k for k in MULTI_KINDS]


def _fit_targets(types):
    return ["fit:%s/%s" % (t, b) for t in types for b in BACKENDS]


TARGETS = {
    "size-off": ["container:%s" % t for t in ERR_TYPES] + _fit_targets(ERR_TYPES) + MULTI_TARGETS,
    "negative-entry": ["container:%s" % t for t in ERR_TYPES] + _fit_targets(ERR_TYPES) + MULTI_TARGETS,
    "corr-out-of-range": ["container:%s" % t for t in ERR_TYPES] + _fit_targets(ERR_TYPES) + MULTI_TARGETS,
    "cor-nonunit-diagonal": ["container:%s" % t for t in ERR_TYPES] + _fit_targets(ERR_TYPES) + MULTI_TARGETS,
    "unknown-source": ["container:%s" % t for t in ERR_TYPES] + _fit_targets(ERR_TYPES),
    "constraint-matrix": _fit_targets(ALL_TYPES),
    "unknown-fit-index": MULTI_TARGETS,
    "unknown-parameter": _fit_targets(ALL_TYPES),
    "reserved-name": ["ctor:%s" % t for t in ALL_TYPES],
    "poisson-data": ["ctor:%s" % t for t in ERR_TYPES] + _fit_targets(ERR_TYPES),
    "unsorted-edges": ["ctor:hist", "container:hist"],
    "cycle": ["graph:nexus"],
    "bin-heights-shape": ["container:hist"],
    "name-taken-in-member": list(MULTI_TARGETS),
}
REQUIRED_PAIRS = [(o, t) for o in OPERATORS for t in TARGETS[o]]
ALL_VARIANTS = [(o, v) for o in OPERATORS for v in VARIANTS[o]]
# (operator, target pattern, variant) triples enumerated on top of the pairs: where the outcome of the malformed call is decided
# per (variant, backend) (parameter names go through the minimizer wrapper) or per (variant, entry point) (Poisson data)
REQUIRED_TRIPLES = (
    [("unknown-parameter", "fit:*/%s" % b, v) for v in VARIANTS["unknown-parameter"] for b in BACKENDS]
    + [("poisson-data", t, v) for v in VARIANTS["poisson-data"] for t in TARGETS["poisson-data"]]
    + [(o, t, v) for o in CONDITIONAL for t in TARGETS[o] for v in VARIANTS[o]]
    + [("size-off", t, v) for t in MULTI_TARGETS for v in ("simple", "matrix-cov", "matrix-cor-errval")]
)


def variant_ok(operator, variant, target):
    """which variants exist for which target"""
    kind = target.split(":")[0]
    if operator == "cor-nonunit-diagonal" and variant == "constraint":
        return kind == "fit"
    if operator == "unsorted-edges":
        return (variant == "inner-form-swap") == (kind == "ctor") or variant == "swap"
    return True


def floors(tier):
    k = 1 if tier == "quick" else 10
    f = _floors(k)
    f["comparisons"] = {o: n * k for o, n in f["comparisons"].items()}
    return f


def _floors(k):
    return {
        "comparisons": {
            "reject.raises": 120,
            "twin.identical-before": 40,
            "A.unchanged/sources": 40,
            "A.unchanged/cost_function_value": 30,
            "A.unchanged/total_cov_mat": 20,
            "A.unchanged/parameter_values": 30,
            "A.unchanged/limited_parameters": 30,
            "A.unchanged/fixed_parameters": 30,
            "A.unchanged/n_constraints": 30,
            "A.unchanged/data": 40,
            "A.unchanged/cov_mat": 10,
            "A.unchanged/y_cov_mat": 10,
            "A.unchanged/graph.values": 5,
            "A.unchanged/graph.value_dict": 5,
            "A.unchanged/graph.structure": 5,
            "AB.later/cost_function_value": 60,
            "AB.later/total_cov_mat": 40,
            "AB.later/parameter_values": 60,
            "AB.later/sources": 60,
            "AB.later/graph.values": 5,
            "AB.later/op-outcome": 150,
            "AB.later/fit_result": 3,
            "A.unchanged/member0.cost_function_value": 15,
            "A.unchanged/member1.total_cov_mat": 15,
            "A.unchanged/shared_names": 15,
            "AB.later/member0.cost_function_value": 15,
            "A.unchanged/n_entries": 8,
        },
        "ops": [
            "add_error", "add_matrix_error", "disable_error", "enable_error", "add_parameter_constraint", "add_matrix_parameter_constraint",
            "set_parameter_values", "fix_parameter", "release_parameter", "limit_parameter", "unlimit_parameter", "set_data", "do_fit", "read",
            "c.add_error", "c.add_matrix_error", "c.disable_error", "c.enable_error", "c.fill", "c.rebin", "c.set_data", "c.read",
            "g.set", "g.read", "g.read_all", "g.value_dict", "g.add_dependency", "g.add_function", "g.add_alias",
            "m.add_error", "m.add_matrix_error", "m.set_parameter_values", "m.read",
        ] + ["malformed:%s" % o for o in OPERATORS],
        "reach": ["%s:%s" % a for a in ANCHORS],
        "strata": ["%s|%s" % p for p in REQUIRED_PAIRS] + ["%s|%s|%s" % t for t in REQUIRED_TRIPLES] + ["mode|warm", "mode|cold", "follow-valid", "rejected-at-start", "rejected-at-end", "poisson-large|one-entry", "poisson-large|all-entries", "multi|outsider-member", "multi|fits-all", "multi|fits-list"],
        "sets": {"operator_variant": len(ALL_VARIANTS), "exception_types": 8, "source_detail": 20},
        "distinct_nontrivial": 120 * k,
    }


# ------------------------------------------------------------------ small helpers
EXACT = Tol.EXACT
LINALG = Tol.LINALG
OPTIMD = Tol.custom("OPTIM-derived", 1e-6, 1e-9)


def _resize(v, m):
    return [v[i % len(v)] for i in range(m)]


def _f(v):
    """decode a number that may be stored as a string ('nan', 'inf', '-inf')"""
    return float(v) if isinstance(v, str) else v


def norm(v):
    if isinstance(v, np.ndarray):
        return np.array(v, dtype=float) if v.dtype.kind in "fiub" else [norm(x) for x in v.tolist()]
    if isinstance(v, (np.floating,)):
        return float(v)
    if isinstance(v, (np.integer,)):
        return int(v)
    if isinstance(v, (np.bool_,)):
        return bool(v)
    if isinstance(v, dict):
        return {str(k): norm(x) for k, x in v.items()}
    if isinstance(v, (list, tuple)):
        return [norm(x) for x in v]
    return v


def _absmax(a):
    a = np.abs(a[np.isfinite(a)]) if a.size else a
    return float(a.max()) if a.size else 1.0


def same(a, b, tol):
    """structural equality; numbers / numeric arrays within tol (nan == nan, inf == inf)"""
    if isinstance(a, np.ndarray) or isinstance(b, np.ndarray):
        if not (isinstance(a, np.ndarray) and isinstance(b, np.ndarray)) or a.shape != b.shape:
            return False
        return allclose(a, b, tol[1], tol[2], scale=max(_absmax(a), _absmax(b)))
    if isinstance(a, dict) or isinstance(b, dict):
        return isinstance(a, dict) and isinstance(b, dict) and list(a) == list(b) and all(same(a[k], b[k], tol) for k in a)
    if isinstance(a, list) or isinstance(b, list):
        return isinstance(a, list) and isinstance(b, list) and len(a) == len(b) and all(same(x, y, tol) for x, y in zip(a, b))
    if isinstance(a, bool) or isinstance(b, bool) or a is None or b is None or isinstance(a, str) or isinstance(b, str):
        return type(a) is type(b) and a == b
    if isinstance(a, (int, float)) and isinstance(b, (int, float)):
        return allclose(np.array(float(a)), np.array(float(b)), tol[1], tol[2])
    return a == b


def _rd(out, name, f):
    try:
        out[name] = norm(f())
    except OpTimeout:
        raise
    except RecursionError:
        out[name] = "EXC:RecursionError"
    except Exception as e:
        out[name] = "EXC:%s" % type(e).__name__


def n_wit(ctx):
    return len(ctx.witnesses) + sum(ctx._wit_per_key.values())


# ------------------------------------------------------------------ containers: build / ops / observables
def container_spec_of(spec):
    t = spec["type"]
    if t == "xy":
        return {"type": "xy", "x": spec["x"], "y": spec["y"]}
    if t == "indexed":
        return {"type": "indexed", "data": spec["data"]}
    return {"type": "hist", "edges": spec["edges"], "entries": spec["entries"]}


def apply_container(c, ttype, op):
    k = op[0]
    if k in ("add_error", "add_matrix_error"):
        a = op[1]
        kw = {"axis": a["axis"]} if ttype == "xy" else {}
        if k == "add_error":
            err = a["err"]
            err = np.array(err, dtype=float) if isinstance(err, (list, tuple)) else err
            return c.add_error(err_val=err, name=a["name"], correlation=_f(a.get("corr", 0.0)), relative=a.get("relative", False), **kw)
        ev = a.get("err_val")
        ev = np.array(ev, dtype=float) if isinstance(ev, (list, tuple)) else ev
        return c.add_matrix_error(err_matrix=np.array(a["matrix"], dtype=float), matrix_type=a["matrix_type"], name=a["name"], err_val=ev, relative=a.get("relative", False), **kw)
    if k == "disable_error":
        return c.disable_error(op[1])
    if k == "enable_error":
        return c.enable_error(op[1])
    if k == "fill":
        return c.fill(list(op[1]))
    if k == "rebin":
        return c.rebin(list(op[1]))
    if k == "set_bins":
        return c.set_bins(op[1], **op[2])
    if k == "set_data":
        if ttype == "xy":
            setattr(c, op[1], np.array(op[2], dtype=float))
        else:
            c.data = np.array(op[2], dtype=float)
        return None
    raise KeyError(k)


def container_obs(c, ttype):
    out = {}
    if ttype == "xy":
        names = ("x", "y", "x_err", "y_err", "x_cov_mat", "y_cov_mat", "x_cor_mat", "y_cor_mat")
    elif ttype == "hist":
        names = ("data", "err", "cov_mat", "cor_mat", "bin_edges", "n_entries", "underflow", "overflow")
    else:
        names = ("data", "err", "cov_mat", "cor_mat")
    for nm in names:
        _rd(out, nm, lambda nm=nm: getattr(c, nm))
    out["sources"] = [[str(n), bool(d["enabled"]), d.get("axis")] for n, d in c._error_dicts.items()]
    return out


# ------------------------------------------------------------------ fits: build / ops / observables
def decode_op(op):
    """fit / container op as stored in the case -> op with real floats (correlation may be stored as 'nan' / 'inf')"""
    if op[0] == "add_error" and isinstance(op[1].get("corr"), str):
        return [op[0], dict(op[1], corr=float(op[1]["corr"]))]
    return op


def apply_fit(fit, spec, op):
    k = op[0]
    if k == "set_data_numpy_hist":  # documented: a NumPy histogram (heights, edges)
        fit.data = (np.array(op[1], dtype=float), np.array(op[2], dtype=float))
        return None
    if k == "set_data_hist_bins":  # a HistContainer whose heights were set with set_bins
        fit.data = hist_container_with_bins(op[1], op[2])
        return None
    return dsl.apply_live(fit, spec, decode_op(op))


def hist_container_with_bins(heights, edges):
    from kafe2.fit import HistContainer

    c = HistContainer(n_bins=len(edges) - 1, bin_range=(edges[0], edges[-1]), bin_edges=list(edges))
    c.set_bins(list(heights))
    return c


def fit_obs(fit, ttype):
    out = {}
    _rd(out, "cost_function_value", lambda: float(fit.cost_function_value))
    if ttype != "unbinned":
        _rd(out, "total_cov_mat", lambda: fit.total_cov_mat)
        _rd(out, "total_error", lambda: fit.total_error)
    _rd(out, "model", lambda: np.array(fit.model, dtype=float))
    if ttype == "xy":
        _rd(out, "y_model", lambda: np.array(fit.y_model, dtype=float))
    _rd(out, "data", lambda: np.array(fit.data, dtype=float))
    _rd(out, "ndf", lambda: int(fit.ndf))
    _rd(out, "parameter_values", lambda: np.array(fit.parameter_values, dtype=float))
    _rd(out, "fixed_parameters", lambda: dict(fit._fitter.fixed_parameters))
    _rd(out, "limited_parameters", lambda: dict(fit._fitter.limited_parameters))
    _rd(out, "n_constraints", lambda: len(fit.parameter_constraints))
    _rd(out, "did_fit", lambda: bool(fit.did_fit))

    def sources():
        r = []
        for where, cont in (("data", fit._data_container), ("model", fit._param_model)):
            for n, d in cont._error_dicts.items():
                r.append([where, str(n), bool(d["enabled"]), d.get("axis")])
        return r

    _rd(out, "sources", sources)
    if out.get("did_fit") is True:
        _rd(out, "parameter_errors", lambda: np.array(fit.parameter_errors, dtype=float))
    return out


# ------------------------------------------------------------------ graphs: pure functions, build / ops / observables
M = 1000003


def _flat(args):
    out = []
    for a in args:
        if isinstance(a, (tuple, list, np.ndarray)):
            out.extend(_flat(list(a)))
        else:
            out.append(int(a))
    return out


GFUNCS = {
    "sum": lambda *a: sum(_flat(a)) % M,
    "lin": lambda *a: sum((i + 2) * v for i, v in enumerate(_flat(a))) % M,
    "sq": lambda *a: sum(v * v for v in _flat(a)) % M,
    "max": lambda *a: max(_flat(a) or [0]),
}


class Graph:
    def __init__(self, program):
        self.nexus = nx.Nexus()
        self.keep = []  # strong references (parents are weakly referenced)
        for ins in program:
            kind, name = ins[0], ins[1]
            if kind == "param":
                node = nx.Parameter(ins[2], name=name)
            elif kind == "func":
                node = nx.Function(GFUNCS[ins[2]], name=name, parameters=[self.nexus.get(p) for p in ins[3]])
            elif kind == "alias":
                node = nx.Alias(self.nexus.get(ins[2]), name=name)
            elif kind == "tuple":
                node = nx.Tuple([self.nexus.get(p) for p in ins[2]], name=name)
            else:
                raise KeyError(kind)
            self.keep.append(node)
            self.nexus.add(node)

    def names(self):
        return sorted(n for n in self.nexus._nodes if n != "__root__")

    def registered(self, node):
        return self.nexus.get(node.name) is node


def apply_graph(g, op):
    k = op[0]
    if k == "set":
        g.nexus.get(op[1]).value = op[2]
    elif k == "add_dependency":
        deps = op[2]
        g.nexus.add_dependency(op[1], depends_on=deps[0] if (len(deps) == 1 and op[3] == "str") else list(deps))
    elif k == "add_function":
        f = GFUNCS[op[2]]
        g.keep.append(g.nexus.add_function(lambda *a: f(*a), func_name=op[1], par_names=list(op[3])))
    elif k == "add_alias":
        g.keep.append(g.nexus.add_alias(op[1], alias_for=op[2]))
    elif k == "add_replace":
        node = nx.Function(GFUNCS[op[2]], name=op[1], parameters=[g.nexus.get(p) for p in op[3]])
        g.keep.append(node)
        g.nexus.add(node, existing_behavior="replace")
    else:
        raise KeyError(k)


def _node_value(node):
    with time_limit(3.0):
        v = node.value
    return norm(v.copy() if isinstance(v, np.ndarray) else v)


def graph_obs(g):
    out = {}
    vals = {}
    for n in g.names():
        _rd(vals, n, lambda n=n: _node_value(g.nexus.get(n)))
    out["graph.values"] = vals

    def vd():
        with time_limit(5.0):
            d = g.nexus.get_value_dict(error_behavior="exception_as_value")
        return {k: (("EXC:%s" % type(v).__name__) if isinstance(v, Exception) else norm(v)) for k, v in sorted(d.items())}

    _rd(out, "graph.value_dict", vd)
    st = {}
    for n in g.names():
        node = g.nexus.get(n)
        st[n] = {
            "children": [c.name for c in node.get_children()],
            "parents": sorted(p.name for p in node.get_parents() if p.name != "__root__" and g.registered(p)),
        }
    out["graph.structure"] = st
    return out


def live_descendants(node):
    seen, todo = set(), [node]
    while todo:
        x = todo.pop()
        for c in x.get_children():
            if id(c) not in seen:
                seen.add(id(c))
                todo.append(c)
    return seen


# ------------------------------------------------------------------ generation: valid source / malformed source
def _src_common(ttype, for_fit, yscale):
    return dict(yscale=yscale, allow_model=bool(for_fit and ttype in ("xy", "indexed")), allow_x=(ttype == "xy"))


def gen_valid_source(rng, ttype, n, name, for_fit, yscale, force=None, allow=("simple", "matrix")):
    f = dict(force or {})
    if not for_fit:
        f["reference"] = "data"
    return gen.gen_source(rng, n, ttype, name, allow=allow, force=f, **_src_common(ttype, for_fit, yscale))


def _pick_delta(rng, n):
    ds = [d for d in (-3, -2, -1, 1, 2, 3) if n + d >= 2]
    return int(ds[int(rng.integers(0, len(ds)))])


def _grow(mat, m):
    """(k,k) PSD matrix -> (m,m): top-left block if m < k, block-diagonal extension with the mean variance if m > k"""
    a = np.array(mat, dtype=float)
    k = a.shape[0]
    if m <= k:
        return a[:m, :m].tolist()
    out = np.eye(m) * float(np.mean(np.diag(a)))
    out[:k, :k] = a
    return out.tolist()


def gen_bad_source(rng, ttype, n, name, operator, variant, for_fit, yscale, base_force=None):
    """returns (valid op, malformed op, info)"""
    info = {}

    def gvs(rng, ttype, n, name, for_fit, yscale, force=None):
        return gen_valid_source(rng, ttype, n, name, for_fit, yscale, force=dict(force or {}, **(base_force or {})))

    if operator == "size-off":
        d = _pick_delta(rng, n)
        info["delta"] = d
        m = n + d
        if variant == "simple":
            valid = gvs(rng, ttype, n, name, for_fit, yscale, force={"kind": "simple", "shape": str(rng.choice(["vec", "constvec", "veczero"]))})
            bad = copy.deepcopy(valid)
            bad[1]["err"] = _resize(valid[1]["err"], m)
        elif variant == "simple-relative-length-one":
            # a relative uncertainty as an array of length one: numpy would broadcast it against the reference values
            valid = gvs(rng, ttype, n, name, for_fit, yscale, force={"kind": "simple", "shape": "constvec", "relative": True, "reference": "data"})
            bad = copy.deepcopy(valid)
            bad[1]["err"] = [float(valid[1]["err"][0])]
            info["delta"] = 1 - n
        elif variant in ("matrix-cov", "matrix-cov-nonsquare"):
            valid = gvs(rng, ttype, n, name, for_fit, yscale, force={"kind": "matrix", "matrix_type": "cov"})
            bad = copy.deepcopy(valid)
            if variant == "matrix-cov":
                bad[1]["matrix"] = _grow(valid[1]["matrix"], m)
            else:
                big = np.array(_grow(valid[1]["matrix"], max(n, m)))
                bad[1]["matrix"] = (big[:n, :m] if rng.random() < 0.5 else big[:m, :n]).tolist()
        else:
            valid = gvs(rng, ttype, n, name, for_fit, yscale, force={"kind": "matrix", "matrix_type": "cor"})
            bad = copy.deepcopy(valid)
            if variant in ("matrix-cor-errval", "matrix-cor-both"):
                bad[1]["err_val"] = _resize(valid[1]["err_val"], m)
            if variant in ("matrix-cor-matrix", "matrix-cor-both"):
                g = np.array(_grow(valid[1]["matrix"], m))
                np.fill_diagonal(g, 1.0)
                bad[1]["matrix"] = g.tolist()
    elif operator == "negative-entry":
        if variant == "simple-vector":
            valid = gvs(rng, ttype, n, name, for_fit, yscale, force={"kind": "simple", "shape": str(rng.choice(["vec", "constvec"]))})
            bad = copy.deepcopy(valid)
            i = int(rng.integers(0, n))
            bad[1]["err"][i] = -abs(bad[1]["err"][i])
            info["index"] = i
        elif variant == "simple-scalar":
            valid = gvs(rng, ttype, n, name, for_fit, yscale, force={"kind": "simple", "shape": "scalar"})
            bad = copy.deepcopy(valid)
            bad[1]["err"] = -abs(bad[1]["err"])
        else:
            valid = gvs(rng, ttype, n, name, for_fit, yscale, force={"kind": "matrix", "matrix_type": "cor"})
            bad = copy.deepcopy(valid)
            i = int(rng.integers(0, n))
            bad[1]["err_val"][i] = -abs(bad[1]["err_val"][i])
            info["index"] = i
    elif operator == "corr-out-of-range":
        valid = gvs(rng, ttype, n, name, for_fit, yscale, force={"kind": "simple"})
        bad = copy.deepcopy(valid)
        bad[1]["corr"] = variant  # stored as string: 'nan' / 'inf' survive JSON
    elif operator == "cor-nonunit-diagonal":
        valid = gvs(rng, ttype, n, name, for_fit, yscale, force={"kind": "matrix", "matrix_type": "cor"})
        bad = copy.deepcopy(valid)
        i = int(rng.integers(0, n))
        v = float(rng.choice([0.0, 0.5, 0.9, 0.999, 1.001, 1.1, 2.0]))
        bad[1]["matrix"][i][i] = v
        info.update(index=i, diagonal=v)
    else:
        raise KeyError(operator)
    return valid, bad, info


# ------------------------------------------------------------------ generation: containers
class CState:
    def __init__(self, ttype, cspec):
        self.ttype = ttype
        self.cspec = cspec
        self.sources = []  # [name, enabled]
        self.k = 0
        if ttype == "xy":
            self.n = len(cspec["y"])
            self.yscale = float(np.mean(np.abs(cspec["y"])) + 0.5)
        elif ttype == "indexed":
            self.n = len(cspec["data"])
            self.yscale = float(np.mean(np.abs(cspec["data"])) + 0.5)
        else:
            self.n = len(cspec["edges"]) - 1
            self.edges = list(cspec["edges"])
            self.yscale = max(1.0, len(cspec["entries"]) / float(self.n))
        self.manual = False  # hist: heights set with set_bins (fill / rebin are then refused, as documented)
        self.allow_set_bins = True

    def new_name(self):
        self.k += 1
        return "s%d" % self.k

    def track(self, op):
        k = op[0]
        if k in ("add_error", "add_matrix_error"):
            self.sources.append([op[1]["name"], True])
        elif k in ("disable_error", "enable_error"):
            for s in self.sources:
                if s[0] == op[1]:
                    s[1] = k == "enable_error"
        elif k == "rebin":
            self.edges = list(op[1])
        elif k == "set_bins":
            self.manual = True


def _jitter_edges(rng, edges):
    e = np.array(edges, dtype=float)
    new = e.copy()
    for i in range(1, len(e) - 1):
        lo, hi = 0.5 * (e[i - 1] + e[i]), 0.5 * (e[i] + e[i + 1])
        new[i] = rng.uniform(lo + 0.05 * (hi - lo), hi - 0.05 * (hi - lo))
    return [float(np.round(v, 5)) for v in new]


def gen_fill(rng, st):
    return ["fill", [float(np.round(v, 5)) for v in rng.uniform(st.edges[0] - 0.5, st.edges[-1] + 0.5, size=int(rng.integers(1, 8)))]]


def gen_set_bins(rng, n):
    kw = {}
    if rng.random() < 0.3:
        kw["underflow"] = int(rng.integers(0, 5))
    if rng.random() < 0.3:
        kw["overflow"] = int(rng.integers(0, 5))
    return ["set_bins", [int(v) for v in rng.integers(0, 30, size=n)], kw]


def gen_container_op(rng, st):
    t = st.ttype
    for _ in range(20):
        r = rng.random()
        if r < 0.25:
            return ["read"]
        if t == "hist" and r >= 0.97 and not st.manual and st.allow_set_bins:
            return gen_set_bins(rng, st.n)
        if r < 0.45:
            return gen_valid_source(rng, t, st.n, st.new_name(), False, st.yscale)
        if r < 0.6 and st.sources:
            en = [s[0] for s in st.sources if s[1]]
            if en:
                return ["disable_error", en[int(rng.integers(0, len(en)))]]
        if r < 0.75 and st.sources:
            dis = [s[0] for s in st.sources if not s[1]]
            if dis:
                return ["enable_error", dis[int(rng.integers(0, len(dis)))]]
        if r < 0.9:
            if t == "hist" and st.manual:
                continue
            if t == "hist":
                if rng.random() < 0.6:
                    return gen_fill(rng, st)
                return ["rebin", _jitter_edges(rng, st.edges)]
            if t == "xy":
                ax = str(rng.choice(["x", "y"]))
                base = np.array(st.cspec[ax], dtype=float)
                return ["set_data", ax, [float(np.round(v, 5)) for v in base * rng.uniform(0.9, 1.1, size=st.n) + 0.01]]
            base = np.array(st.cspec["data"], dtype=float)
            return ["set_data", None, [float(np.round(v, 5)) for v in base * rng.uniform(0.9, 1.1, size=st.n) + 0.01]]
    return ["read"]


def _unknown_names(rng, known, extra=()):
    cand = ["nope", "par_%d" % len(known)] + list(extra)
    for k in known:
        cand += [k + "_", "_" + k, k.swapcase()]
    cand = [c for c in cand if c not in known and c.isidentifier()]
    return cand[int(rng.integers(0, len(cand)))]


def _unsorted(rng, edges, variant):
    e = list(edges)
    if variant == "descending":
        return e[::-1]
    inner = [i for i in range(1, len(e) - 2) if e[i] != e[i + 1]]
    i = inner[int(rng.integers(0, len(inner)))]
    e[i], e[i + 1] = e[i + 1], e[i]
    return e


def gen_bad_container_op(rng, st, operator, variant):
    """(valid op or None, malformed op, info)"""
    if operator in ("size-off", "negative-entry", "corr-out-of-range", "cor-nonunit-diagonal"):
        return gen_bad_source(rng, st.ttype, st.n, st.new_name(), operator, variant, False, st.yscale)
    if operator == "unknown-source":
        known = [s[0] for s in st.sources]
        name = _unknown_names(rng, known)
        k = "disable_error" if variant == "disable" else "enable_error"
        pool = [s[0] for s in st.sources if s[1] == (variant == "disable")]
        valid = [k, pool[int(rng.integers(0, len(pool)))]] if pool else None
        return valid, [k, name], {"unknown": name}
    if operator == "unsorted-edges":
        valid = ["rebin", _jitter_edges(rng, st.edges)]
        return valid, ["rebin", _unsorted(rng, valid[1], variant)], {}
    if operator == "bin-heights-shape":
        valid = gen_set_bins(rng, st.n)
        bad = copy.deepcopy(valid)
        if variant == "two-dimensional":
            bad[1] = [list(valid[1])] if rng.random() < 0.5 else [[v] for v in valid[1]]
            return valid, bad, {}
        ds = [d for d in ((-3, -2, -1) if variant == "too-few" else (1, 2, 3)) if st.n + d >= 1]
        d = int(ds[int(rng.integers(0, len(ds)))])
        bad[1] = _resize(valid[1], st.n + d)
        return valid, bad, {"delta": d}
    raise KeyError(operator)


def gen_container_spec(rng, ttype, tier):
    nmax = 9 if tier == "quick" else 14
    if ttype == "xy":
        n = int(rng.integers(3, nmax))
        x = gen.gen_x(rng, n)
        y = [float(np.round(v, 4)) for v in rng.uniform(0.5, 8.0, size=n) * rng.choice([1.0, 1.0, -1.0])]
        return {"type": "xy", "x": x, "y": y}
    if ttype == "indexed":
        n = int(rng.integers(3, nmax))
        return {"type": "indexed", "data": [float(np.round(v, 4)) for v in rng.uniform(0.5, 8.0, size=n)]}
    s = gen.gen_hist_spec(rng, n_bins=int(rng.integers(3, nmax)), n_entries=int(rng.integers(20, 80)))
    return container_spec_of(s)


def gen_container_case(rng, tier, ttype, operator, variant):
    cspec = gen_container_spec(rng, ttype, tier)
    st = CState(ttype, cspec)
    st.allow_set_bins = operator not in ("unsorted-edges", "bin-heights-shape")  # rebin / fill must stay possible around the malformed call
    setup = []
    for _ in range(int(rng.integers(0, 3))):
        op = gen_valid_source(rng, ttype, st.n, st.new_name(), False, st.yscale)
        st.track(op)
        setup.append(op)
    L = int(rng.integers(2, 9 if tier == "quick" else 21))
    r = rng.random()
    pos = 0 if r < 0.12 else (L if r < 0.24 else int(rng.integers(0, L + 1)))
    history, valid, bad, info = [], None, None, {}
    follow = bool(rng.random() < 0.5)
    i = 0
    while len(history) < L or bad is None:
        if len(history) == pos and bad is None:
            valid, bad, info = gen_bad_container_op(rng, st, operator, variant)
            if valid is not None and follow:
                history.append(valid)
                st.track(valid)
            elif operator == "bin-heights-shape":
                # the rejected call is followed by the mutators it could interfere with
                op = gen_fill(rng, st) if rng.random() < 0.5 else ["rebin", _jitter_edges(rng, st.edges)]
                history.append(op)
                st.track(op)
            continue
        op = gen_container_op(rng, st)
        st.track(op)
        history.append(op)
        i += 1
    return {
        "property": "C19", "target": "container:%s" % ttype, "operator": operator, "variant": variant, "spec": cspec, "setup": setup,
        "history": history, "pos": pos, "bad": bad, "info": info, "follow_valid": bool(follow and valid is not None), "warm": bool(rng.random() < 0.5),
    }


# ------------------------------------------------------------------ generation: fits
XY_FAMILIES = ["poly1", "poly2", "exponential", "trig", "poly3", "expbasis"]


def gen_fit_spec(rng, ttype, tier, backend, poisson=False):
    nmax = 9 if tier == "quick" else 14
    if ttype in ("xy", "indexed"):
        fam = str(rng.choice(XY_FAMILIES))
        if poisson:
            cost = str(rng.choice(["nll_poisson", "nllr_poisson", "poisson", "nll"]))
        else:
            cost = str(rng.choice(["chi2", "chi2", "chi2", "nll_gaussian", "chi2_fast", "chi2_pointwise"]))
        n = int(rng.integers(max(len(Model(fam).pnames) + 1, 3), nmax))
        g = gen.gen_xy_spec if ttype == "xy" else gen.gen_indexed_spec
        return g(rng, family=fam, n=n, cost=cost, counts=poisson, minimizer=backend)
    if ttype == "hist":
        cost = str(rng.choice(["nll_poisson", "nllr_poisson"])) if poisson else str(rng.choice(["nll_poisson", "chi2", "nllr_poisson"]))
        dens = str(rng.choice(["normal", "expdens", "normal", "mixture"]))
        return gen.gen_hist_spec(rng, density=dens, cost=cost, n_bins=int(rng.integers(3, nmax)), n_entries=int(rng.integers(30, 120)), minimizer=backend)
    return gen.gen_unbinned_spec(rng, density=str(rng.choice(["normal", "expdens"])), n=int(rng.integers(8, 30)), minimizer=backend)


class FState:
    def __init__(self, spec):
        self.spec = spec
        self.ttype = spec["type"]
        m = Model.from_spec(spec["model"])
        self.pnames = list(m.pnames)
        self.pvals = dict(zip(m.pnames, m.defaults))
        self.fixed = set()
        self.limited = set()
        self.sources = []  # [name, enabled]
        self.k = 0
        self.did_fit = False
        t = self.ttype
        if t == "xy":
            self.n = len(spec["y"])
            self.yscale = float(np.mean(np.abs(spec["y"])) + 0.5)
        elif t == "indexed":
            self.n = len(spec["data"])
            self.yscale = float(np.mean(np.abs(spec["data"])) + 0.5)
        elif t == "hist":
            self.n = len(spec["edges"]) - 1
            self.yscale = max(1.0, len(spec["entries"]) / float(self.n))
        else:
            self.n = len(spec["data"])
            self.yscale = 1.0
        from vlib.ref import COST_ALIASES, POISSON

        self.poisson = COST_ALIASES.get(spec.get("cost")) in POISSON and t != "unbinned"

    def new_name(self):
        self.k += 1
        return "s%d" % self.k

    def track(self, op):
        k = op[0]
        if k in ("add_error", "add_matrix_error"):
            self.sources.append([op[1]["name"], True])
        elif k in ("disable_error", "enable_error"):
            for s in self.sources:
                if s[0] == op[1]:
                    s[1] = k == "enable_error"
        elif k == "set_parameter_values":
            self.pvals.update(op[1])
        elif k == "fix_parameter":
            self.fixed.add(op[1])
            if len(op) > 2 and op[2] is not None:
                self.pvals[op[1]] = op[2]
        elif k == "release_parameter":
            self.fixed.discard(op[1])
        elif k == "limit_parameter":
            self.limited.add(op[1])
        elif k == "unlimit_parameter":
            self.limited.discard(op[1])
        elif k in ("set_data", "set_data_numpy_hist", "set_data_hist_bins"):
            self.sources = []
        elif k == "do_fit":
            self.did_fit = True


def _near(rng, v):
    return float(np.round(v * rng.uniform(0.9, 1.1) + rng.uniform(-0.02, 0.02), 5))


def gen_new_data(rng, st):
    """a valid set_data payload of the same size"""
    spec = st.spec
    t = st.ttype
    if t == "hist":
        lo, hi = spec["edges"][0], spec["edges"][-1]
        return {"entries": [float(np.round(v, 5)) for v in rng.uniform(lo, hi, size=int(rng.integers(20, 80)))]}
    key = "y" if t == "xy" else "data"
    base = np.array(spec[key], dtype=float)
    if st.poisson:
        new = [float(v) for v in np.maximum(0, np.round(base + rng.integers(-2, 3, size=len(base))))]
    else:
        new = [float(np.round(v, 5)) for v in base * rng.uniform(0.9, 1.1, size=len(base)) + 0.01]
    return {"x": list(spec["x"]), "y": new} if t == "xy" else {"data": new}


def gen_fit_op(rng, st):
    t = st.ttype
    free = [p for p in st.pnames if p not in st.fixed]
    for _ in range(30):
        r = rng.random()
        if r < 0.22:
            return ["read"]
        if r < 0.36 and t != "unbinned":
            return gen_valid_source(rng, t, st.n, st.new_name(), True, st.yscale)
        if r < 0.42 and st.sources:
            en = [s[0] for s in st.sources if s[1]]
            if en:
                return ["disable_error", en[int(rng.integers(0, len(en)))]]
        if r < 0.48 and st.sources:
            dis = [s[0] for s in st.sources if not s[1]]
            if dis:
                return ["enable_error", dis[int(rng.integers(0, len(dis)))]]
        if r < 0.58:
            return gen.gen_constraint(rng, st.pnames, [st.pvals[p] for p in st.pnames])
        if r < 0.72 and free:
            k = int(rng.integers(1, len(free) + 1))
            idx = rng.choice(len(free), size=k, replace=False)
            return ["set_parameter_values", {free[int(i)]: _near(rng, st.pvals[free[int(i)]]) for i in idx}]
        if r < 0.79 and len(free) > 1:
            p = free[int(rng.integers(0, len(free)))]
            return ["fix_parameter", p, None if (rng.random() < 0.5 or st.did_fit) else _near(rng, st.pvals[p])]
        if r < 0.84 and st.fixed:
            f = sorted(st.fixed)
            return ["release_parameter", f[int(rng.integers(0, len(f)))]]
        if r < 0.90 and not st.did_fit:
            p = st.pnames[int(rng.integers(0, len(st.pnames)))]
            v = st.pvals[p]
            w = abs(v) * rng.uniform(0.3, 1.0) + 0.3
            return ["limit_parameter", p, float(np.round(v - w, 4)), float(np.round(v + w, 4))]
        if r < 0.96 and st.limited:
            f = sorted(st.limited)
            return ["unlimit_parameter", f[int(rng.integers(0, len(f)))]]
        if r >= 0.96 and not st.did_fit:
            return ["set_data", gen_new_data(rng, st)]
    return ["read"]


def gen_bad_constraint(rng, st, variant, nonunit=False):
    pn = st.pnames
    if len(pn) < 2:
        return None
    if nonunit:
        for _ in range(20):
            valid = gen.gen_constraint(rng, pn, [st.pvals[p] for p in pn], force_kind="matrix")
            if valid[1]["matrix_type"] == "cor":
                break
        else:
            return None
        bad = copy.deepcopy(valid)
        i = int(rng.integers(0, len(valid[1]["names"])))
        v = float(rng.choice([0.0, 0.5, 0.9, 0.999, 1.001, 1.1, 2.0]))
        bad[1]["matrix"][i][i] = v
        return valid, bad, {"index": i, "diagonal": v}
    if variant == "simple-uncertainty-not-positive":
        # a Gaussian constraint without a positive width is not a measurement
        valid = gen.gen_constraint(rng, pn, [st.pvals[p] for p in pn], force_kind="simple")
        bad = copy.deepcopy(valid)
        u = float(valid[1]["uncertainty"])
        bad[1]["uncertainty"] = float(rng.choice([-u, 0.0, -0.0, -1e-9 * u]))
        return valid, bad, {"uncertainty": bad[1]["uncertainty"]}
    if variant.startswith("uncertainties-"):
        # correlation matrix + one uncertainty per value
        for _ in range(30):
            valid = gen.gen_constraint(rng, pn, [st.pvals[p] for p in pn], force_kind="matrix")
            if valid[1]["matrix_type"] == "cor" and valid[1].get("uncertainties") is not None:
                break
        else:
            return None
        bad = copy.deepcopy(valid)
        u = list(bad[1]["uncertainties"])
        if variant == "uncertainties-long":
            u = u + [u[0]] * int(rng.integers(1, 3))
        elif variant == "uncertainties-short":
            u = u[:-1]
        else:
            i = int(rng.integers(0, len(u)))
            u[i] = float(rng.choice([-u[i], 0.0]))
        bad[1]["uncertainties"] = u
        return valid, bad, {"uncertainties": u}
    valid = gen.gen_constraint(rng, pn, [st.pvals[p] for p in pn], force_kind="matrix")
    bad = copy.deepcopy(valid)
    a = bad[1]
    k = len(a["names"])
    m = np.array(a["matrix"], dtype=float)
    info = {}
    if variant == "nonsymmetric":
        i, j = 0, int(rng.integers(1, k))
        delta = float(rng.choice([1e-6, 1e-3, 0.05])) * (abs(m[i, j]) + float(np.sqrt(m[i, i] * m[j, j])))
        m[i, j] = m[i, j] - delta if a["matrix_type"] == "cor" else m[i, j] + delta
        a["matrix"] = m.tolist()
        info["delta"] = delta
    elif variant == "wrong-shape-bigger":
        g = np.array(_grow(m, k + 1))
        if a["matrix_type"] == "cor":
            np.fill_diagonal(g, 1.0)
        a["matrix"] = g.tolist()
    elif variant == "wrong-shape-nonsquare":
        g = np.array(_grow(m, k + 1))
        a["matrix"] = (g[:k, :] if rng.random() < 0.5 else g[:, :k]).tolist()
    elif variant == "wrong-shape-flat":
        a["matrix"] = [float(v) for v in np.diag(m)]
    elif variant == "names-values-short":
        a["values"] = a["values"][:-1]
        if rng.random() < 0.5:
            a["matrix"] = m[: k - 1, : k - 1].tolist()
            if a.get("uncertainties") is not None:
                a["uncertainties"] = a["uncertainties"][:-1]
    elif variant == "names-values-long":
        a["values"] = a["values"] + [a["values"][0]]
        if rng.random() < 0.5:
            g = np.array(_grow(m, k + 1))
            if a["matrix_type"] == "cor":
                np.fill_diagonal(g, 1.0)
            a["matrix"] = g.tolist()
            if a.get("uncertainties") is not None:
                a["uncertainties"] = a["uncertainties"] + [a["uncertainties"][0]]
    else:
        raise KeyError(variant)
    return valid, bad, info


_HINT = {"gi": 0}  # position of the case in the enumeration: alternates sub-forms deterministically (not part of the case)


def bad_counts(rng, variant, values):
    """valid counts -> (valid counts, malformed counts, info).  'non-integer-large': counts of large magnitude (scaled or weighted
    histograms) with a fractional part far above the float resolution, in one entry or in a subset of entries that are all large"""
    valid = [float(v) for v in values]
    n = len(valid)
    i = int(rng.integers(0, n))
    info = {"index": i}
    bad = list(valid)
    if variant == "negative":
        bad[i] = -float(rng.integers(1, 4))
    elif variant == "non-integer":
        bad[i] = valid[i] + float(rng.choice([0.5, 0.25, 1e-3]))
    elif variant == "non-integer-large":
        mag = float(int(10 ** rng.uniform(3.0, 7.0)))
        frac = float(rng.choice([0.5, 0.25, 0.1, 0.01]))
        form = "one-entry" if _HINT["gi"] % 2 == 0 else "all-entries"
        if form == "one-entry":
            valid[i] = mag
            bad = list(valid)
            bad[i] = mag + frac
        else:
            valid = [mag + float(k) for k in rng.integers(0, max(2, int(3 * np.sqrt(mag))), size=n)]
            idx = sorted(set([i] + [int(j) for j in rng.integers(0, n, size=int(rng.integers(0, n)))]))
            bad = [v + frac if j in idx else v for j, v in enumerate(valid)]
            info["indices"] = idx
        info.update(form=form, magnitude=mag, fraction=frac)
    else:
        raise KeyError(variant)
    return valid, bad, info


def gen_bad_fit_op(rng, st, operator, variant):
    """(valid op or None, malformed op, info) or None if the state does not admit this operator"""
    t = st.ttype
    pn = st.pnames
    if operator in ("size-off", "negative-entry", "corr-out-of-range"):
        return gen_bad_source(rng, t, st.n, st.new_name(), operator, variant, True, st.yscale)
    if operator == "cor-nonunit-diagonal":
        if variant == "constraint":
            return gen_bad_constraint(rng, st, None, nonunit=True)
        return gen_bad_source(rng, t, st.n, st.new_name(), operator, variant, True, st.yscale)
    if operator == "constraint-matrix":
        return gen_bad_constraint(rng, st, variant)
    if operator == "unknown-source":
        known = [s[0] for s in st.sources]
        name = _unknown_names(rng, known, extra=["data", "total", "y"])
        k = "disable_error" if variant == "disable" else "enable_error"
        pool = [s[0] for s in st.sources if s[1] == (variant == "disable")]
        valid = [k, pool[int(rng.integers(0, len(pool)))]] if pool else None
        return valid, [k, name], {"unknown": name}
    if operator == "unknown-parameter":
        name = _unknown_names(rng, pn, extra=["x"])
        free = [p for p in pn if p not in st.fixed]
        p = pn[int(rng.integers(0, len(pn)))]
        v = _near(rng, st.pvals[p])
        info = {"unknown": name}
        if variant == "set":
            return (["set_parameter_values", {p: v}] if p in free else None), ["set_parameter_values", {name: v}], info
        if variant == "set-mixed":
            if not free:
                return None
            q = free[int(rng.integers(0, len(free)))]
            d = {q: _near(rng, st.pvals[q]), name: v} if rng.random() < 0.5 else {name: v, q: _near(rng, st.pvals[q])}
            return ["set_parameter_values", {q: d[q]}], ["set_parameter_values", d], info
        if variant in ("fix", "fix-value"):
            ok = len(free) > 1
            q = free[int(rng.integers(0, len(free)))] if ok else None
            val = None if variant == "fix" else v
            return (["fix_parameter", q, None if (val is None or st.did_fit) else _near(rng, st.pvals[q])] if ok else None), ["fix_parameter", name, val], info
        if variant == "limit":
            w = abs(v) + 0.5
            form = int(rng.integers(0, 3))
            lo, hi = (float(np.round(v - w, 4)), float(np.round(v + w, 4)))
            if form == 1:
                lo = None
            elif form == 2:
                hi = None
            valid = None
            if not st.did_fit:
                pv = st.pvals[p]
                valid = ["limit_parameter", p, float(np.round(pv - abs(pv) - 0.5, 4)), float(np.round(pv + abs(pv) + 0.5, 4))]
            return valid, ["limit_parameter", name, lo, hi], info
        if variant == "unlimit":
            f = sorted(st.limited)
            valid = ["unlimit_parameter", f[int(rng.integers(0, len(f)))]] if f else None
            return valid, ["unlimit_parameter", name], info
        if variant == "constraint":
            valid = gen.gen_constraint(rng, pn, [st.pvals[q] for q in pn], force_kind="simple")
            bad = copy.deepcopy(valid)
            bad[1]["name"] = name
            return valid, bad, info
        if variant == "mconstraint":
            if len(pn) < 2:
                return None
            valid = gen.gen_constraint(rng, pn, [st.pvals[q] for q in pn], force_kind="matrix")
            bad = copy.deepcopy(valid)
            bad[1]["names"][int(rng.integers(0, len(bad[1]["names"])))] = name
            return valid, bad, info
        if variant == "release":
            f = sorted(st.fixed)
            valid = ["release_parameter", f[int(rng.integers(0, len(f)))]] if f else None
            return valid, ["release_parameter", name], info
        raise KeyError(variant)
    if operator == "poisson-data":
        new = gen_new_data(rng, st)
        if t == "hist":
            edges = list(st.spec["edges"])
            heights, badh, info = bad_counts(rng, variant, rng.integers(0, 25, size=len(edges) - 1))
            form = str(rng.choice(["set_data_numpy_hist", "set_data_hist_bins"]))
            return [form, heights, edges], [form, badh, edges], dict(info, entry_point=form)
        key = "y" if t == "xy" else "data"
        new[key], badv, info = bad_counts(rng, variant, new[key])
        bad = copy.deepcopy(new)
        bad[key] = badv
        if rng.random() < 0.4:
            new["as_container"] = True
            bad["as_container"] = True
        return ["set_data", new], ["set_data", bad], dict(info, as_container=bool(bad.get("as_container")))
    raise KeyError(operator)


def gen_fit_case(rng, tier, ttype, backend, operator, variant):
    poisson = operator == "poisson-data" or (ttype != "unbinned" and rng.random() < 0.1)
    spec = gen_fit_spec(rng, ttype, tier, backend, poisson=poisson)
    st = FState(spec)
    setup = []
    if ttype != "unbinned":
        for k in range(int(rng.integers(0, 3))):
            force = {"axis": "y", "reference": "data", "relative": False} if k == 0 else None
            op = gen_valid_source(rng, ttype, st.n, st.new_name(), True, st.yscale, force=force)
            st.track(op)
            setup.append(op)
    if operator == "unknown-parameter" and variant == "unlimit" and rng.random() < 0.6:
        p = st.pnames[int(rng.integers(0, len(st.pnames)))]
        w = abs(st.pvals[p]) + 0.5
        op = ["limit_parameter", p, float(np.round(st.pvals[p] - w, 4)), float(np.round(st.pvals[p] + w, 4))]
        st.track(op)
        setup.append(op)
    L = int(rng.integers(2, 9 if tier == "quick" else 21))
    r = rng.random()
    pos = 0 if r < 0.12 else (L if r < 0.24 else int(rng.integers(0, L + 1)))
    fit_at = int(rng.integers(0, L)) if rng.random() < (0.15 if tier == "quick" else 0.3) else -1
    follow = bool(rng.random() < 0.5)
    history, valid, bad, info = [], None, None, {}
    while len(history) < L or bad is None:
        if len(history) >= pos and bad is None:
            g = gen_bad_fit_op(rng, st, operator, variant)
            if g is None:
                return None
            valid, bad, info = g
            if valid is not None and follow:
                history.append(valid)
                st.track(valid)
            continue
        if len(history) >= fit_at >= 0 and not st.did_fit and len(st.fixed) < len(st.pnames):
            op = ["do_fit"]
        else:
            op = gen_fit_op(rng, st)
        st.track(op)
        history.append(op)
    return {
        "property": "C19", "target": "fit:%s/%s" % (ttype, backend), "operator": operator, "variant": variant, "spec": spec, "setup": setup,
        "history": history, "pos": pos, "bad": bad, "info": info, "follow_valid": bool(follow and valid is not None), "warm": bool(rng.random() < 0.5),
    }


# ------------------------------------------------------------------ multi fits: build / ops / observables / generation
MULTI_FAMILIES = ["poly1", "poly2", "exponential", "trig"]
MULTI_COSTS = ["chi2", "chi2", "chi2_covariance", "chi2_fast"]


def build_multi(case):
    from kafe2.fit import MultiFit

    fits = []
    for spec, setup in zip(case["members"], case["member_setup"]):
        f = dsl.build_fit(spec)
        for op in setup:
            dsl.apply_live(f, spec, decode_op(op))
        fits.append(f)
    return MultiFit(fits, minimizer=case["minimizer"])


def apply_multi(mf, case, op):
    k = op[0]
    if k in ("add_error", "add_matrix_error"):
        a = op[1]
        fits = a["fits"]
        if isinstance(fits, int) and case["members"][fits]["type"] != "xy":
            # a source of one member fit, declared on that member
            return dsl.apply_live(mf.fits[fits], case["members"][fits], decode_op([k, {x: v for x, v in a.items() if x != "fits"}]))
        kw = dict(fits=fits if isinstance(fits, (int, str)) else list(fits), axis=a.get("axis"), name=a["name"], relative=a.get("relative", False), reference=a.get("reference", "data"))
        if k == "add_error":
            err = a["err"]
            err = np.array(err, dtype=float) if isinstance(err, (list, tuple)) else err
            return mf.add_error(err_val=err, correlation=_f(a.get("corr", 0.0)), **kw)
        ev = a.get("err_val")
        ev = np.array(ev, dtype=float) if isinstance(ev, (list, tuple)) else ev
        return mf.add_matrix_error(err_matrix=np.array(a["matrix"], dtype=float), matrix_type=a["matrix_type"], err_val=ev, **kw)
    if k == "disable_error":
        return mf.disable_error(op[1])
    if k == "enable_error":
        return mf.enable_error(op[1])
    if k == "set_parameter_values":
        return mf.set_parameter_values(**op[1])
    if k == "fix_parameter":
        return mf.fix_parameter(op[1], op[2] if len(op) > 2 else None)
    if k == "release_parameter":
        return mf.release_parameter(op[1])
    if k == "do_fit":
        return mf.do_fit()
    raise KeyError(k)


def multi_obs(mf):
    out = {}
    _rd(out, "cost_function_value", lambda: float(mf.cost_function_value))
    _rd(out, "total_cov_mat", lambda: mf.total_cov_mat)
    _rd(out, "total_error", lambda: mf.total_error)
    _rd(out, "goodness_of_fit", lambda: mf.goodness_of_fit)
    _rd(out, "model", lambda: [np.array(v, dtype=float) for v in mf.model])
    _rd(out, "data", lambda: [np.array(v, dtype=float) for v in mf.data])
    _rd(out, "ndf", lambda: int(mf.ndf))
    _rd(out, "parameter_values", lambda: np.array(mf.parameter_values, dtype=float))
    _rd(out, "fixed_parameters", lambda: dict(mf._fitter.fixed_parameters))
    _rd(out, "limited_parameters", lambda: dict(mf._fitter.limited_parameters))
    _rd(out, "did_fit", lambda: bool(mf.did_fit))
    _rd(out, "shared_names", lambda: [[str(n), bool(d["enabled"]), d.get("axis")] for n, d in mf._shared_error_dicts.items()])

    def sources():
        r = []
        for i, f in enumerate(mf.fits):
            for where, cont in (("data", f._data_container), ("model", f._param_model)):
                for n, d in cont._error_dicts.items():
                    r.append([i, where, str(n), bool(d["enabled"]), d.get("axis")])
        return r

    _rd(out, "sources", sources)
    for i, f in enumerate(mf.fits):
        _rd(out, "member%d.cost_function_value" % i, lambda f=f: float(f.cost_function_value))
        _rd(out, "member%d.total_cov_mat" % i, lambda f=f: f.total_cov_mat)
    if out.get("did_fit") is True:
        _rd(out, "parameter_errors", lambda: np.array(mf.parameter_errors, dtype=float))
    return out


class MState:
    def __init__(self, members, group):
        self.members = members
        self.group = list(group)  # members that can share a source: same data size, chi2 cost
        self.types = [m["type"] for m in members]
        key = lambda m: "y" if m["type"] == "xy" else "data"  # noqa: E731
        self.sizes = [len(m[key(m)]) for m in members]
        self.n = self.sizes[self.group[0]]
        self.yscales = [float(np.mean(np.abs(m[key(m)])) + 0.5) for m in members]
        self.yscale = float(np.mean([self.yscales[i] for i in self.group]))
        self.own = [[] for _ in members]  # names of the sources declared on one member
        self.sources = []  # [name, enabled]: every name the multi fit knows
        self.k = 0
        self.pnames, self.pvals = [], {}
        for m in members:
            mod = Model.from_spec(m["model"])
            for nm, v in zip(mod.pnames, mod.defaults):
                if nm not in self.pvals:
                    self.pnames.append(nm)
                    self.pvals[nm] = float(v)
        self.fixed = set()
        self.did_fit = False

    def new_name(self):
        self.k += 1
        return "s%d" % self.k

    def track(self, op):
        k = op[0]
        if k in ("add_error", "add_matrix_error"):
            self.sources.append([op[1]["name"], True])
            if isinstance(op[1]["fits"], int):
                self.own[op[1]["fits"]].append([op[1]["name"], op[1].get("reference", "data")])
        elif k in ("disable_error", "enable_error"):
            for s in self.sources:
                if s[0] == op[1]:
                    s[1] = k == "enable_error"
        elif k == "set_parameter_values":
            self.pvals.update(op[1])
        elif k == "fix_parameter":
            self.fixed.add(op[1])
            if len(op) > 2 and op[2] is not None:
                self.pvals[op[1]] = op[2]
        elif k == "release_parameter":
            self.fixed.discard(op[1])
        elif k == "do_fit":
            self.did_fit = True


def pick_fits(rng, st, form=None):
    """which members share the source: 'all' (only when every member can) or a list of >= 2 members of the group"""
    g = list(st.group)
    whole = len(g) == len(st.members)
    if form is None:
        form = "all" if (whole and rng.random() < 0.5) else "list"
    if form == "all" and whole:
        return "all"
    k = int(rng.integers(2, len(g) + 1))
    sel = [g[int(i)] for i in rng.choice(len(g), size=k, replace=False)]
    return sel if rng.random() < 0.4 else sorted(sel)


def shared_axis(rng, st, fits, generated_axis):
    types = [st.types[i] for i in (range(len(st.members)) if fits == "all" else fits)]
    if all(t == "xy" for t in types):
        return gen.norm_axis(generated_axis) or "y"
    if all(t == "indexed" for t in types):
        return None if rng.random() < 0.5 else "y"
    return "y"


def as_shared(rng, st, fits, *ops):
    """turn add_error / add_matrix_error ops generated for one fit into ops on the multi fit (same axis and members for all)"""
    ax = shared_axis(rng, st, fits, ops[0][1].get("axis"))
    for op in ops:
        op[1]["axis"] = ax
        op[1]["fits"] = fits
    return ops


def _shared_ttype(st, fits):
    types = [st.types[i] for i in (range(len(st.members)) if fits == "all" else fits)]
    return "xy" if all(t == "xy" for t in types) else "indexed"


def gen_shared_source(rng, st, name, form=None):
    fits = pick_fits(rng, st, form)
    op = gen_valid_source(rng, _shared_ttype(st, fits), st.n, name, True, st.yscale, force={"relative": False})
    return as_shared(rng, st, fits, op)[0]


def gen_member_source(rng, st, j, name):
    op = gen_valid_source(rng, st.types[j], st.sizes[j], name, True, st.yscales[j])
    op[1]["fits"] = j
    return op


def gen_multi_op(rng, st):
    free = [p for p in st.pnames if p not in st.fixed]
    for _ in range(30):
        r = rng.random()
        if r < 0.25:
            return ["read"]
        if r < 0.45:
            return gen_shared_source(rng, st, st.new_name())
        if r < 0.58:
            return gen_member_source(rng, st, int(rng.integers(0, len(st.members))), st.new_name())
        if r < 0.66 and st.sources:
            en = [s[0] for s in st.sources if s[1]]
            if en:
                return ["disable_error", en[int(rng.integers(0, len(en)))]]
        if r < 0.74 and st.sources:
            dis = [s[0] for s in st.sources if not s[1]]
            if dis:
                return ["enable_error", dis[int(rng.integers(0, len(dis)))]]
        if r < 0.9 and free:
            k = int(rng.integers(1, len(free) + 1))
            idx = rng.choice(len(free), size=k, replace=False)
            return ["set_parameter_values", {free[int(i)]: _near(rng, st.pvals[free[int(i)]]) for i in idx}]
        if r < 0.96 and len(free) > 1:
            p = free[int(rng.integers(0, len(free)))]
            return ["fix_parameter", p, None if (rng.random() < 0.5 or st.did_fit) else _near(rng, st.pvals[p])]
        if r >= 0.96 and st.fixed:
            f = sorted(st.fixed)
            return ["release_parameter", f[int(rng.integers(0, len(f)))]]
    return ["read"]


def gen_bad_multi_op(rng, st, operator, variant, form):
    if operator in SOURCE_OPERATORS:
        fits = pick_fits(rng, st, form)
        valid, bad, info = gen_bad_source(rng, _shared_ttype(st, fits), st.n, st.new_name(), operator, variant, True, st.yscale, base_force={"relative": False})
        as_shared(rng, st, fits, valid, bad)
        return valid, bad, dict(info, fits=fits)
    if operator == "unknown-fit-index":
        # a member that does not exist among the fits that are to share the source
        fits = pick_fits(rng, st, "list")
        valid = gen_valid_source(rng, _shared_ttype(st, fits), st.n, st.new_name(), True, st.yscale, force={"relative": False})
        as_shared(rng, st, fits, valid)
        bad = copy.deepcopy(valid)
        wrong = -1 if variant == "negative" else len(st.members) + int(rng.integers(0, 2))
        bf = list(fits)
        bf[int(rng.integers(0, len(bf)))] = wrong
        bad[1]["fits"] = bf
        return valid, bad, {"fits": bf, "n_members": len(st.members)}
    if operator == "name-taken-in-member":
        fits = pick_fits(rng, st, form)
        order = list(range(len(st.members))) if fits == "all" else list(fits)
        pool = [j for j in (order[1:] if variant == "in-later-member" else order[:1]) if st.own[j]]
        if not pool:
            return None
        j = pool[int(rng.integers(0, len(pool)))]
        # names are unique per container (data / model) of a member: the shared source refers to the container that holds the name
        taken, ref = st.own[j][int(rng.integers(0, len(st.own[j])))]
        valid = gen_valid_source(rng, _shared_ttype(st, fits), st.n, st.new_name(), True, st.yscale, force={"relative": False, "reference": ref})
        as_shared(rng, st, fits, valid)
        bad = copy.deepcopy(valid)
        bad[1]["name"] = taken
        return valid, bad, {"taken_in_member": j, "taken_in": ref, "members_before": order[: order.index(j)], "fits": fits}
    raise KeyError(operator)


def gen_multi_case(rng, tier, mkind, operator, variant):
    backend = str(rng.choice(BACKENDS))
    hint = _HINT["gi"] % 3  # 0: a member outside the group (fits given as a list), 1: fits='all', 2: fits given as a list
    types = list(MULTI_KINDS[mkind])
    if rng.random() < 0.3:
        types.append(str(rng.choice(MULTI_KINDS[mkind])))
    n = int(rng.integers(4, 8 if tier == "quick" else 12))
    members = []
    for t in types:
        g = gen.gen_xy_spec if t == "xy" else gen.gen_indexed_spec
        members.append(g(rng, family=str(rng.choice(MULTI_FAMILIES)), n=n, cost=str(rng.choice(MULTI_COSTS)), minimizer=backend))
    group = list(range(len(members)))
    if hint == 0:
        t = str(rng.choice(["xy", "indexed"]))
        g = gen.gen_xy_spec if t == "xy" else gen.gen_indexed_spec
        outsider = g(rng, family=str(rng.choice(MULTI_FAMILIES)), n=n + int(rng.integers(1, 4)), cost=str(rng.choice(MULTI_COSTS + ["nll_gaussian"])), minimizer=backend)
        at = int(rng.integers(0, len(members) + 1))
        members.insert(at, outsider)
        group = [i for i in range(len(members)) if i != at]
    st = MState(members, group)
    member_setup = [[] for _ in members]
    for j in range(len(members)):
        # a member without any source of its own uses the 'no errors' chi2 until the first source arrives
        k = int(rng.integers(0, 3))
        if operator == "name-taken-in-member" and j in group and k == 0 and (variant == "in-first-member" or j != group[0]):
            k = 1
        for _ in range(k):
            op = gen_member_source(rng, st, j, st.new_name())
            st.track(op)
            member_setup[j].append([op[0], {x: v for x, v in op[1].items() if x != "fits"}])
    form = "all" if hint == 1 else "list"
    setup = []
    for _ in range(int(rng.integers(0, 3))):
        op = gen_shared_source(rng, st, st.new_name())
        st.track(op)
        setup.append(op)
    L = int(rng.integers(2, 8 if tier == "quick" else 16))
    r = rng.random()
    pos = 0 if r < 0.12 else (L if r < 0.24 else int(rng.integers(0, L + 1)))
    # a MultiFit minimisation with shared sources takes seconds: thorough tier only
    fit_at = int(rng.integers(0, L)) if (tier != "quick" and rng.random() < 0.1) else -1
    follow = bool(rng.random() < 0.5)
    history, valid, bad, info = [], None, None, {}
    while len(history) < L or bad is None:
        if len(history) >= pos and bad is None:
            g = gen_bad_multi_op(rng, st, operator, variant, form)
            if g is None:
                return None
            valid, bad, info = g
            if valid is not None and follow:
                history.append(valid)
                st.track(valid)
            continue
        if len(history) >= fit_at >= 0 and not st.did_fit and len(st.fixed) < len(st.pnames):
            op = ["do_fit"]
        else:
            op = gen_multi_op(rng, st)
        st.track(op)
        history.append(op)
    return {
        "property": "C19", "target": "multi:%s" % mkind, "operator": operator, "variant": variant, "minimizer": backend, "members": members,
        "member_setup": member_setup, "group": group, "setup": setup, "history": history, "pos": pos, "bad": bad, "info": info,
        "follow_valid": bool(follow and valid is not None), "warm": bool(rng.random() < 0.5),
    }


# ------------------------------------------------------------------ generation: constructor-time classes
def gen_ctor_case(rng, tier, ttype, operator, variant):
    backend = str(rng.choice(BACKENDS))
    case = {"property": "C19", "target": "ctor:%s" % ttype, "operator": operator, "variant": variant}
    if operator == "reserved-name":
        from kafe2.fit import HistFit, IndexedFit, UnbinnedFit, XYFit

        klass = {"xy": XYFit, "indexed": IndexedFit, "hist": HistFit, "unbinned": UnbinnedFit}[ttype]
        spec = gen_fit_spec(rng, ttype, tier, backend)
        reserved = sorted(n for n in klass.RESERVED_NODE_NAMES if n.isidentifier())
        m = Model.from_spec(spec["model"])
        case.update(spec=spec, rename=[m.pnames[int(rng.integers(0, len(m.pnames)))], reserved[int(rng.integers(0, len(reserved)))]])
        return case
    if operator == "poisson-data":
        spec = gen_fit_spec(rng, ttype, tier, backend, poisson=True)
        if ttype == "hist":
            edges = list(spec["edges"])
            heights, badh, info = bad_counts(rng, variant, rng.integers(0, 25, size=len(edges) - 1))
            form = str(rng.choice(["numpy_hist", "hist_bins"]))
            case.update(spec=spec, form=form, heights=heights, bad_heights=badh, info=info)
            return case
        key = "y" if ttype == "xy" else "data"
        spec[key], badv, info = bad_counts(rng, variant, spec[key])
        bad = copy.deepcopy(spec)
        bad[key] = badv
        case.update(spec=spec, bad_spec=bad, as_container=bool(rng.random() < 0.4), info=info)
        return case
    if operator == "unsorted-edges":
        cs = gen_container_spec(rng, "hist", tier)
        case.update(spec=cs, bad_edges=_unsorted(rng, cs["edges"], "swap" if variant != "descending" else "descending"), with_fill=bool(rng.random() < 0.5))
        return case
    raise KeyError(operator)


# ------------------------------------------------------------------ generation: graphs
class GState:
    def __init__(self):
        self.kind = {}
        self.children = {}
        self.k = 0

    def add(self, name, kind, children):
        self.kind[name] = kind
        self.children[name] = list(children)

    def parents(self, n):
        return [p for p, c in self.children.items() if n in c]

    def ancestors(self, n):
        seen, todo = set(), [n]
        while todo:
            x = todo.pop()
            for p in self.parents(x):
                if p not in seen:
                    seen.add(p)
                    todo.append(p)
        return seen

    def names(self):
        return list(self.kind)

    def track(self, op):
        k = op[0]
        if k == "add_dependency":
            self.children[op[1]].extend(d for d in op[2] if d not in self.children[op[1]])
        elif k == "add_function":
            self.add(op[1], "func", op[3])
        elif k == "add_alias":
            self.add(op[1], "alias", [op[2]])


def gen_graph_program(rng, tier, st):
    prog = []
    n_par = int(rng.integers(2, 5))
    for j in range(n_par):
        prog.append(["param", "p%d" % j, int(rng.integers(-5, 50))])
        st.add("p%d" % j, "param", [])
    n_nodes = int(rng.integers(3, 9 if tier == "quick" else 15))
    for j in range(n_nodes):
        name = "n%d" % j
        ids = st.names()
        pick = lambda k: [ids[int(i)] for i in rng.choice(len(ids), size=min(k, len(ids)), replace=False)]  # noqa: E731
        r = rng.random()
        if r < 0.65 or j == 0:
            ps = pick(int(rng.integers(1, 4)))
            prog.append(["func", name, str(rng.choice(list(GFUNCS))), ps])
            st.add(name, "func", ps)
        elif r < 0.82:
            tgt = pick(1)[0]
            prog.append(["alias", name, tgt])
            st.add(name, "alias", [tgt])
        else:
            ps = pick(int(rng.integers(1, 4)))
            prog.append(["tuple", name, ps])
            st.add(name, "tuple", ps)
    return prog


def gen_graph_op(rng, st):
    ids = st.names()
    rc = lambda pool: pool[int(rng.integers(0, len(pool)))]  # noqa: E731
    for _ in range(20):
        r = rng.random()
        if r < 0.25:
            return ["set", rc([i for i in ids if st.kind[i] == "param"]), int(rng.integers(-6, 60))]
        if r < 0.45:
            return ["read", rc(ids)]
        if r < 0.55:
            return ["read_all"]
        if r < 0.65:
            return ["value_dict"]
        if r < 0.8:
            t = rc([i for i in ids if st.kind[i] == "func"])
            bad = st.ancestors(t) | {t}
            cand = [c for c in ids if c not in bad]
            if cand:
                k = 1 if rng.random() < 0.6 else 2
                deps = []
                for _ in range(k):
                    c = rc(cand)
                    if c not in deps:
                        deps.append(c)
                return ["add_dependency", t, deps, "str" if (len(deps) == 1 and rng.random() < 0.6) else "list"]
        elif r < 0.92:
            st.k += 1
            ps = []
            for _ in range(int(rng.integers(1, 4))):
                c = rc(ids)
                if c not in ps:
                    ps.append(c)
            return ["add_function", "af%d" % st.k, str(rng.choice(list(GFUNCS))), ps]
        else:
            st.k += 1
            return ["add_alias", "al%d" % st.k, rc(ids)]
    return ["read_all"]


def gen_bad_graph_op(rng, st, variant):
    ids = st.names()
    rc = lambda pool: pool[int(rng.integers(0, len(pool)))]  # noqa: E731
    funcs = [i for i in ids if st.kind[i] == "func"]
    if variant == "dep-self":
        t = rc(funcs)
        return None, ["add_dependency", t, [t], str(rng.choice(["str", "list"]))], {}
    if variant in ("dep-single", "dep-list-first", "dep-list-last"):
        pool = [t for t in funcs if st.ancestors(t)]
        if not pool:
            return None
        t = rc(pool)
        d = rc(sorted(st.ancestors(t)))
        info = {"cycle_dep": d}
        if variant == "dep-single":
            return None, ["add_dependency", t, [d], str(rng.choice(["str", "list"]))], info
        ok = [c for c in ids if c not in (st.ancestors(t) | {t}) and c not in st.children[t]]
        if not ok:
            return None
        o = rc(ok)
        return ["add_dependency", t, [o], "list"], ["add_dependency", t, [d, o] if variant == "dep-list-first" else [o, d], "list"], info
    if variant == "add-replace":
        pool = [a for a in ids if st.ancestors(a)]
        if not pool:
            return None
        a = rc(pool)
        x = rc(sorted(st.ancestors(a)))
        ps = [x]
        if rng.random() < 0.4:
            o = rc(ids)
            if o not in ps:
                ps = [o, x] if rng.random() < 0.5 else [x, o]
        return None, ["add_replace", a, str(rng.choice(list(GFUNCS))), ps], {"through": x}
    raise KeyError(variant)


def gen_graph_case(rng, tier, operator, variant):
    st = GState()
    prog = gen_graph_program(rng, tier, st)
    L = int(rng.integers(2, 10 if tier == "quick" else 25))
    r = rng.random()
    pos = 0 if r < 0.12 else (L if r < 0.24 else int(rng.integers(0, L + 1)))
    follow = bool(rng.random() < 0.5)
    history, valid, bad, info = [], None, None, {}
    while len(history) < L or bad is None:
        if len(history) >= pos and bad is None:
            g = gen_bad_graph_op(rng, st, variant)
            if g is None:
                return None
            valid, bad, info = g
            if valid is not None and follow:
                history.append(valid)
                st.track(valid)
            continue
        op = gen_graph_op(rng, st)
        st.track(op)
        history.append(op)
    return {
        "property": "C19", "target": "graph:nexus", "operator": operator, "variant": variant, "program": prog, "history": history, "pos": pos,
        "bad": bad, "info": info, "follow_valid": bool(follow and valid is not None), "warm": bool(rng.random() < 0.5),
    }


# ------------------------------------------------------------------ case generation (stratified, then random)
def gen_case_for(rng, tier, operator, target, variant):
    kind, rest = target.split(":")
    if kind == "container":
        return gen_container_case(rng, tier, rest, operator, variant)
    if kind == "fit":
        ttype, backend = rest.split("/")
        return gen_fit_case(rng, tier, ttype, backend, operator, variant)
    if kind == "ctor":
        return gen_ctor_case(rng, tier, rest, operator, variant)
    if kind == "multi":
        return gen_multi_case(rng, tier, rest, operator, variant)
    return gen_graph_case(rng, tier, operator, variant)


def gen_case(rng, tier, idx, shard, nshards):
    gi = idx * nshards + shard
    _HINT["gi"] = gi
    n1, n2, n3 = len(REQUIRED_PAIRS), len(ALL_VARIANTS), len(REQUIRED_TRIPLES)
    for _ in range(50):
        if gi < n1:
            operator, target = REQUIRED_PAIRS[gi]
            vs = [v for v in VARIANTS[operator] if variant_ok(operator, v, target)]
            variant = vs[int(rng.integers(0, len(vs)))]
        elif gi < n1 + n3:
            operator, target, variant = REQUIRED_TRIPLES[gi - n1]
            if "*" in target:
                ts = [t for t in TARGETS[operator] if t.split("/")[-1] == target.split("/")[-1]]
                target = ts[int(rng.integers(0, len(ts)))]
        elif gi < n1 + n3 + 2 * n2:
            operator, variant = ALL_VARIANTS[(gi - n1 - n3) % n2]
            ts = [t for t in TARGETS[operator] if variant_ok(operator, variant, t)]
            target = ts[int(rng.integers(0, len(ts)))]
        else:
            w = np.array([len(TARGETS[o]) + (9.0 if o == "cycle" else 3.0) for o in OPERATORS])
            operator = OPERATORS[int(rng.choice(len(OPERATORS), p=w / w.sum()))]
            target = TARGETS[operator][int(rng.integers(0, len(TARGETS[operator])))]
            vs = [v for v in VARIANTS[operator] if variant_ok(operator, v, target)]
            variant = vs[int(rng.integers(0, len(vs)))]
        case = gen_case_for(rng, tier, operator, target, variant)
        if case is not None:
            return case
    raise RuntimeError("generator could not produce a case for %s / %s / %s" % (operator, target, variant))


# ------------------------------------------------------------------ classifier: mechanism keys of genuine defects
def classify(case, clause, extra=None):
    """Mechanism key decided from (operator, variant, target kind, backend, failed oracle clause, what the failing
    observable shows) — never from seed / hash.  None = unlisted."""
    op, var = case.get("operator"), case.get("variant")
    kind, _, rest = case.get("target", ":").partition(":")
    backend = rest.split("/")[1] if "/" in rest else None
    extra = extra or {}
    if clause == "raises":
        if op == "unknown-parameter" and var == "limit" and kind == "fit" and backend == "iminuit":
            return "C19/limit-unknown-parameter-accepted-by-iminuit"
        if op == "negative-entry" and var == "cor-err_val":
            return "C19/negative-err-val-with-correlation-matrix-accepted"
        return None
    if clause == "unchanged":
        # the data setter swaps the container in before the cost function validates the data: the rejected data stay
        if op == "poisson-data" and kind == "fit" and extra.get("holds_rejected_data") is True and extra.get("observable") in ("data", "cost_function_value", "model", "y_model", "total_cov_mat", "total_error", "sources", "ndf"):
            return "C19/data-setter-keeps-rejected-data"
    if clause in ("unchanged", "later") and kind == "multi" and op == "name-taken-in-member" and var == "in-later-member":
        # a shared source refused by a later member was first handed to an earlier member that had no source at all: the roll-back removes
        # the source but that member has left the 'no errors' chi2 for good (its cost becomes nan / inf, and so does the multi fit's)
        o = str(extra.get("observable"))
        costlike = o in ("cost_function_value", "goodness_of_fit", "op-outcome", "fit_result", "parameter_values", "parameter_errors", "did_fit") or any(o == "member%d.cost_function_value" % j for j in extra.get("earlier_members_on_implicit_no_errors_chi2") or [])
        if extra.get("earlier_members_on_implicit_no_errors_chi2") and costlike:
            return "C19/shared-source-refused-by-later-member-leaves-earlier-member-off-no-errors-chi2"
    return None


# ------------------------------------------------------------------ running: twins
class Twin:
    """one of the two identical objects + how to drive / observe it"""

    def __init__(self, case):
        kind, _, rest = case["target"].partition(":")
        self.kind = kind
        self.case = case
        if kind == "container":
            self.ttype = rest
            self.obj = dsl.build_container(case["spec"])
            for op in case["setup"]:
                apply_container(self.obj, self.ttype, op)
        elif kind == "fit":
            self.ttype = rest.split("/")[0]
            self.spec = case["spec"]
            self.obj = dsl.build_fit(self.spec)
            for op in case["setup"]:
                apply_fit(self.obj, self.spec, op)
        elif kind == "multi":
            self.ttype = rest
            self.obj = build_multi(case)
            for op in case["setup"]:
                apply_multi(self.obj, case, op)
        else:
            self.ttype = "nexus"
            self.obj = Graph(case["program"])

    def apply(self, op):
        if self.kind == "container":
            return apply_container(self.obj, self.ttype, decode_op(op))
        if self.kind == "multi":
            with time_limit(60.0):
                return apply_multi(self.obj, self.case, op)
        if self.kind == "fit":
            with time_limit(60.0):
                return apply_fit(self.obj, self.spec, op)
        with time_limit(5.0):
            return apply_graph(self.obj, op)

    def observe(self):
        if self.kind == "container":
            return container_obs(self.obj, self.ttype)
        if self.kind == "fit":
            return fit_obs(self.obj, self.ttype)
        if self.kind == "multi":
            return multi_obs(self.obj)
        return graph_obs(self.obj)

    def read_one(self, name):
        out = {}
        _rd(out, name, lambda: _node_value(self.obj.nexus.get(name)))
        return out


def op_label(kind, op):
    return {"container": "c.", "graph": "g.", "fit": "", "multi": "m."}[kind] + op[0]


def compare_later(ctx, case, a, b, where, fitted):
    """oracle (3): A and B agree on every observable"""
    ok = True
    for name in b:
        va, vb = a.get(name), b[name]
        if fitted and name == "parameter_values" and isinstance(va, np.ndarray) and isinstance(vb, np.ndarray) and va.shape == vb.shape:
            sig = b.get("parameter_errors")
            sig = np.where(np.isfinite(sig), np.abs(sig), 0.0) if isinstance(sig, np.ndarray) and sig.shape == vb.shape else np.zeros_like(vb)
            good = bool(np.all(np.abs(va - vb) <= 1e-3 * sig + 1e-9 * (1.0 + np.abs(vb))) or same(va, vb, EXACT))
            tolname = "OPTIM 1e-3 sigma"
        elif fitted and name == "cost_function_value":
            good = same(va, vb, Tol.custom("OPTIM-cost", 0.0, 1e-3))
            tolname = "OPTIM 1e-3"
        elif fitted and name == "parameter_errors":
            good = same(va, vb, Tol.custom("OPTIM-err", 1e-2, 1e-12))
            tolname = "OPTIM-err 1e-2"
        elif name in ("sources", "ndf", "n_constraints", "did_fit", "graph.structure", "graph.values", "graph.value_dict", "n_entries", "underflow", "overflow", "shared_names"):
            good = same(va, vb, EXACT)
            tolname = "EXACT"
        else:
            tol = OPTIMD if fitted else LINALG
            good = same(va, vb, tol)
            tolname = tol[0]
        ctx.check("AB.later/%s" % name, good, lambda: {"where": where, "A": va, "B": vb, "tolerance": tolname, "bad": case["bad"]}, key=lambda: classify(case, "later", dict(_FEATS, observable=name)))
        ok = ok and good
    return ok


def holds_rejected_data(case, a1):
    """classifier feature: twin A now reports the data of the rejected call"""
    try:
        bad = case["bad"]
        if bad[0] == "set_data":
            want = bad[1].get("y", bad[1].get("data"))
            got = a1.get("data")
            if isinstance(got, np.ndarray):
                got = got[-1] if got.ndim == 2 else got
                return bool(got.shape == (len(want),) and np.array_equal(got, np.array(want, dtype=float)))
        if bad[0] in ("set_data_numpy_hist", "set_data_hist_bins"):
            got = a1.get("data")
            return bool(isinstance(got, np.ndarray) and got.shape == (len(bad[1]),) and np.array_equal(got, np.array(bad[1], dtype=float)))
    except Exception:
        pass
    return False


_FEATS = {}  # classifier features of the running history (set at the rejection, cleared at the start of every case)


def record_strata(ctx, case):
    op, tgt, var = case["operator"], case["target"], case["variant"]
    ctx.stratum(op, tgt)
    ctx.stratum(op, tgt, var)
    if tgt.startswith("fit:"):
        ctx.stratum(op, "fit:*/%s" % tgt.split("/")[1], var)
    if var == "non-integer-large":
        ctx.stratum("poisson-large", case["info"]["form"])
    if tgt.startswith("multi:"):
        if len(case["group"]) < len(case["members"]):
            ctx.stratum("multi", "outsider-member")
        ctx.stratum("multi", "fits-all" if case["bad"][1].get("fits") == "all" else "fits-list")


def rejection_features(case, before):
    """classifier features read off the state before the rejected call"""
    f = {}
    if case["target"].startswith("multi:") and case["operator"] == "name-taken-in-member":
        have = set(r[0] for r in before.get("sources", []) if isinstance(r, list))
        f["earlier_members_on_implicit_no_errors_chi2"] = [j for j in case["info"].get("members_before", []) if j not in have and case["members"][j]["cost"] == "chi2"]
    return f


def reject_step(ctx, case, A, B):
    """issue the malformed call on A; oracles (1) and (2). Returns True when the history may go on."""
    warm = case["warm"]
    ctx.stratum("mode", "warm" if warm else "cold")
    if A.kind == "graph":
        # harness sanity: the edge really closes a cycle in the live graph
        bad = case["bad"]
        nexus = A.obj.nexus
        if bad[0] == "add_dependency":
            t = nexus.get(bad[1])
            closes = any(nexus.get(d) is t or id(t) in live_descendants(nexus.get(d)) for d in bad[2])
        else:
            old = nexus.get(bad[1])
            closes = any(any(nexus.get(p) is par or id(par) in live_descendants(nexus.get(p)) for p in bad[3]) for par in old.get_parents() if par.name != "__root__")
        if not closes:
            ctx.discard("graph-edge-does-not-close-a-cycle")
            return False
    a0 = None
    if warm:
        a0 = A.observe()
        b0 = B.observe()
        okb = all(ctx.check("twin.identical-before", same(a0.get(k), b0[k], EXACT), lambda k=k: {"observable": k, "A": a0.get(k), "B": b0[k]}) for k in b0)
        if not okb:
            return False
    exc = None
    try:
        A.apply(case["bad"])
    except OpTimeout as e:
        exc = RecursionError("malformed call did not terminate: %s" % e)
    except RecursionError as e:
        exc = e
    except Exception as e:
        exc = e
    ctx.op("malformed:" + case["operator"])
    ctx.add_to_set("operator_variant", "%s|%s" % (case["operator"], case["variant"]))
    record_strata(ctx, case)
    if case["bad"][0] in ("add_error", "add_matrix_error"):
        a = case["bad"][1]
        ctx.add_to_set("source_detail", "%s|%s|%s|axis=%s|rel=%s|ref=%s" % (case["operator"], case["bad"][0], a.get("matrix_type", "-"), gen.norm_axis(a.get("axis")), a.get("relative"), a.get("reference") if A.kind in ("fit", "multi") else "data"))
    if case["operator"] in CONDITIONAL:
        # not a class of the statement: a raise is not demanded; only a *rejected* call has to leave no trace
        ctx.op("conditional:%s:%s" % (case["operator"], "rejected" if exc is not None else "accepted"))
        if exc is None:
            ctx.discard("conditional-operator-accepted:%s" % case["operator"])
            return False
    else:
        ctx.check(
            "reject.raises", exc is not None,
            lambda: {"what": "malformed call was accepted", "operator": case["operator"], "variant": case["variant"], "target": case["target"], "bad": case["bad"], "info": case.get("info")},
            key=lambda: classify(case, "raises"),
        )
    if exc is None:
        return False
    ctx.add_to_set("exception_types", "%s|%s" % (case["operator"], type(exc).__name__))
    a1 = A.observe()
    b1 = B.observe()
    before = a0 if warm else b1
    ok = True
    hr = None
    feats = rejection_features(case, before)
    _FEATS.clear()
    _FEATS.update(feats)  # for the classifier of later divergences of this history
    for name in before:
        good = same(a1.get(name), before[name], EXACT)
        if not good and hr is None:
            hr = holds_rejected_data(case, a1)
        ctx.check(
            "A.unchanged/%s" % name, good,
            lambda name=name: {"what": "observable changed by a rejected call", "after": a1.get(name), "before": before[name], "before_is": "A before the call" if warm else "twin B", "exception": repr(exc)[:200], "bad": case["bad"], "tolerance": "EXACT", "features": feats},
            key=lambda name=name: classify(case, "unchanged", dict(feats, observable=name, holds_rejected_data=hr)),
        )
        ok = ok and good
    return ok


def run_twin(ctx, case):
    try:
        A, B = Twin(case), Twin(case)
    except OpTimeout:
        raise
    except Exception as e:
        ctx.discard("valid-setup-rejected:%s:%s" % (case["target"].split("/")[0], type(e).__name__))
        return False
    kind = A.kind
    hist = case["history"]
    pos = case["pos"]
    fitted = False
    issued = False
    if pos == 0:
        ctx.stratum("rejected-at-start")
    if pos >= len(hist):
        ctx.stratum("rejected-at-end")
    if case.get("follow_valid"):
        ctx.stratum("follow-valid")
    for i in range(len(hist) + 1):
        if i == pos:
            n0 = n_wit(ctx)
            go = reject_step(ctx, case, A, B)
            issued = True
            if not go or n_wit(ctx) != n0:
                return issued
        if i == len(hist):
            break
        op = hist[i]
        ctx.op(op_label(kind, op))
        if op[0] in ("read", "read_all", "value_dict"):
            if kind == "graph" and op[0] == "read":
                a, b = A.read_one(op[1]), B.read_one(op[1])
                a, b = {"graph.values": a}, {"graph.values": b}
            else:
                a, b = A.observe(), B.observe()
            if issued:
                if not compare_later(ctx, case, a, b, "read at op %d" % i, fitted):
                    return issued
            continue
        ra = rb = None
        try:
            B.apply(op)
        except OpTimeout:
            ctx.discard("valid-op-timeout:%s" % op[0])
            return issued
        except Exception as e:
            rb = e
        try:
            A.apply(op)
        except OpTimeout as e:
            ra = RecursionError(str(e))
        except Exception as e:
            ra = e
        if issued:
            same_outcome = (ra is None) == (rb is None) and (ra is None or type(ra) is type(rb))
            ctx.check(
                "AB.later/op-outcome", same_outcome,
                lambda: {"what": "a valid call after the rejection behaves differently on A and B", "op": op, "A": repr(ra)[:300], "B": repr(rb)[:300], "bad": case["bad"]},
                key=lambda: classify(case, "later", dict(_FEATS, observable="op-outcome")),
            )
            if not same_outcome:
                return issued
        if rb is not None:
            ctx.discard("valid-op-rejected:%s:%s" % (op[0], type(rb).__name__))
            return issued
        if op[0] == "do_fit":
            fitted = True
            if issued:
                a, b = A.observe(), B.observe()
                good = compare_later(ctx, case, {k: a.get(k) for k in ("parameter_values", "cost_function_value", "parameter_errors", "did_fit") if k in b}, {k: b[k] for k in ("parameter_values", "cost_function_value", "parameter_errors", "did_fit") if k in b}, "do_fit at op %d" % i, True)
                ctx.check("AB.later/fit_result", good, {"what": "fit results of the twins differ", "op_index": i})
                if not good:
                    return issued
    if issued:
        compare_later(ctx, case, A.observe(), B.observe(), "final read", fitted)
    return issued


# ------------------------------------------------------------------ running: constructor-time cases
def _renamed_callable(m, old, new, **kw):
    import linecache

    from scipy.special import erf

    src = re.sub(r"\b%s\b" % re.escape(old), new, m.source(**kw))
    fname = "<verif-c19-%s-%s-%s>" % (m.name, new, kw.get("cdf", False))
    linecache.cache[fname] = (len(src), None, src.splitlines(True), fname)
    ns = {"np": np, "erf": erf}
    exec(compile(src, fname, "exec"), ns)
    return ns[kw.get("name") or m.name]


def build_fit_custom(spec, model_callable, cdf_callable=None, data=None):
    from kafe2.fit import HistFit, IndexedFit, UnbinnedFit, XYFit

    t = spec["type"]
    kw = {"minimizer": spec["minimizer"]} if spec.get("minimizer") else {}
    if t == "xy":
        return XYFit([np.array(spec["x"], dtype=float), np.array(spec["y"], dtype=float)], model_function=model_callable, cost_function=spec["cost"], **kw)
    if t == "indexed":
        return IndexedFit(np.array(spec["data"], dtype=float), model_function=model_callable, cost_function=spec["cost"], **kw)
    if t == "hist":
        return HistFit(dsl.build_container(spec), model_function=model_callable, cost_function=spec["cost"], bin_evaluation=cdf_callable, density=spec.get("density", True), **kw)
    return UnbinnedFit(np.array(spec["data"], dtype=float), model_function=model_callable, **kw)


def run_ctor(ctx, case):
    from kafe2.fit import HistContainer

    operator = case["operator"]
    ttype = case["target"].split(":")[1]
    spec = case["spec"]
    if operator == "reserved-name":
        old, new = case["rename"]
        m = Model.from_spec(spec["model"])
        ix = spec["x"] if ttype == "indexed" else None

        def valid():
            return dsl.build_fit(spec)

        def bad():
            f = _renamed_callable(m, old, new, indexed_x=ix)
            cdf = _renamed_callable(m, old, new, cdf=True, name=m.name + "_antiderivative") if ttype == "hist" else None
            return build_fit_custom(spec, f, cdf)

    elif operator == "poisson-data":
        if ttype == "hist":
            edges = spec["edges"]

            def mk(h):
                return (np.array(h, dtype=float), np.array(edges, dtype=float)) if case["form"] == "numpy_hist" else hist_container_with_bins(h, edges)

            def valid():
                return dsl.build_fit(spec, data=mk(case["heights"]))

            def bad():
                return dsl.build_fit(spec, data=mk(case["bad_heights"]))

        else:

            def mk(s):
                return dsl.build_container(s) if case["as_container"] else None

            def valid():
                return dsl.build_fit(spec, data=mk(spec))

            def bad():
                return dsl.build_fit(case["bad_spec"], data=mk(case["bad_spec"]))

    elif operator == "unsorted-edges":
        fill = list(spec["entries"]) if case["with_fill"] else None

        def mk(e):
            if case["variant"] == "inner-form-swap":
                lo, hi = min(e), max(e)
                inner = [v for v in e if v not in (lo, hi)]
                return HistContainer(n_bins=len(inner) + 1, bin_range=(lo, hi), bin_edges=inner, fill_data=fill)
            return HistContainer(n_bins=len(e) - 1, bin_range=(e[0], e[-1]), bin_edges=list(e), fill_data=fill)

        def valid():
            return mk(spec["edges"])

        def bad():
            return mk(case["bad_edges"])

    else:
        raise KeyError(operator)
    try:
        with time_limit(30.0):
            valid()
    except OpTimeout:
        ctx.discard("valid-constructor-timeout")
        return False
    except Exception as e:
        ctx.discard("valid-constructor-rejected:%s:%s" % (operator, type(e).__name__))
        return False
    exc = None
    try:
        with time_limit(30.0):
            bad()
    except OpTimeout as e:
        exc = RecursionError(str(e))
    except Exception as e:
        exc = e
    ctx.op("malformed:" + operator)
    ctx.add_to_set("operator_variant", "%s|%s" % (operator, case["variant"]))
    record_strata(ctx, case)
    ctx.check(
        "reject.raises", exc is not None,
        lambda: {"what": "malformed constructor call was accepted", "operator": operator, "variant": case["variant"], "target": case["target"], "case": {k: v for k, v in case.items() if k not in ("spec", "bad_spec")}},
        key=lambda: classify(case, "raises"),
    )
    if exc is not None:
        ctx.add_to_set("exception_types", "%s|%s" % (operator, type(exc).__name__))
    return True


def run_case(ctx, case):
    ctx.reseed_legacy()
    _FEATS.clear()
    if case["target"].startswith("ctor:"):
        return run_ctor(ctx, case)
    return run_twin(ctx, case)


def run_shard(ctx):
    idx = 0
    while ctx.more():
        case = gen_case(ctx.rng, ctx.tier, idx, ctx.shard, ctx.nshards)
        idx += 1
        ctx.begin_case(case)
        nontrivial = False
        try:
            nontrivial = run_case(ctx, case)
        except OpTimeout:
            ctx.discard("harness-timeout")
        except Exception:
            ctx.violation(None, "unexpected-exception", {"traceback": fmt_exc()})
        ctx.end_case(nontrivial=bool(nontrivial))


def replay(ctx, case):
    ctx.begin_case(case)
    try:
        run_case(ctx, case)
    except Exception:
        ctx.violation(None, "unexpected-exception", {"traceback": fmt_exc()})
    ctx.end_case(nontrivial=True)
